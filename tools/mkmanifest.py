#!/usr/bin/env python3
# Generates /verif/MANIFEST.json from the table below (kept in one place so it is always valid).
import json, os, subprocess
ROOT = os.path.dirname(os.path.dirname(os.path.abspath(__file__)))

BASELINE_OFF = "/verif/run_baseline.sh"

checks = {}
def chk(pid, category, technique, text, note, design_ref, engine):
    checks[pid] = {
        "property_id": pid,
        "quick_cmd": "./check %s quick" % pid,
        "thorough_cmd": "./check %s thorough" % pid,
        "evidence_file": "/verif/evidence/%s.json" % pid,
        "replay_cmd_template": "./check replay {path}",
        "engine": engine,
        "level_claimed": {"category": category, "text": text, "design_ref": design_ref},
        "level_note": note,
        "technique": technique,
    }

exec(open(os.path.join(ROOT, "tools", "checks_table.py")).read())

all_ids = ["C%02d" % i for i in range(1, 21)]
not_applicable = [{"property_id": p, "reason": NOT_YET.get(p, "check not built yet in this session; see DESIGN.md section 3 for the planned bounded-exhaustive design")} for p in all_ids if p not in checks]

hook_commits = []
try:
    out = subprocess.run(["git", "-C", "/repo", "log", "--format=%H %s"], capture_output=True, text=True).stdout
    for l in out.splitlines():
        h, s = l.split(" ", 1)
        if s.startswith("verif:"):
            hook_commits.append(h)
except Exception:
    pass

m = {
    "version": 1,
    "setup_cmd": "./setup.sh",
    "hooks": {
        "guard": "verif",
        "enable": "go build -tags verif (done by ./check for mc/cmd/vcheck, which links /repo's working tree through a replace directive)",
        "baseline_off_cmd": BASELINE_OFF,
        "source_commits": hook_commits,
        "add_only": True,
    },
    "engines": ENGINES,
    "checks": [checks[k] for k in sorted(checks)],
    "not_applicable": not_applicable,
    "notes": "All checks enumerate a stated bounded space exhaustively (no sampling; VERIF_SEED is recorded but selects nothing). Exit 3 = harness problem (not a violation). Known findings: /verif/known_findings.txt.",
}
json.dump(m, open(os.path.join(ROOT, "MANIFEST.json"), "w"), indent=1)
print("MANIFEST.json: %d checks, %d not_applicable" % (len(checks), len(not_applicable)))
