#!/bin/bash
# usage: confirm_seed.sh <agent-out-dir> <seed-id> <Cxx> "<needs>"
# Confirms a seeded change in a scratch worktree (outside /repo and /verif): patch applies to /repo HEAD, compiler builds,
# the repository test suite still passes, the demo differs with the change and matches native Go without it.
# On success stores /verif/seeded/<seed-id>/{patch.diff,demo/,meta.json}.
set -u
SRC="$1"; ID="$2"; PROP="$3"; NEEDS="${4:-}"
export GOFLAGS=-mod=mod GOPROXY=off GOSUMDB=off GOTOOLCHAIN=local GOPHERJS_SKIP_VERSION_CHECK=true
WT=$(mktemp -d /tmp/seedwt.XXXXXX); rmdir "$WT"
S=$(mktemp -d /tmp/seedscratch.XXXXXX)
cleanup() { git -C /repo worktree remove --force "$WT" >/dev/null 2>&1; rm -rf "$S" "$WT"; }
trap cleanup EXIT
git -C /repo worktree add -q --detach "$WT" HEAD || exit 2
cd "$WT"
go build -o "$S/gopherjs.clean" . || { echo "$ID: clean build failed"; exit 2; }
git apply "$SRC/patch.diff" || { echo "$ID: PATCH DOES NOT APPLY to current HEAD"; exit 3; }
go build ./... || { echo "$ID: does not compile"; exit 3; }
go build -o "$S/gopherjs.mut" . || exit 3
# test suite with the change
go test -vet=off -count=1 -json -timeout 25m ./... > "$S/test.json" 2>/dev/null
python3 - "$S/test.json" <<'PY' || { echo "$ID: TEST SUITE BROKEN by the change"; exit 4; }
import json,sys
passed=set()
for l in open(sys.argv[1]):
    try: e=json.loads(l)
    except Exception: continue
    if e.get('Action')=='pass' and e.get('Test'): passed.add(e['Package']+'::'+e['Test'])
b=json.load(open('/root/.vp/BASELINE.json'))
missing=[t for t in b['stable_pass'] if t not in passed]
print('  suite: missing',len(missing), missing[:3])
sys.exit(1 if missing else 0)
PY
cp -r "$SRC/demo" "$S/demo"
cd "$S/demo"
if [ -f demo.sh ]; then
  # machinery demo: demo.sh <source tree> <gopherjs binary>; clean tree = a second scratch worktree
  WT2=$(mktemp -d /tmp/seedwt.XXXXXX); rmdir "$WT2"
  git -C /repo worktree add -q --detach "$WT2" HEAD || exit 2
  echo "(script demo: no native reference)" > "$S/native.txt"
  timeout 300 bash demo.sh "$WT2" "$S/gopherjs.clean" 2>&1 | head -c 200000 > "$S/clean.txt"
  timeout 300 bash demo.sh "$WT2" "$S/gopherjs.clean" 2>&1 | head -c 200000 > "$S/clean2.txt"
  timeout 300 bash demo.sh "$WT" "$S/gopherjs.mut" 2>&1 | head -c 200000 > "$S/mut.txt"
  git -C /repo worktree remove --force "$WT2" >/dev/null 2>&1; rm -rf "$WT2"
  cmp -s "$S/clean.txt" "$S/clean2.txt" || { echo "$ID: DEMO SCRIPT IS NOT DETERMINISTIC on the clean tree"; exit 5; }
else
go run . > "$S/native.txt" 2>&1
"$S/gopherjs.clean" build -o out_clean.js . >/dev/null 2>"$S/clean.err" && timeout 60 node out_clean.js > "$S/clean.txt" 2>&1
"$S/gopherjs.mut" build -o out_mut.js . >/dev/null 2>"$S/mut.err" && timeout 60 node out_mut.js 2>&1 | head -c 200000 > "$S/mut.txt"
fi
# println goes to stderr natively, console.log in JS: compare merged streams
if cmp -s "$S/clean.txt" "$S/mut.txt"; then echo "$ID: DEMO DOES NOT DISTINGUISH clean from changed"; exit 5; fi
NATIVE_EQ=no; cmp -s "$S/native.txt" "$S/clean.txt" && NATIVE_EQ=yes
D="/verif/seeded/$ID"; rm -rf "$D"; mkdir -p "$D/demo"
cp "$SRC/patch.diff" "$D/patch.diff"; cp -r "$SRC"/demo/. "$D/demo/" 2>/dev/null; rm -f "$D"/demo/*.js "$D"/demo/*.map
cp "$S/clean.txt" "$D/demo/expected.txt"; cp "$S/mut.txt" "$D/demo/actual.txt"
python3 - "$D" "$ID" "$PROP" "$NEEDS" "$NATIVE_EQ" "$SRC" <<'PY'
import json,sys,os
d,i,p,needs,neq,src=sys.argv[1:7]
meta=open(os.path.join(src,'meta.txt')).read() if os.path.exists(os.path.join(src,'meta.txt')) else ''
json.dump({"id":i,"property":p,"needs_to_manifest":needs,"author":"independent sub-agent (given only the property text and a scratch worktree)",
 "confirmed":{"applies_to":"HEAD of /repo at confirmation time","compiles":True,"existing_test_suite_passes":True,"demo_differs_with_change":True,"clean_output_equals_native_go":neq=="yes",
 "ran":"tools/confirm_seed.sh: scratch worktree, go build, go test -vet=off -count=1 ./... compared with BASELINE stable_pass, demo built by clean and changed compiler and run under node, native go run"},
 "agent_description":meta,"detected_by":[]},open(os.path.join(d,'meta.json'),'w'),indent=1)
PY
echo "$ID: CONFIRMED (native==clean: $NATIVE_EQ)"
