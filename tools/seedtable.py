#!/usr/bin/env python3
"""Regenerates the detection table in DESIGN.md (between the SEEDTABLE markers) from seeded/*/meta.json
and tools/mutation_results.json."""
import json, glob, os, re
ROOT = os.path.dirname(os.path.dirname(os.path.abspath(__file__)))
rows = ["| seeded change | property it breaks | what it is (author's words, shortened) | caught by (quick tier) | first violating case |", "|---|---|---|---|---|"]
for d in sorted(glob.glob(os.path.join(ROOT, "seeded", "*"))):
    m = json.load(open(os.path.join(d, "meta.json")))
    desc = " ".join((m.get("agent_description") or "").split())
    desc = desc[:200] + ("…" if len(desc) > 200 else "")
    det = [x for x in m.get("detected_by", []) if x.get("detected")]
    miss = [x["check"] for x in m.get("detected_by", []) if not x.get("detected")]
    by = ", ".join(x["check"] for x in det) or "**none**"
    if miss:
        by += " (not by " + ", ".join(miss) + ")"
    first = ""
    if det:
        mm = re.search(r"case=(\S+)", det[0].get("first_violation", ""))
        first = "`" + mm.group(1) + "`" if mm else ""
    rows.append("| %s | %s | %s | %s | %s |" % (m["id"], m["property"], desc.replace("|", "\\|"), by, first))
out = "\n".join(rows)
mp = os.path.join(ROOT, "tools", "mutation_results.json")
if os.path.exists(mp):
    out += "\n\nHand mutations (`tools/mutations.json`):\n\n| mutation | check | caught |\n|---|---|---|\n"
    for r in json.load(open(mp)):
        out += "| %s | %s | %s |\n" % (r["name"], r["prop"], "yes" if r["exit"] == 1 else "**no** (exit %d)" % r["exit"])
p = os.path.join(ROOT, "DESIGN.md")
s = open(p).read()
b, e = "<!-- SEEDTABLE:BEGIN -->", "<!-- SEEDTABLE:END -->"
if b in s:
    s = s[:s.index(b) + len(b)] + "\n" + out + "\n" + s[s.index(e):]
else:
    s = s.replace("SEEDTABLE\n", b + "\n" + out + "\n" + e + "\n")
open(p, "w").write(s)
print("table rows:", len(rows) - 2)
