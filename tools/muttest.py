#!/usr/bin/env python3
"""Applies each hand-written mutation of tools/mutations.json to /repo (one at a time), runs the
listed checks, and reverts. Used to demonstrate that the checks detect realistic breakage.
usage: muttest.py [name-substring] [--props C03,C06]"""
import json, subprocess, sys, os, time
ROOT = os.path.dirname(os.path.dirname(os.path.abspath(__file__)))
muts = json.load(open(os.path.join(ROOT, "tools", "mutations.json")))
flt = sys.argv[1] if len(sys.argv) > 1 and not sys.argv[1].startswith("--") else ""
results = []
for m in muts:
    if flt and flt not in m["name"]:
        continue
    path = os.path.join("/repo", m["file"])
    src = open(path).read()
    if src.count(m["old"]) < 1:
        print("SKIP (pattern not found):", m["name"]); continue
    open(path, "w").write(src.replace(m["old"], m["new"], m.get("count", 1)))
    try:
        for prop in m["props"]:
            t = time.time()
            r = subprocess.run([os.path.join(ROOT, "check"), prop, "quick"], capture_output=True, text=True, cwd=ROOT)
            viol = [l for l in r.stdout.splitlines() if l.startswith("VIOLATION")]
            results.append((m["name"], prop, r.returncode, len(viol)))
            print("%-45s %s exit=%d violations=%d %.0fs  %s" % (m["name"], prop, r.returncode, len(viol), time.time() - t, (viol[0][:160] if viol else r.stdout.strip().splitlines()[-1][:160] if r.stdout.strip() else r.stderr[-200:])))
    finally:
        subprocess.run(["git", "-C", "/repo", "checkout", "--", m["file"]])
if not flt:
    json.dump([{"name": r[0], "prop": r[1], "exit": r[2], "violations": r[3]} for r in results], open(os.path.join(ROOT, "tools", "mutation_results.json"), "w"), indent=1)
caught = sum(1 for r in results if r[2] == 1)
print("caught %d of %d" % (caught, len(results)))
