#!/bin/bash
# usage: seedtest.sh <patch.diff> <Cxx> [tier]   -- applies the patch to /repo, runs the check, reverts.
set -u
P="$1"; PROP="$2"; TIER="${3:-quick}"
cd /repo || exit 2
if ! git diff --quiet; then echo "repo dirty, refusing"; exit 2; fi
git apply "$P" || { echo "patch does not apply"; exit 2; }
cd /verif && ./check "$PROP" "$TIER" > /tmp/seedtest.$$.out 2>&1
rc=$?
git -C /repo checkout -- .
echo "exit=$rc $(grep -c '^VIOLATION' /tmp/seedtest.$$.out) violation lines; first: $(grep -m1 '^VIOLATION' /tmp/seedtest.$$.out | cut -c1-260)"
tail -2 /tmp/seedtest.$$.out | cut -c1-300
rm -f /tmp/seedtest.$$.out
exit $rc
