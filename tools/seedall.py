#!/usr/bin/env python3
"""Runs the registered quick checks against every confirmed seeded change under /verif/seeded.
usage: seedall.py [id-substring] [--props C07,C03]   (default: the property recorded in meta.json)"""
import json, os, subprocess, sys, time
ROOT = os.path.dirname(os.path.dirname(os.path.abspath(__file__)))
flt = ""
props_override = None
args = sys.argv[1:]
while args:
    a = args.pop(0)
    if a == "--props": props_override = args.pop(0).split(",")
    else: flt = a
sd = os.path.join(ROOT, "seeded")
for name in sorted(os.listdir(sd)):
    if flt and flt not in name: continue
    d = os.path.join(sd, name)
    meta = json.load(open(os.path.join(d, "meta.json")))
    props = props_override or meta.get("check_with") or [meta["property"]]
    if subprocess.run(["git", "-C", "/repo", "diff", "--quiet"]).returncode != 0:
        print("repo dirty; abort"); sys.exit(2)
    r = subprocess.run(["git", "-C", "/repo", "apply", os.path.join(d, "patch.diff")], capture_output=True, text=True)
    if r.returncode != 0:
        print("%-14s PATCH DOES NOT APPLY: %s" % (name, r.stderr.strip()[:200])); continue
    try:
        for p in props:
            t = time.time()
            r = subprocess.run([os.path.join(ROOT, "check"), p, "quick"], capture_output=True, text=True, cwd=ROOT)
            viol = [l for l in r.stdout.splitlines() if l.startswith("VIOLATION")]
            det = r.returncode == 1 and len(viol) > 0
            print("%-14s %s exit=%d violation_lines=%d %.0fs %s" % (name, p, r.returncode, len(viol), time.time() - t, viol[0][:150] if viol else ""))
            db = [x for x in meta.get("detected_by", []) if x.get("check") != p]
            db.append({"check": p, "tier": "quick", "detected": det, "first_violation": viol[0][:300] if viol else ""})
            meta["detected_by"] = db
    finally:
        subprocess.run(["git", "-C", "/repo", "checkout", "--", "."])
    json.dump(meta, open(os.path.join(d, "meta.json"), "w"), indent=1)
