ENGINES = [
 {"name": "E1 build driver", "path": "mc/gjs, mc/pool", "serves_properties": ["C01","C02","C03","C04","C05","C06","C07","C08","C09","C10","C11","C13","C14","C15","C16","C17","C19"], "kind_free_text": "drives the real build.Session/compiler/WriteProgramCode of /repo's working tree in worker subprocesses"},
 {"name": "E2 native reference", "path": "mc/ref", "serves_properties": ["C01","C02","C04","C05","C06","C07","C08","C09","C10","C13","C14","C15","C16"], "kind_free_text": "go1.23.5 native build+run of the same generated source; output normaliser"},
 {"name": "E3 controlled JS executor / stateless explorer", "path": "js/runner.js, mc/jsx", "serves_properties": ["C02","C03"], "kind_free_text": "vm context with owned Math.random/Date.now/timer queue; DFS over choice lists with deviation bound"},
 {"name": "differential harness", "path": "mc/diffrun", "serves_properties": ["C06"], "kind_free_text": "per-case comparison, determinism guard, replay artefacts, known-finding matching"},
]
NOT_YET = {}

chk("C06", "exploration",
    "bounded exhaustive enumeration of (type, operator, operand shape, operand values) in explorer programs; differential against native Go",
    "Every arithmetic/bitwise/shift/comparison/conversion operator of every numeric type is evaluated on all 8-bit operand pairs and on the full cross product of a boundary grid (about 100 values per wider type), in variable/constant/folded/nested/assignment shapes; each row digest must equal the native toolchain's. Exhaustive for the stated grids, which are chosen from the branch conditions in the translator and numeric.js.",
    "Trusted: go1.23.5 native arithmetic as the reference; the digest (two 32-bit lanes) collides with probability ~2^-64 per row. Values outside the grids of >8-bit types are not explored.",
    "DESIGN.md section 3 C06", "differential harness")

chk("C03", "model_checking",
    "explicit-state BFS of a Go channel/select/scheduler model + stateless DFS of the real runtime over select-pick/time-slice/timer-order choices (deviation-bounded); every implementation trace must be a model trace",
    "For every scenario of a bounded alphabet (2-4 goroutines, <=2-3 straight-line ops each from send/recv/recv-ok/close/range/len/select(+default)/Gosched/Goexit/NumGoroutine on 1-2 channels that are nil or of capacity 0..2, with and without recover, with and without an exported Go function) the model's complete state space is enumerated and the compiled interpreter program is run under every resolution of the runtime's own nondeterminism up to the deviation bound (2 quick / 3 thorough); each observed global log order + end (exit, reported deadlock, silent stuck, panic) must be one the model allows, so lost wake-ups, wrong wake targets, spurious or missing deadlock reports, lost/duplicated/reordered values are all violations.",
    "Trusted: js/chanmodel.js as the transcription of Go's channel semantics (validated the other way round by replaying every implementation trace through it); partner choice among parked goroutines and ready-case choice are left unconstrained as the language does. One vm context is reused across executions of a shard (violations are re-run twice in fresh contexts before being reported).",
    "DESIGN.md section 3 C03", "E3 controlled JS executor / stateless explorer")

chk("C14", "exploration",
    "bounded exhaustive enumeration of byte strings / rune values inside an explorer program; differential against native Go (plain and minified builds)",
    "All byte strings of length <= 4 (quick) / 5 (thorough) over a 15-byte alphabet made of the edges of every UTF-8 decoder branch, with every index, every slice pair, range iteration, []rune/[]byte round trips, copy/append, comparison/concatenation with all strings of length <= 2, switch and map-key use; string(rune) and []rune->string for every value -4096..0x110fff; integer carriers; out-of-range index/slice panics; a table of ~500 literals (every <=2-byte string over the alphabet, minimal and full escaping, raw literals, non-BMP, surrogate-encoding bytes). Digest per (operation, length, first byte); a second pass prints the first diverging string.",
    "Trusted: native Go as reference; 2x32-bit digests. Strings containing bytes outside the alphabet are not explored (the alphabet holds one representative of every decoder branch edge).",
    "DESIGN.md section 3 C14", "differential harness")

chk("C15", "exploration",
    "bounded exhaustive enumeration of map operation histories per key type inside explorer programs; differential against native Go",
    "For ~50 comparable key types (all basic kinds, named versions, pointers, channels, interfaces holding look-alike values of different dynamic types incl. same-named local types, arrays and structs of those to depth 2 with separator/escape-confusable strings, NaN, +-0) and an adversarial key set each: ALL histories up to depth 3-4 (quick) / 4-6 (thorough) over {insert, delete, read-modify-write, range-while-deleting, range-while-inserting} are replayed on fresh maps (make and literal), and len / lookup / comma-ok / range multiset are digested after every step; plus key-equality matrices, nil-map reads/writes, unhashable dynamic keys.",
    "Trusted: native Go maps as the reference. Iteration order is never observed. Key sets are small (3-6 keys per type) and chosen adversarially from the keyFor encodings read in the code.",
    "DESIGN.md section 3 C15", "differential harness")

chk("C07", "exploration",
    "exhaustive product (type shape x copy context x mutated side) + aliasing probes, each program differential against native Go (plain and minified)",
    "16 array/struct shapes (depth <= 2; typed-array-backed and generic arrays, nested/embedded structs, arrays of structs, structs with pointer/slice/interface/func/64-bit/complex fields) x 32 copy contexts (every clone site read in the translator: assignment forms, arguments, variadics, results read from globals/derefs/fields and consumed directly, named results, range over slice/array/pointer-to-array/map, channel send/receive, select, map/slice/array/field store and load, composite literals, map keys, interface boxing/unboxing/type switch, value receivers through value/pointer/interface/embedding, method values and expressions, deref load/store, closures, append, copy, go/defer arguments, slice-to-array conversions, swaps, zero values) with the deepest leaf mutated on either side; about 90 aliasing probes (pointers to variables, fields, elements, package variables, pointer identity, 2- and 3-index subslices, append within/beyond capacity, array pointers from slices, maps, channels, closures, range with index writes, linked structures).",
    "Trusted: native Go as the reference. Shapes deeper than 2 and contexts not listed are not explored. Implementation-defined values (cap after growth) are never printed. GopherJS's documented refusal to convert non-numeric SUBslices to array pointers is outside the alphabet.",
    "DESIGN.md section 3 C07", "differential harness")

chk("C08", "exploration",
    "bounded exhaustive enumeration of unwinding trees inside an interpreter program + exhaustive (operation x trigger value x statement position) probes; differential against native Go (plain and minified)",
    "(D) ALL unwinding trees of depth <= 2 (quick, ~1.1e5 trees) / 3 (thorough): each frame carries 0-2 deferred actions from {trace, recover, recover one call deeper, recover in a nested closure, re-panic, panic new, modify named result, Goexit, recover-and-set-result, recover twice} and a body from {return, panic string, panic custom error, run-time error, call child, Goexit}, each tree run in a fresh goroutine with a top-level recover, full event trace compared; (P) every panicking operation named in the property x operand values on both sides of the trigger x its position in a traced statement sequence; (S) 30 static defer/recover forms (argument and receiver evaluation at defer time, builtins, LIFO in loops, nested/replaced/re-raised panics, named results, Goexit through frames, panics in other goroutines); (E) 11 whole-program endings.",
    "Trusted: native Go as the reference; panic texts compared by class. Known findings (evaluation-order of a panicking left-hand side vs the right-hand side, lazily created pointers/method values, defer recover(), make(map, negative)) are listed in known_findings.txt by exact case id.",
    "DESIGN.md section 3 C08", "differential harness")
