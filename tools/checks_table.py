ENGINES = [
 {"name": "E1 build driver", "path": "mc/gjs, mc/pool", "serves_properties": ["C01","C02","C03","C04","C05","C06","C07","C08","C09","C10","C11","C13","C14","C15","C16","C17","C19"], "kind_free_text": "drives the real build.Session/compiler/WriteProgramCode of /repo's working tree in worker subprocesses"},
 {"name": "E2 native reference", "path": "mc/ref", "serves_properties": ["C01","C02","C04","C05","C06","C07","C08","C09","C10","C13","C14","C15","C16"], "kind_free_text": "go1.23.5 native build+run of the same generated source; output normaliser"},
 {"name": "E3 controlled JS executor / stateless explorer", "path": "js/runner.js, mc/jsx", "serves_properties": ["C02","C03"], "kind_free_text": "vm context with owned Math.random/Date.now/timer queue; DFS over choice lists with deviation bound"},
 {"name": "differential harness", "path": "mc/diffrun", "serves_properties": ["C06"], "kind_free_text": "per-case comparison, determinism guard, replay artefacts, known-finding matching"},
]
NOT_YET = {}

chk("C06", "exploration",
    "bounded exhaustive enumeration of (type, operator, operand shape, operand values) in explorer programs; differential against native Go",
    "Every arithmetic/bitwise/shift/comparison/conversion operator of every numeric type is evaluated on all 8-bit operand pairs and on the full cross product of a boundary grid (about 100 values per wider type), in variable/constant/folded/nested/assignment shapes; each row digest must equal the native toolchain's. Exhaustive for the stated grids, which are chosen from the branch conditions in the translator and numeric.js.",
    "Trusted: go1.23.5 native arithmetic as the reference; the digest (two 32-bit lanes) collides with probability ~2^-64 per row. Values outside the grids of >8-bit types are not explored.",
    "DESIGN.md section 3 C06", "differential harness")
