#!/usr/bin/env python3
"""Regenerates the 'counts of one quick run' table in DESIGN.md (between the RUNTABLE markers) from evidence/*.json."""
import json, glob, os
ROOT = os.path.dirname(os.path.dirname(os.path.abspath(__file__)))
rows = ["| id | tier | evaluations | non-trivial | other counts | violations | known findings | exhaustive | wall |", "|---|---|---|---|---|---|---|---|---|"]
for f in sorted(glob.glob(os.path.join(ROOT, "evidence", "C*.json"))):
    e = json.load(open(f))
    c = e["coverage"]
    skip = {"rule", "samples", "evaluations", "distinct_nontrivial", "exhaustive", "harness_problems"}
    other = ", ".join("%s=%s" % (k, v) for k, v in sorted(c.items()) if k not in skip and not isinstance(v, (list, dict)))
    rows.append("| %s | %s | %s | %s | %s | %s | %s | %s | %.0f s |" % (e["property_id"], e["tier"], c.get("evaluations"), c.get("distinct_nontrivial"), other, e.get("violations"), len(e.get("known_findings_seen") or []), c.get("exhaustive"), e.get("wall_s", 0)))
out = "\n".join(rows)
p = os.path.join(ROOT, "DESIGN.md")
s = open(p).read()
b, en = "<!-- RUNTABLE:BEGIN -->", "<!-- RUNTABLE:END -->"
if b in s:
    s = s[:s.index(b) + len(b)] + "\n" + out + "\n" + s[s.index(en):]
    open(p, "w").write(s)
print(out)
