#!/usr/bin/env python3
"""Runs quick checks against confirmed seeded changes, each in its own scratch worktree of /repo
(outside /repo and /verif), several at a time. /repo itself and /verif/evidence are not touched:
the check script is pointed at the scratch tree with VERIF_REPO and writes to VERIF_OUT.
usage: seedpar.py [-j N] [--props C07,C03 | --all] [--tier quick] id-substring [id-substring ...]
Records the result in seeded/<id>/meta.json (detected_by)."""
import json, os, subprocess, sys, time, shutil, tempfile
from concurrent.futures import ThreadPoolExecutor
ROOT = os.path.dirname(os.path.dirname(os.path.abspath(__file__)))
ALL = ["C%02d" % i for i in range(1, 21)]
jobs, props_override, tier, subs = 3, None, "quick", []
args = sys.argv[1:]
while args:
    a = args.pop(0)
    if a == "-j": jobs = int(args.pop(0))
    elif a == "--props": props_override = args.pop(0).split(",")
    elif a == "--all": props_override = ALL
    elif a == "--tier": tier = args.pop(0)
    else: subs.append(a)
sd = os.path.join(ROOT, "seeded")
names = [n for n in sorted(os.listdir(sd)) if not subs or any(s in n for s in subs)]

def one(name):
    d = os.path.join(sd, name)
    meta = json.load(open(os.path.join(d, "meta.json")))
    props = props_override or meta.get("check_with") or [meta["property"]]
    base = tempfile.mkdtemp(prefix="seedpar.")
    tree = os.path.join(base, "tree")
    lines = []
    try:
        r = subprocess.run(["git", "-C", "/repo", "worktree", "add", "-q", "--detach", tree, "HEAD"], capture_output=True, text=True)
        if r.returncode != 0: return ["%-14s WORKTREE FAILED %s" % (name, r.stderr.strip()[:200])]
        r = subprocess.run(["git", "-C", tree, "apply", os.path.join(d, "patch.diff")], capture_output=True, text=True)
        if r.returncode != 0: return ["%-14s PATCH DOES NOT APPLY: %s" % (name, r.stderr.strip()[:200])]
        # a private copy of the machinery, so that edits to /verif during a long sweep cannot disturb it
        snap = os.path.join(base, "verif")
        subprocess.run(["rsync", "-a", "--exclude", "bin", "--exclude", "replays", "--exclude", ".git", "--exclude", "seeded", ROOT + "/", snap + "/"], check=True)
        env = dict(os.environ, VERIF_REPO=tree, VERIF_OUT=os.path.join(base, "out"), VERIF_TMP=os.path.join(base, "tmp"))
        os.makedirs(env["VERIF_TMP"], exist_ok=True)
        for p in props:
            t = time.time()
            r = subprocess.run([os.path.join(snap, "check"), p, tier], capture_output=True, text=True, cwd=snap, env=env)
            viol = [l for l in r.stdout.splitlines() if l.startswith("VIOLATION")]
            det = r.returncode == 1 and len(viol) > 0
            first = viol[0].replace(env["VERIF_OUT"], "/verif")[:300] if viol else ""
            lines.append("%-14s %s exit=%d violation_lines=%d %.0fs %s" % (name, p, r.returncode, len(viol), time.time() - t, first[:170]))
            if r.returncode not in (0, 1): lines.append("    stderr: " + r.stderr.strip()[-300:].replace("\n", " | "))
            db = [x for x in meta.get("detected_by", []) if not (x.get("check") == p and x.get("tier") == tier)]
            db.append({"check": p, "tier": tier, "detected": det, "first_violation": first})
            meta["detected_by"] = db
        json.dump(meta, open(os.path.join(d, "meta.json"), "w"), indent=1)
    finally:
        subprocess.run(["git", "-C", "/repo", "worktree", "remove", "--force", tree], capture_output=True)
        shutil.rmtree(base, ignore_errors=True)
    return lines

with ThreadPoolExecutor(max_workers=jobs) as ex:
    for lines in ex.map(one, names):
        for l in lines: print(l, flush=True)
