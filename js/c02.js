'use strict';
// C02 explorer: a suspension point is a deviation. For every case, every subset of its dynamic
// yield points (all 2^N when N <= limit, else all subsets of size <= k plus the full set) is turned
// into real goroutine suspensions; the trace must equal the no-suspension trace, the direct-form
// build's trace, and (checked by the Go side) native Go's.
// usage: node c02.js <script.js> <direct.js> <ncases> <tier> <out.json> [replay: case mask]
const fs = require('fs');
const { loadScript, runOnce, Machine } = require('./runner.js');

function runCase(script, machine, c, mask) {
  let done = null;
  const globals = {
    verifCase: c,
    verifSuspend: (occ) => occ < 31 ? ((mask >>> occ) & 1) === 1 : (mask < 0),
    verifCaseDone: (id, trace, occ) => { done = { id: String(id), trace: String(trace), occ: occ | 0 }; },
  };
  const r = runOnce(script, [], { globals, fifoTimers: true, maxTimers: 5000, machine });
  return { done, end: r.end, out: r.out };
}

function subsets(n, tier) {
  const limit = tier === 'thorough' ? 12 : 8;
  const res = [];
  if (n <= limit) { for (let m = 1; m < (1 << n); m++) res.push(m); return { masks: res, exhaustive: true }; }
  const nn = Math.min(n, 30);
  for (let i = 0; i < nn; i++) res.push(1 << i);
  if (tier === 'thorough' || n <= 16) for (let i = 0; i < nn; i++) for (let j = i + 1; j < nn; j++) res.push((1 << i) | (1 << j));
  res.push(-1); // every occurrence suspends
  // alternating patterns
  res.push(0x55555555 | 0); res.push(0xAAAAAAAA | 0);
  return { masks: res, exhaustive: false };
}

function main() {
  const [scriptP, directP, ncases_, tier, outPath, rc, rm] = process.argv.slice(2);
  const script = loadScript(scriptP), direct = loadScript(directP);
  const m1 = new Machine(), m2 = new Machine();
  const ncases = +ncases_;
  const result = { cases: [], executions: 0, violations: [] };
  if (rc !== undefined) {
    const x = runCase(script, undefined, +rc, +rm | 0), b = runCase(script, undefined, +rc, 0);
    console.log('no suspension :', JSON.stringify(b.done), b.end);
    console.log('mask ' + rm + ':', JSON.stringify(x.done), x.end, x.out.slice(-3));
    process.exit(x.done && b.done && x.done.trace === b.done.trace && x.end === b.end ? 0 : 1);
  }
  for (let c = 0; c < ncases; c++) {
    const base = runCase(script, m1, c, 0);
    result.executions++;
    if (!base.done || base.end !== 'exit0') {
      result.violations.push({ c, id: base.done ? base.done.id : 'case' + c, kind: 'base', mask: 0, got: base.done ? base.done.trace : null, end: base.end, out: base.out.slice(-5) });
      result.cases.push({ c, id: base.done ? base.done.id : 'case' + c, trace: base.done ? base.done.trace : null, n: 0, subsets: 0, exhaustive: false });
      continue;
    }
    const d = runCase(direct, m2, c, 0);
    result.executions++;
    if (!d.done || d.done.trace !== base.done.trace || d.end !== 'exit0') {
      result.violations.push({ c, id: base.done.id, kind: 'direct-form build differs', mask: 0, want: base.done.trace, got: d.done ? d.done.trace : null, end: d.end });
    }
    const n = base.done.occ;
    const ss = subsets(n, tier);
    let bad = 0;
    for (const mask of ss.masks) {
      const x = runCase(script, m1, c, mask);
      result.executions++;
      if (!x.done || x.done.trace !== base.done.trace || x.end !== 'exit0' || x.done.occ !== n) {
        // replay in a fresh context before believing it
        const y = runCase(script, undefined, c, mask);
        const same = (!!y.done === !!x.done) && (!y.done || y.done.trace === x.done.trace) && y.end === x.end;
        if (!same) throw new Error('nondeterministic replay of case ' + c + ' mask ' + mask);
        if (bad++ < 3) result.violations.push({ c, id: base.done.id, kind: 'suspension changes behaviour', mask, want: base.done.trace, got: x.done ? x.done.trace : null, end: x.end, out: x.out.slice(-3) });
      }
    }
    result.cases.push({ c, id: base.done.id, trace: base.done.trace, n, subsets: ss.masks.length, exhaustive: ss.exhaustive, bad });
  }
  fs.writeFileSync(outPath, JSON.stringify(result));
}
main();
