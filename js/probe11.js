// JavaScript side of the C11 contract check. Evaluated INSIDE the vm context (same realm as the
// compiled program), so that values created here have the context's own constructors.
(function (G) {
  function units(s) { var r = []; for (var i = 0; i < s.length; i++) r.push(('0000' + s.charCodeAt(i).toString(16)).slice(-4)); return r.join(','); }
  function describe(x) {
    if (x === null) return 'null';
    if (x === undefined) return 'undefined';
    var t = typeof x;
    if (t === 'number') return 'number:' + (Object.is(x, -0) ? '-0' : String(x));
    if (t === 'boolean') return 'boolean:' + x;
    if (t === 'string') return 'string:' + units(x);
    if (t === 'function') return 'function';
    if (ArrayBuffer.isView(x)) return x.constructor.name + ':[' + Array.prototype.map.call(x, describe).join(',') + ']';
    if (Array.isArray(x)) return 'Array:[' + x.map(describe).join(',') + ']';
    return 'Object:{' + Object.keys(x).sort().map(function (k) { return k + '=' + describe(x[k]); }).join(',') + '}';
  }
  G.verifProbe = describe;
  G.verifEcho = function (x) { return x; };
  G.VerifCtor = function (x) { this.d = describe(x); };
  G.verifDescribeProp = function (o, k) { return describe(o[k]); };
  G.verifCall = function (name) { return describe(G[name].apply(undefined, Array.prototype.slice.call(arguments, 1))); };
  G.verifCallWith = function (name) {
    switch (name) {
      case 'goSlice': return describe(G[name](new Uint8Array([1, 2, 3]), { a: 1, b: 'x' }));
      case 'goObj': return describe(G[name]({ k: 'v' }));
      case 'goMake': return describe(G[name].call({ base: 10 }, 1, 2));
    }
  };
  G.verifSame = function (a, b) { return a === b; };
  // the documented conversions, computed by JavaScript itself and returned as plain numbers / strings
  G.verifParseFloat = function (x) { return parseFloat(x); };
  G.verifParseInt32 = function (x) { return parseInt(x) >> 0; };
  G.verifTruthy = function (x) { return x ? 1 : 0; };
  G.verifString = function (x) { return String(x); };
  G.verifTouch = function (x) { x[0] = ArrayBuffer.isView(x) ? 42 : 'changed'; };
  G.verifCatch = function (name) { try { G[name](); return 'no error'; } catch (e) { return String(e && e.message !== undefined ? e.message : e); } };
  G.verifLater = function (name) {
    G.verifLaterResult = undefined;
    setTimeout(function () { G.verifLaterResult = G.verifCatch(name); });
  };
  G.verifGraph = function (kind) {
    var s = { x: 1.5 };
    switch (kind) {
      case 'tree': return { a: { x: 1.5 }, b: { x: 1.5 } };
      case 'diamond': return { a: s, b: s };
      case 'selfcycle': var o = { n: 1 }; o.self = o; return o;
      case 'twocycle': var a = { n: 1 }, b = { n: 2 }; a.o = b; b.o = a; return a;
      case 'mixed': return [s, s, { inner: s }];
      case 'sharedarray': var r = [1, 2]; return { p: r, q: r };
      case 'deepshared': var leaf = { v: 'L' }; return { l: { m: leaf }, r: { m: leaf }, t: leaf };
    }
  };
  // calls the exposed Go function with one object whose properties A and B are distinct equal objects or the very same object
  G.verifPairCall = function (name, kind) {
    var s = { x: 1.5 }, t = { x: 1.5 };
    switch (kind) {
      case 'distinct': return G[name]({ A: s, B: t });
      case 'shared': return G[name]({ A: s, B: s });
      case 'shared-reversed': return G[name]({ B: s, A: s });
      case 'map-distinct': return G[name]({ k: { A: s, B: t } });
      case 'map-shared': return G[name]({ k: { A: s, B: s } });
      case 'map-shared-reversed': return G[name]({ k: { B: s, A: s } });
    }
  };
  G.verifTwoArgs = function (name) { var s = { x: 1.5 }; return G[name](s, s); };
  G.verifMake = function (kind) {
    switch (kind) {
      case 'true': return true; case 'false': return false; case 'zero': return 0; case 'negzero': return -0; case 'int': return 42; case 'frac': return 0.5;
      case 'inf': return Infinity; case 'nan': return NaN; case 'empty': return ''; case 'ascii': return 'abc'; case 'bmp': return 'é€'; case 'astral': return '😀';
      case 'lonesurrogate': return '\ud800'; case 'null': return null; case 'undefined': return undefined; case 'array': return [1, 'x', null]; case 'object': return { a: 1, b: [2] };
      case 'int8': return new Int8Array([1, -1]); case 'int16': return new Int16Array([1, -1]); case 'int32': return new Int32Array([1, -1]);
      case 'uint8': return new Uint8Array([1, 255]); case 'uint16': return new Uint16Array([1, 65535]); case 'uint32': return new Uint32Array([1, 4294967295]);
      case 'float32': return new Float32Array([1.5, 2]); case 'float64': return new Float64Array([1.5, 2]);
      case 'function': return function (a, b) { return a + b; }; case 'nested': return { inner: { deep: [1] } };
      case 'counter': return { base: 5, add: function (x) { return this.base + x; }, join: function () { return this.base + ':' + Array.prototype.join.call(arguments, ','); }, width: 1 };
      case 'nonnumbers': return ['12.5px', '3 apples', '1.2.3', '1_000', '0x10', '', '   ', null, false, true, [], [1, 2], new Date(5), undefined, {}, '1e3', '-7.9', '  42  ', 'Infinity', '-0', '.5', '+8', [[3]], 'NaN'];
      case 'actors': return ['first', 'second', 'third'].map(function (nm) {
        return {
          name: nm, list: [1, 2, 3],
          who: function () { return this.name + ':' + Array.prototype.join.call(arguments, ','); },
          remember: function () { this.last = this.name + ':' + Array.prototype.join.call(arguments, ','); },
          fn: function () { return 'fn:' + Array.prototype.join.call(arguments, ','); },
          Ctor: function () { this.d = 'new:' + Array.prototype.join.call(arguments, ','); }
        };
      });
      case 'big': return 9007199254740991; case 'negint': return -7;
      case 'wrapped': return { name: 'nm', count: 7, ratio: 1.5, flag: true, inner: { label: 'lab' }, fn: function (x) { return x * 2; } };
    }
  };
})(this);
