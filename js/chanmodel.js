'use strict';
// Explicit-state model of Go's channel / select / goroutine semantics for the
// C03 scenarios. BFS over all interleavings Go allows; the result is the set of
// allowed observable traces: global sequence of (goroutine, log text) up to the
// moment main finishes (or the program deadlocks), plus the end kind.
//
// Modelling decisions (each one was needed to avoid false alarms):
//  1. termination is its own step (a goroutine's "done" and main's exit);
//  2. every blocking operation that cannot proceed parks first; a running
//     operation only pairs with *parked* partners or buffer state (so a
//     non-blocking select may take default although a partner is about to arrive);
//  3. effect and observation are separate steps: an operation's effect happens
//     in one transition, the goroutine's log line is appended in a later one.
//  Which parked partner is served is unspecified by the language: any.

const K = { send: 0, recv: 1, recv2: 2, close: 3, select: 4, range: 5, len: 6, gosched: 7, goexit: 8, numg: 9, spawn: 10, goexitd: 11 };

function initState(sc) {
  return {
    ch: sc.chans.map(c => ({ nil: c < 0, cap: c < 0 ? 0 : c, buf: [], closed: false })),
    // st: 'idle' (not spawned) | 'run' | 'park' | 'done'
    g: sc.gor.map((ops, i) => ({ pc: 0, st: (i === 0 || !sc.explicitSpawn) ? 'run' : 'idle', pend: null, park: null, after: null })),
    log: [],
    end: null,
  };
}

function clone(s) { return JSON.parse(JSON.stringify(s)); }

// Returns the list of successor states of s.
function successors(sc, s, stats) {
  const out = [];
  if (s.end) return out;
  const n = s.g.length;
  for (let gi = 0; gi < n; gi++) {
    const g = s.g[gi];
    if (g.st !== 'run') continue;
    // pending observation: append the log line
    if (g.pend !== null) {
      const t = clone(s);
      const tg = t.g[gi];
      t.log.push([gi, tg.pend]);
      tg.pend = null;
      if (tg.after === 'exit') { tg.after = null; tg.pc = sc.gor[gi].length; tg.goexit = true; }
      out.push(t);
      continue;
    }
    const ops = sc.gor[gi];
    if (g.pc >= ops.length) {
      // termination step
      const t = clone(s);
      t.g[gi].st = 'done';
      if (gi === 0) t.end = 'exit';
      out.push(t);
      continue;
    }
    const op = ops[g.pc];
    stepOp(sc, s, gi, op, out);
  }
  if (out.length === 0 && !s.end) {
    // nobody can move
    const t = clone(s);
    t.end = s.g[0].st === 'done' ? 'exit' : 'deadlock';
    out.push(t);
  }
  if (stats) stats.transitions += out.length;
  return out;
}

function panicG(t, gi, text, sc) {
  // the goroutine's recover wrapper logs the panic and the goroutine ends
  const g = t.g[gi];
  if (sc.norecover) { t.end = 'panic:' + text; return; }
  g.pend = 'panic:' + text;
  g.pc = sc.gor[gi].length;
  g.park = null;
  g.st = 'run';
}

// parked partners on channel ci: receivers / senders (plain ops or select cases)
function parkedRecv(s, ci) {
  const r = [];
  s.g.forEach((g, i) => {
    if (g.st !== 'park' || !g.park) return;
    g.park.forEach((p, idx) => { if (!p.send && p.c === ci) r.push([i, idx]); });
  });
  return r;
}
function parkedSend(s, ci) {
  const r = [];
  s.g.forEach((g, i) => {
    if (g.st !== 'park' || !g.park) return;
    g.park.forEach((p, idx) => { if (p.send && p.c === ci) r.push([i, idx]); });
  });
  return r;
}

// wake goroutine gi whose parked entry idx completed with result
function wake(sc, t, gi, idx, res) {
  const g = t.g[gi];
  const p = g.park[idx];
  const op = sc.gor[gi][g.pc];
  g.st = 'run';
  g.park = null;
  finishOp(sc, t, gi, op, p, res);
}

// Completes operation op of goroutine gi through entry p ({send,c,v,case}) with result res
// res: for recv {v, ok}; for send {closed:boolean}
function finishOp(sc, t, gi, op, p, res) {
  const g = t.g[gi];
  if (p.send && res.closed) { panicG(t, gi, 'send on closed channel', sc); return; }
  switch (op.k) {
    case K.send: g.pend = 's'; g.pc++; break;
    case K.recv: g.pend = 'r' + res.v; g.pc++; break;
    case K.recv2: g.pend = 'r' + res.v + ',' + (res.ok ? 't' : 'f'); g.pc++; break;
    case K.range:
      if (res.ok) { g.pend = 'g' + res.v; /* stay on the same op */ } else { g.pend = 'ge'; g.pc++; }
      break;
    case K.select:
      g.pend = p.send ? ('sel' + p.idx + ':s') : ('sel' + p.idx + ':' + res.v + ',' + (res.ok ? 't' : 'f'));
      g.pc++;
      break;
    case K.goexitd:
      // the deferred receive of a goroutine that called runtime.Goexit(): afterwards the goroutine is over
      g.pend = 'dr' + res.v + ',' + (res.ok ? 't' : 'f');
      g.pc = sc.gor[gi].length;
      break;
  }
}

// try to perform a send/recv entry p for running goroutine gi; pushes successor states.
// Returns true if the entry can proceed now.
function canProceed(s, p) {
  const c = s.ch[p.c];
  if (c.nil) return false;
  if (p.send) return c.closed || parkedRecv(s, p.c).length > 0 || c.buf.length < c.cap;
  return c.buf.length > 0 || parkedSend(s, p.c).length > 0 || c.closed;
}

function perform(sc, s, gi, op, p, out) {
  const c0 = s.ch[p.c];
  if (p.send) {
    if (c0.closed) { const t = clone(s); panicG(t, gi, 'send on closed channel', sc); out.push(t); return; }
    const rs = parkedRecv(s, p.c);
    if (rs.length > 0) {
      for (const [ri, idx] of rs) {
        const t = clone(s);
        wake(sc, t, ri, idx, { v: p.v, ok: true });
        finishOp(sc, t, gi, op, p, { closed: false });
        out.push(t);
      }
      return;
    }
    const t = clone(s);
    t.ch[p.c].buf.push(p.v);
    finishOp(sc, t, gi, op, p, { closed: false });
    out.push(t);
    return;
  }
  // receive
  if (c0.buf.length > 0) {
    const ss = parkedSend(s, p.c);
    if (ss.length > 0) {
      for (const [si, idx] of ss) {
        const t = clone(s);
        const v = t.ch[p.c].buf.shift();
        t.ch[p.c].buf.push(t.g[si].park[idx].v);
        wake(sc, t, si, idx, { closed: false });
        finishOp(sc, t, gi, op, p, { v, ok: true });
        out.push(t);
      }
      return;
    }
    const t = clone(s);
    const v = t.ch[p.c].buf.shift();
    finishOp(sc, t, gi, op, p, { v, ok: true });
    out.push(t);
    return;
  }
  const ss = parkedSend(s, p.c);
  if (ss.length > 0) {
    for (const [si, idx] of ss) {
      const t = clone(s);
      const v = t.g[si].park[idx].v;
      wake(sc, t, si, idx, { closed: false });
      finishOp(sc, t, gi, op, p, { v, ok: true });
      out.push(t);
    }
    return;
  }
  // closed and empty
  const t = clone(s);
  finishOp(sc, t, gi, op, p, { v: 0, ok: false });
  out.push(t);
}

function stepOp(sc, s, gi, op, out) {
  const g = s.g[gi];
  switch (op.k) {
    case K.send: case K.recv: case K.recv2: case K.range: {
      const p = { send: op.k === K.send, c: op.c, v: op.v, idx: 0 };
      if (canProceed(s, p)) { perform(sc, s, gi, op, p, out); return; }
      const t = clone(s);
      t.g[gi].st = 'park';
      t.g[gi].park = [p];
      out.push(t);
      return;
    }
    case K.close: {
      const c = s.ch[op.c];
      const t = clone(s);
      if (c.nil) { panicG(t, gi, 'close of nil channel', sc); out.push(t); return; }
      if (c.closed) { panicG(t, gi, 'close of closed channel', sc); out.push(t); return; }
      t.ch[op.c].closed = true;
      // Every parked receiver wakes with (zero,false); every parked sender panics in its own
      // goroutine. A select parked with several entries on this channel may be woken through any of them.
      let partial = [t];
      s.g.forEach((pg, pi) => {
        if (pg.st !== 'park' || !pg.park) return;
        const idxs = [];
        pg.park.forEach((p, idx) => { if (p.c === op.c) idxs.push(idx); });
        if (idxs.length === 0) return;
        const nextPartial = [];
        for (const base of partial) {
          for (const idx of idxs) {
            const u = idxs.length > 1 ? clone(base) : base;
            if (pg.park[idx].send) wake(sc, u, pi, idx, { closed: true }); else wake(sc, u, pi, idx, { v: 0, ok: false });
            nextPartial.push(u);
          }
        }
        partial = nextPartial;
      });
      for (const u of partial) {
        u.g[gi].pend = 'c';
        u.g[gi].pc++;
        out.push(u);
      }
      return;
    }
    case K.select: {
      const entries = op.cases.map((cs, i) => ({ send: !!cs.send, c: cs.c, v: cs.v, idx: i }));
      const ready = entries.filter(p => canProceed(s, p));
      if (ready.length > 0) { for (const p of ready) perform(sc, s, gi, op, p, out); return; }
      const t = clone(s);
      if (op.def) { t.g[gi].pend = 'seld'; t.g[gi].pc++; out.push(t); return; }
      t.g[gi].st = 'park';
      t.g[gi].park = entries; // entries on nil channels never match
      out.push(t);
      return;
    }
    case K.len: {
      const t = clone(s);
      const c = s.ch[op.c];
      t.g[gi].pend = 'l' + c.buf.length + ',' + c.cap;
      t.g[gi].pc++;
      out.push(t);
      return;
    }
    case K.gosched: {
      const t = clone(s);
      t.g[gi].pend = 'y';
      t.g[gi].pc++;
      out.push(t);
      return;
    }
    case K.goexit: {
      const t = clone(s);
      t.g[gi].pend = 'x';
      t.g[gi].after = 'exit';
      out.push(t);
      return;
    }
    case K.goexitd: {
      // logs "x", calls runtime.Goexit() in a frame whose deferred function receives from channel c
      if (!g.xd) {
        const t = clone(s);
        t.g[gi].pend = 'x';
        t.g[gi].xd = true;
        out.push(t);
        return;
      }
      const p = { send: false, c: op.c, v: 0, idx: 0 };
      if (canProceed(s, p)) { perform(sc, s, gi, op, p, out); return; }
      const t = clone(s);
      t.g[gi].st = 'park';
      t.g[gi].park = [p];
      out.push(t);
      return;
    }
    case K.numg: {
      const t = clone(s);
      let cnt = 0;
      for (const x of s.g) if (x.st === 'run' || x.st === 'park') cnt++;
      t.g[gi].pend = 'n' + cnt;
      t.g[gi].pc++;
      out.push(t);
      return;
    }
    case K.spawn: {
      const t = clone(s);
      t.g[op.v].st = 'run';
      t.g[gi].pend = 'go';
      t.g[gi].pc++;
      out.push(t);
      return;
    }
  }
  throw new Error('model: unknown op ' + JSON.stringify(op));
}

// Invariants asserted in every model state: bounded buffers, no value duplicated.
function checkInvariant(sc, s) {
  for (const c of s.ch) {
    if (c.buf.length > c.cap) return 'buffer over capacity';
  }
  return null;
}

// allowedTraces: BFS; returns {traces:Set<string>, states, transitions}
function allowedTraces(sc, maxStates) {
  const stats = { transitions: 0 };
  const seen = new Set();
  const traces = new Set();
  const init = initState(sc);
  let frontier = [init];
  seen.add(JSON.stringify(init));
  let states = 1;
  while (frontier.length) {
    const next = [];
    for (const s of frontier) {
      for (const t of successors(sc, s, stats)) {
        const inv = checkInvariant(sc, t);
        if (inv) throw new Error('model invariant violated: ' + inv);
        const key = JSON.stringify(t);
        if (seen.has(key)) continue;
        seen.add(key);
        states++;
        if (maxStates && states > maxStates) return { traces, states, transitions: stats.transitions, capped: true };
        if (t.end) traces.add(traceKey(t.log, t.end)); else next.push(t);
      }
    }
    frontier = next;
  }
  return { traces, states, transitions: stats.transitions, capped: false };
}

function traceKey(log, end) { return log.map(e => e[0] + ':' + e[1]).join(' ') + ' | ' + end; }

module.exports = { K, allowedTraces, traceKey, initState, successors };
