'use strict';
// C03 explorer: for every scenario of the bounded alphabet
//   (a) BFS the Go channel model -> set of allowed traces,
//   (b) run the real compiled interpreter program under EVERY resolution of the
//       runtime's own nondeterminism (select pick, time-slice break, timer order)
//       up to the deviation bound,
//   (c) require every implementation trace to be a trace of the model.
// usage: node c03.js <script.js> <tier> <shard> <nshards> <out.json> [replay.json]
const fs = require('fs');
const { loadScript, runOnce, Machine } = require('./runner.js');
let sharedMachine = null;
const M = require('./chanmodel.js');
const K = M.K;

function opsFor(alpha, g) {
  // returns the list of ops (templates) usable by goroutine g
  return alpha.filter(o => !((o.k === K.goexit || o.k === K.goexitd) && g === 0));
}

function seqs(ops, maxLen) {
  let res = [[]];
  let cur = [[]];
  for (let l = 1; l <= maxLen; l++) {
    const nxt = [];
    for (const s of cur) for (const o of ops) nxt.push(s.concat([o]));
    res = res.concat(nxt);
    cur = nxt;
  }
  return res;
}

function sel(cases, def) { return { k: K.select, cases, def: !!def }; }
const R = c => ({ send: false, c }), S = c => ({ send: true, c });

function alphabet(name) {
  const S0 = { k: K.send, c: 0 }, R0 = { k: K.recv, c: 0 }, Q0 = { k: K.recv2, c: 0 }, C0 = { k: K.close, c: 0 }, G0 = { k: K.range, c: 0 }, L0 = { k: K.len, c: 0 };
  const S1 = { k: K.send, c: 1 }, R1 = { k: K.recv, c: 1 }, Q1 = { k: K.recv2, c: 1 }, C1 = { k: K.close, c: 1 };
  const Y = { k: K.gosched }, X = { k: K.goexit }, N = { k: K.numg }, D0 = { k: K.goexitd, c: 0 };
  switch (name) {
    case 'one-core':
      return [S0, R0, Q0, C0, G0, sel([R(0)]), sel([R(0)], 1), sel([S(0)]), sel([S(0)], 1), sel([R(0), S(0)]), sel([R(0), S(0)], 1), Y];
    case 'one-small':
      return [S0, R0, Q0, C0, sel([R(0)]), sel([S(0)]), G0, Y];
    case 'one-misc':
      return [S0, R0, C0, L0, N, X, Y, sel([R(0), S(0)], 1)];
    case 'dup-select':
      // one select statement holding the same channel twice in the same direction
      return [S0, S1, R0, R1, C0, C1, sel([R(0), R(0), R(1)]), sel([R(0), R(0), R(1)], 1), sel([S(0), S(0), R(1)]), sel([R(0), R(0)]), sel([S(1), S(1), R(0)]), Y];
    case 'goexit-defer':
      // runtime.Goexit() whose deferred call blocks on a channel, observed through NumGoroutine and the deadlock report
      return [S0, R0, C0, N, Y, D0, X];
    case 'two-quick':
      return [S0, S1, R0, R1, C0, sel([R(0), R(1)]), sel([R(0), R(1)], 1), sel([S(0), S(1)]), sel([S(0), S(1)], 1), sel([R(0), S(1)]), sel([R(0), S(1)], 1)];
    case 'wake-main':
      return [Y, C0, R1];
    case 'wake-g':
      return [R0, sel([R(0)]), Q0, S0, sel([S(0)]), S1];
    case 'two-full':
      return [S0, S1, R0, Q1, C0, C1, sel([R(0), R(1)]), sel([R(0), R(1)], 1), sel([S(0), S(1)]), sel([S(0), S(1)], 1), sel([R(0), S(1)]), sel([R(0), S(1)], 1), sel([S(0), R(1)]), sel([R(0), S(0), R(1)]), sel([R(0), R(1), S(1)], 1), Y];
  }
  throw new Error('alphabet ' + name);
}

// families: {name, alpha, lens:[max ops per goroutine], caps:[[cap per channel]...], flags}
function families(tier) {
  // debug knob: VERIF_C03_FAMILIES=T8,F9 restricts a run to the named families
  const only = process.env.VERIF_C03_FAMILIES;
  const all = allFamilies(tier);
  return only ? all.filter(f => only.split(',').includes(f.name)) : all;
}

function allFamilies(tier) {
  const q = [
    { name: 'F1', alpha: 'one-core', lens: [2, 2], caps: [[0], [1], [2]] },
    { name: 'F2', alpha: 'one-small', lens: [2, 1, 1], caps: [[0], [1]] },
    { name: 'F3', alpha: 'two-quick', lens: [2, 2], caps: [[0, 0], [0, 1]] },
    { name: 'F4', alpha: 'one-misc', lens: [2, 2], caps: [[-1], [0], [1]] },
    { name: 'F5', alpha: 'one-small', lens: [2, 2], caps: [[0], [1]], norecover: true },
    { name: 'F6', alpha: 'one-small', lens: [2, 2], caps: [[0]], expose: true },
    // close/send with several waiters of different kinds parked on one channel, main waiting for the result
    { name: 'F8', alpha: 'dup-select', lens: [2, 2], caps: [[0, 0], [1, 0]] },
    { name: 'F9', alpha: 'goexit-defer', lens: [3, 2], caps: [[0], [1]] },
    { name: 'F7', alphas: ['wake-main', 'wake-g', 'wake-g'], lens: [3, 1, 2], caps: [[0, 0]] },
  ];
  if (tier !== 'thorough') return q;
  return q.concat([
    { name: 'T1', alpha: 'one-core', lens: [3, 2], caps: [[0], [1], [2]] },
    { name: 'T2', alpha: 'one-small', lens: [2, 2, 2], caps: [[0], [1], [2]] },
    { name: 'T3', alpha: 'two-full', lens: [2, 2], caps: [[0, 0], [0, 1], [1, 1], [0, -1], [2, 0]] },
    { name: 'T4', alpha: 'one-small', lens: [2, 2, 1, 1], caps: [[0], [1]] },
    { name: 'T5', alpha: 'one-core', lens: [2, 3], caps: [[0], [1]] },
    { name: 'T6', alpha: 'two-quick', lens: [2, 2, 1], caps: [[0, 0], [0, 1]] },
    { name: 'T7', alphas: ['wake-main', 'wake-g', 'wake-g'], lens: [3, 2, 2], caps: [[0, 0], [1, 0]] },
    { name: 'T8', alpha: 'goexit-defer', lens: [3, 2, 1], caps: [[0], [1]] },
  ]);
}

// Enumerates the scenarios of a family: calls f(scenario, id)
function* scenariosOf(fam) {
  const per = fam.lens.map((L, g) => seqs(opsFor(alphabet(fam.alphas ? fam.alphas[g] : fam.alpha), g), L));
  for (const caps of fam.caps) {
    const idx = new Array(per.length).fill(0);
    while (true) {
      // build scenario with distinct sent values
      const gor = idx.map((i, g) => per[g][i].map((o, j) => {
        const c = Object.assign({}, o);
        if (c.k === K.send) c.v = (g + 1) * 10 + j + 1;
        if (c.k === K.select) c.cases = c.cases.map((cs, q) => Object.assign({}, cs, { v: (g + 1) * 10 + j + 1 + (q + 1) * 100 }));
        return c;
      }));
      const id = fam.name + '/caps=' + caps.join('.') + '/' + gor.map(p => p.map(opName).join(',')).join('|');
      yield [{ chans: caps, gor, norecover: !!fam.norecover, expose: !!fam.expose, explicitSpawn: false }, id];
      let k = per.length - 1;
      while (k >= 0 && ++idx[k] >= per[k].length) { idx[k] = 0; k--; }
      if (k < 0) break;
    }
  }
}

function opName(o) {
  switch (o.k) {
    case K.send: return 'S' + o.c;
    case K.recv: return 'R' + o.c;
    case K.recv2: return 'Q' + o.c;
    case K.close: return 'C' + o.c;
    case K.range: return 'G' + o.c;
    case K.len: return 'L' + o.c;
    case K.gosched: return 'Y';
    case K.goexit: return 'X';
    case K.numg: return 'N';
    case K.goexitd: return 'D' + o.c;
    case K.spawn: return 'go' + o.v;
    case K.select: return 'sel[' + o.cases.map(c => (c.send ? 'S' : 'R') + c.c).join('') + (o.def ? 'd' : '') + ']';
  }
  return '?';
}

function stripRT(s) { return s.replace('panic:runtime error: ', 'panic:'); }

// run the implementation once under a choice list; returns {trace,end,points}
function runImpl(script, sc, choices, fresh) {
  const log = [];
  let done = false;
  const globals = {
    verifScenario: sc,
    verifLog: (g, s) => { if (!done) log.push([g, stripRT(String(s))]); },
    verifDone: () => { done = true; },
    verifGDone: () => { },
  };
  if (!fresh && sharedMachine === null) sharedMachine = new Machine();
  const r = runOnce(script, choices, { globals, maxTimers: 400, maxPoints: 400, machine: fresh ? undefined : sharedMachine });
  let end;
  if (done) end = 'exit';
  else if (r.end === 'deadlock') end = 'deadlock';
  else if (r.end.startsWith('panic:')) end = stripRT(r.end.split('\n')[0]);
  else if (r.end === 'exit0') end = 'stuck';
  else end = r.end;
  return { log, end, r };
}

function checkScenario(script, sc, id, bound, stats, violations) {
  const model = M.allowedTraces(sc, 200000);
  stats.states += model.states;
  stats.transitions += model.transitions;
  if (model.capped) { stats.modelCapped++; return; }
  stats.scenarios++;
  if (model.traces.size > 1) stats.multiOutcome++;
  let sawDeadlock = false;
  for (const t of model.traces) if (t.endsWith('| deadlock')) sawDeadlock = true;
  if (sawDeadlock) stats.deadlockScenarios++;
  // implementation: stateless DFS over choice lists
  const seenTraces = new Set();
  const visit = (choices, fresh) => runImpl(script, sc, choices, fresh);
  let executions = 0;
  const stack = [[]];
  let capped = false;
  while (stack.length) {
    if (executions >= 3000) { capped = true; break; }
    const prefix = stack.pop();
    const x = visit(prefix);
    executions++;
    if (x.r.diverged) throw new Error('replay divergence in ' + id + ': ' + x.r.diverged);
    let end = x.end;
    if (sc.expose && end === 'stuck') end = 'deadlock'; // the report must be absent; the state is the same
    else if (sc.expose && end === 'deadlock') end = 'reported-although-exposed';
    const key = M.traceKey(x.log, end);
    seenTraces.add(key);
    stats.tracesValidated++;
    if (!model.traces.has(key)) {
      // determinism guard: same choices twice more
      // replay twice in FRESH contexts: the violation must not depend on context reuse
      const y = visit(x.r.points.map(p => p.c), true);
      const z = visit(x.r.points.map(p => p.c), true);
      const ky = M.traceKey(y.log, y.end), kz = M.traceKey(z.log, z.end);
      if (ky !== M.traceKey(x.log, x.end) || kz !== ky) throw new Error('nondeterministic replay in ' + id);
      violations.push({ id, scenario: sc, choices: x.r.points.map(p => p.c), points: x.r.points, got: key, allowed: [...model.traces].slice(0, 40), nAllowed: model.traces.size });
    }
    let dev = 0;
    for (const c of prefix) if (c !== 0) dev++;
    if (bound < 0 || dev + 1 <= bound) {
      for (let i = prefix.length; i < x.r.points.length; i++) {
        for (let alt = x.r.points[i].n - 1; alt >= 1; alt--) {
          stack.push(x.r.points.slice(0, i).map(p => p.c).concat([alt]));
        }
      }
    }
  }
  stats.executions += executions;
  if (capped) stats.implCapped++;
  stats.distinctOutcomes += seenTraces.size;
  if (seenTraces.size > 1) stats.implMultiOutcome++;
  if (stats.samples.length < 3 && model.traces.size > 2) stats.samples.push({ id, allowed: model.traces.size, observed: [...seenTraces] });
}

function main() {
  const [script_, tier, shard_, nshards_, outPath, replayPath] = process.argv.slice(2);
  const script = loadScript(script_);
  const shard = +shard_, nshards = +nshards_;
  const stats = { scenarios: 0, executions: 0, states: 0, transitions: 0, tracesValidated: 0, distinctOutcomes: 0, multiOutcome: 0, implMultiOutcome: 0, deadlockScenarios: 0, modelCapped: 0, implCapped: 0, samples: [], perFamily: {} };
  const violations = [];
  if (replayPath) {
    const rep = JSON.parse(fs.readFileSync(replayPath, 'utf8'));
    const x = runImpl(script, rep.scenario, rep.choices, true);
    const model = M.allowedTraces(rep.scenario, 200000);
    const key = M.traceKey(x.log, x.end);
    console.log('scenario', rep.id);
    console.log('implementation trace:', key);
    console.log('allowed by the model:', model.traces.has(key));
    for (const t of model.traces) console.log('  allowed:', t);
    process.exit(model.traces.has(key) ? 0 : 1);
  }
  const bound = tier === 'thorough' ? 3 : 2;
  const deadline = Date.now() + (tier === 'thorough' ? 3000 : 600) * 1000;
  let n = 0, timedOut = false;
  outer:
  for (const fam of families(tier)) {
    let cnt = 0;
    for (const [sc, id] of scenariosOf(fam)) {
      if ((n++ % nshards) !== shard) continue;
      checkScenario(script, sc, id, bound, stats, violations);
      cnt++;
      if (violations.length > 200) break outer;
      if ((cnt & 255) === 0 && Date.now() > deadline) { timedOut = true; break outer; }
    }
    stats.perFamily[fam.name] = cnt;
  }
  stats.timedOut = timedOut;
  stats.bound = bound;
  fs.writeFileSync(outPath, JSON.stringify({ stats, violations }));
}

if (require.main === module) main();
module.exports = { families, scenariosOf, opName };
