'use strict';
// Engine E3: controlled executor for GopherJS output.
//
// The emitted script is run in a fresh vm context whose sources of
// nondeterminism are owned by the harness and resolved from a choice list:
//   rand  - Math.floor(Math.random()*k) in $select: which ready case is taken
//   slice - Date.now() checks inside $runScheduled: break the scheduling pass
//   timer - which pending timer callback fires next
// Choice 0 is always the default answer (first ready case, keep running,
// oldest timer). An execution is fully determined by (script, globals, choices).
const vm = require('vm');
const fs = require('fs');

const scriptCache = new Map();
function loadScript(path) {
  const st = fs.statSync(path);
  const key = path + ':' + st.mtimeMs + ':' + st.size;
  let s = scriptCache.get(key);
  if (!s) {
    s = new vm.Script(fs.readFileSync(path, 'utf8'), { filename: path });
    if (scriptCache.size > 64) scriptCache.clear();
    scriptCache.set(key, s);
  }
  return s;
}

class ExitSignal {
  constructor(code) { this.code = code; }
}

const BOOT = new vm.Script(`(function(h){
  const realFloor = Math.floor;
  Math.random = function() { return h.random(); };
  Math.floor = function(x) { const r = h.floor(x); return r === undefined ? realFloor(x) : r; };
  Date.now = function() { return h.now(); };
})`, { filename: 'verif-boot.js' });

// A Machine is a vm context with the harness hooks installed once; the hooks
// delegate to the state of the current run. By default every execution gets a
// fresh Machine (fresh context); opts.machine lets a caller reuse one context
// for many executions of the same script (the script is one closure that
// rebuilds its whole runtime state on every run; only properties it sets on
// the global object survive, and those are deleted between runs).
class Machine {
  constructor() {
    const m = this;
    this.run = null;
    this.sandbox = {
      console: {
        log: (...a) => { m.run.out.push(['o', a.join(' ')]); },
        error: (...a) => { m.run.out.push(['e', a.join(' ')]); },
        warn: (...a) => { m.run.out.push(['e', a.join(' ')]); },
      },
      process: { exit: (code) => { throw new ExitSignal(code === undefined ? 0 : code); } },
      setTimeout: (fn, delay, ...args) => {
        const r = m.run;
        const id = ++r.timerSeq;
        r.timers.push({ id, fn, args, delay: delay || 0 });
        if (fn && fn.name === '$runScheduled') r.passStartPending = true;
        return id;
      },
      clearTimeout: (id) => {
        const r = m.run;
        const i = r.timers.findIndex(t => t.id === id);
        if (i >= 0) r.timers.splice(i, 1);
      },
      TextDecoder, TextEncoder,
    };
    this.baseKeys = null;
    this.ctx = vm.createContext(this.sandbox);
    const h = {
      random: () => { m.run.randPending = true; return 1 / 1024; },
      floor: (x) => {
        const r = m.run;
        if (!r.randPending) return undefined;
        r.randPending = false;
        const k = x * 1024;
        if (!(Number.isInteger(k) && k >= 1 && k <= 64)) return undefined;
        if (k === 1) return 0;
        return r.choose('rand', k);
      },
      now: () => {
        const r = m.run;
        if (r.passStartPending) { r.passStartPending = false; r.inPass = true; r.passStart = r.now; return r.now; }
        if (!r.inPass) return r.now;
        if (r.points.length >= r.maxPoints) return r.passStart;
        // Breaking the pass only matters when some other timer is pending: with only this pass's
        // own pre-queued continuation timer in the queue the break resumes the same queue at once.
        if (r.timers.length <= 1 && !r.allSlicePoints) return r.passStart;
        const c = r.choose('slice', 2);
        if (c === 1) { r.inPass = false; r.now += 5; return r.now; }
        return r.passStart;
      },
    };
    BOOT.runInContext(this.ctx)(h);
    this.baseKeys = new Set(Object.keys(this.sandbox));
  }
  reset() {
    for (const k of Object.keys(this.sandbox)) if (!this.baseKeys.has(k)) delete this.sandbox[k];
  }
}

// runOnce executes the script under the given choice list.
// opts: {globals, maxTimers, maxPoints, machine}
// Returns {out:[[stream,text]...], end, points:[{k,n,c}], diverged}
function runOnce(script, choices, opts) {
  opts = opts || {};
  const m = opts.machine || new Machine();
  if (opts.machine) m.reset();
  const run = {
    out: [], points: [], ci: 0, diverged: null, timerSeq: 0, timers: [], passStartPending: false,
    now: 1000, passStart: 0, inPass: false, randPending: false, maxPoints: opts.maxPoints || 10000,
    allSlicePoints: !!opts.allSlicePoints,
  };
  run.choose = (kind, n) => {
    let c = 0;
    if (run.ci < choices.length) {
      c = choices[run.ci];
      if (c >= n || c < 0) { run.diverged = `choice ${run.ci}=${c} out of range for ${kind}/${n}`; c = 0; }
    }
    run.ci++;
    run.points.push({ k: kind, n, c });
    return c;
  };
  m.run = run;
  const sandbox = m.sandbox;
  const out = run.out, points = run.points, timers = run.timers;
  if (opts.globals) for (const k of Object.keys(opts.globals)) sandbox[k] = opts.globals[k];
  if (opts.contextScript) opts.contextScript.runInContext(m.ctx);

  let end = null;
  const guard = (f) => {
    try { f(); } catch (e) {
      if (e instanceof ExitSignal) { end = e.code === 2 && out.length && /all goroutines are asleep/.test(out[out.length - 1][1]) ? 'deadlock' : 'exit:' + e.code; if (end === 'deadlock') out.pop(); return; }
      let msg;
      try { msg = (e && e.message !== undefined) ? String(e.message) : String(e); } catch (_) { msg = '<unprintable>'; }
      end = 'panic:' + msg;
      if (opts.keepStack && e && e.stack) end += '\n' + e.stack;
    }
  };
  guard(() => script.runInContext(m.ctx));
  let pumps = 0;
  const maxTimers = opts.maxTimers || 2000;
  while (end === null && timers.length > 0) {
    if (++pumps > maxTimers || points.length >= run.maxPoints) { end = 'horizon'; break; }
    run.inPass = false;
    // with equal delays timers fire FIFO by default
    let idx = 0;
    if (timers.length > 1 && !opts.fifoTimers) idx = run.choose('timer', timers.length);
    const t = timers.splice(idx, 1)[0];
    run.now += 1;
    guard(() => t.fn(...t.args));
  }
  if (end === null) end = 'exit0';
  let diverged = run.diverged;
  if (diverged === null && run.ci < choices.length) diverged = `only ${run.ci} of ${choices.length} choices consumed`;
  return { out, end, points, diverged, sandbox };
}

// explore: stateless DFS over choice lists with a deviation bound
// (bound < 0 = unbounded). visit(result, choices) is called per execution.
// Returns {executions, capped}.
function explore(script, opts, bound, maxExec, visit) {
  let executions = 0, capped = false;
  const stack = [[]];
  while (stack.length) {
    if (executions >= maxExec) { capped = true; break; }
    const prefix = stack.pop();
    const r = runOnce(script, prefix, opts);
    executions++;
    if (r.diverged) throw new Error('replay divergence: ' + r.diverged + ' prefix=' + JSON.stringify(prefix));
    const taken = r.points.map(p => p.c);
    visit(r, taken);
    let dev = 0;
    for (let i = 0; i < prefix.length; i++) if (prefix[i] !== 0) dev++;
    // branch on later points
    let d = dev;
    for (let i = prefix.length; i < r.points.length; i++) {
      // taken[i] is 0 here (default after prefix)
      if (bound >= 0 && d + 1 > bound) break;
      for (let alt = r.points[i].n - 1; alt >= 1; alt--) {
        stack.push(taken.slice(0, i).concat([alt]));
      }
    }
  }
  return { executions, capped };
}

function normalizeOut(out) { return out.map(x => x[0] + ':' + x[1]); }

module.exports = { loadScript, runOnce, explore, normalizeOut, Machine };

// CLI server: JSON lines {id, script, choices, globals, maxTimers} -> {id, out, end, points}
if (require.main === module) {
  const rl = require('readline').createInterface({ input: process.stdin, terminal: false });
  rl.on('line', (line) => {
    if (!line.trim()) return;
    let req;
    try { req = JSON.parse(line); } catch (e) { process.stdout.write(JSON.stringify({ error: 'bad json' }) + '\n'); return; }
    try {
      let s;
      try {
        s = loadScript(req.script);
      } catch (e) {
        if (e instanceof SyntaxError) {
          // the emitted file is not valid JavaScript: that is the program's behaviour, not a harness problem
          process.stdout.write(JSON.stringify({ id: req.id, out: [], end: 'syntax-error:' + e.message, points: [], diverged: null }) + '\n');
          return;
        }
        throw e;
      }
      if (req.probe) {
        req.globals = Object.assign({}, req.globals);
      }
      const probeLog = [];
      if (req.probe) req.globals.verifProbe = (n) => { probeLog.push(['p', n + '|' + new Error().stack]); return n; };
      let contextScript;
      if (req.contextScript) contextScript = loadScript(req.contextScript);
      const r = runOnce(s, req.choices || [], { contextScript, globals: req.globals, maxTimers: req.maxTimers, fifoTimers: req.fifoTimers, keepStack: req.keepStack });
      for (const e of probeLog) r.out.push(e);
      process.stdout.write(JSON.stringify({ id: req.id, out: r.out, end: r.end, points: r.points, diverged: r.diverged }) + '\n');
    } catch (e) {
      process.stdout.write(JSON.stringify({ id: req.id, error: String(e && e.stack || e) }) + '\n');
    }
  });
}
