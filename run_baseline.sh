#!/bin/bash
# Runs the repository's pinned test suite (guard tag OFF) and compares with BASELINE.json's stable_pass list.
export GOFLAGS=-mod=mod GOPROXY=off GOSUMDB=off GOTOOLCHAIN=local
OUT="${TMPDIR:-/tmp}/verif-baseline.$$.json"
(cd /repo && go test -mod=mod -json -vet=off -count=1 -timeout 25m ./... > "$OUT" 2>/dev/null)
python3 - "$OUT" <<'PY'
import json,sys
passed=set()
for l in open(sys.argv[1]):
    try: e=json.loads(l)
    except Exception: continue
    if e.get('Action')=='pass' and e.get('Test'):
        passed.add(e['Package']+'::'+e['Test'])
b=json.load(open('/root/.vp/BASELINE.json'))
missing=[t for t in b['stable_pass'] if t not in passed]
print('baseline stable_pass=%d passed_now=%d missing=%d'%(len(b['stable_pass']),len(passed),len(missing)))
for m in missing[:20]: print('  MISSING',m)
sys.exit(1 if missing else 0)
PY
rc=$?
rm -f "$OUT"
exit $rc
