#!/bin/bash
# Run once after a fresh restore: builds the explorer binary from files on disk (offline) and warms the Go build cache.
set -e
cd "$(dirname "$0")"
./check build
echo setup ok
