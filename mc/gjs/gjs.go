// Package gjs is engine E1: it drives the real GopherJS build pipeline of the
// /repo working tree (build.Session -> compiler -> WriteProgramCode) in-process.
package gjs

import (
	"bytes"
	"crypto/sha256"
	"encoding/hex"
	"fmt"
	"net/http"
	"os"
	"path/filepath"
	"strings"
	"sync"

	gbuild "github.com/gopherjs/gopherjs/build"
	"github.com/gopherjs/gopherjs/compiler"
	"github.com/gopherjs/gopherjs/compiler/gopherjspkg"
)

var regOnce sync.Once

// RepoRoot is where the GopherJS sources under test live.
var RepoRoot = "/repo"

// Repo returns the GopherJS tree under test (VERIF_REPO, default /repo).
func Repo() string {
	if r := os.Getenv("VERIF_REPO"); r != "" {
		return r
	}
	return RepoRoot
}

func register() {
	regOnce.Do(func() {
		if r := os.Getenv("VERIF_REPO"); r != "" {
			RepoRoot = r
		}
		os.Setenv("GOPHERJS_SKIP_VERSION_CHECK", "true")
		gopherjspkg.RegisterFS(http.FS(os.DirFS(RepoRoot)))
	})
}

// Request describes one build.
type Request struct {
	Dir      string   `json:"dir"`      // directory of the main package (inside a module)
	Minify   bool     `json:"minify"`   // -m
	Tags     []string `json:"tags"`     // --tags
	Map      bool     `json:"map"`      // produce source map
	AllAlive bool     `json:"allAlive"` // force every declaration alive before linking (C05)
	Out      string   `json:"out"`      // where to write the script ("" = only return)
	// Prior lists directories of other main packages to build first in the same session (C17).
	Prior []string `json:"prior,omitempty"`
	// Twice builds the package twice in the same session and returns the second output.
	Twice bool `json:"twice,omitempty"`
	// Files, when set, builds exactly these files (in this order) through Session.BuildFiles,
	// as `gopherjs build a.go b.go` does. Out must be set.
	Files []string `json:"files,omitempty"`
	// Hash: return only the sha256 of script and map in Result.HashJS / HashMap.
	Hash bool `json:"hash,omitempty"`
}

// Result of one build.
type Result struct {
	OK    bool   `json:"ok"`
	Class string `json:"class"` // "", "typeerror", "error", "internal"
	Err   string `json:"err"`
	JS    []byte `json:"-"`
	Map   []byte `json:"-"`
	NDecl int    `json:"ndecl"`
	HashJS  string `json:"hashJS,omitempty"`
	HashMap string `json:"hashMap,omitempty"`
	Size    int    `json:"size,omitempty"`
}

func classify(err error) string {
	msg := err.Error()
	switch {
	case strings.Contains(msg, "compiler panic"), strings.Contains(msg, "internal compiler error"),
		strings.Contains(msg, "runtime error:"), strings.Contains(msg, "unexpected compiler"):
		return "internal"
	}
	return "error"
}

// Build runs the build in-process. The process's working directory is changed
// to req.Dir (go/build shells out to `go list` relative to it).
func Build(req Request) (res Result) {
	register()
	defer func() {
		if r := recover(); r != nil {
			res = Result{Class: "internal", Err: fmt.Sprintf("Go panic in compiler: %v", r)}
		}
	}()
	opts := &gbuild.Options{Minify: req.Minify, BuildTags: req.Tags, CreateMapFile: req.Map, Quiet: true, NoCache: true}
	s, err := gbuild.NewSession(opts)
	if err != nil {
		return Result{Class: "error", Err: err.Error()}
	}
	buildOne := func(dir string) (*compiler.Archive, []*compiler.Archive, error) {
		if err := os.Chdir(dir); err != nil {
			return nil, nil, err
		}
		// Import by the module's import path (not "."), so that several packages built in one
		// session are told apart, as they are when named on the gopherjs command line.
		ip := "."
		if b, err := os.ReadFile(filepath.Join(dir, "go.mod")); err == nil {
			for _, l := range strings.Split(string(b), "\n") {
				if strings.HasPrefix(l, "module ") {
					ip = strings.TrimSpace(strings.TrimPrefix(l, "module "))
				}
			}
		}
		pkg, err := s.XContext().Import(ip, dir, 0)
		if err != nil {
			return nil, nil, err
		}
		archive, err := s.BuildProject(pkg)
		if err != nil {
			return nil, nil, err
		}
		deps, err := compiler.ImportDependencies(archive, s.ImportResolverFor(""))
		if err != nil {
			return nil, nil, err
		}
		return archive, deps, nil
	}
	for _, p := range req.Prior {
		if _, deps, err := buildOne(p); err != nil {
			return Result{Class: classify(err), Err: "prior: " + err.Error()}
		} else {
			var sink bytes.Buffer
			if err := compiler.WriteProgramCode(deps, compiler.DefaultFilter(&sink), s.GoRelease()); err != nil {
				return Result{Class: classify(err), Err: "prior: " + err.Error()}
			}
		}
	}
	if len(req.Files) > 0 {
		if err := os.Chdir(req.Dir); err != nil {
			return Result{Class: "error", Err: err.Error()}
		}
		reps := 1
		if req.Twice {
			reps = 2
		}
		for i := 0; i < reps; i++ {
			if err := s.BuildFiles(req.Files, req.Out, req.Dir); err != nil {
				return Result{Class: classify(err), Err: err.Error()}
			}
		}
		js, err := os.ReadFile(req.Out)
		if err != nil {
			return Result{Class: "error", Err: err.Error()}
		}
		res = Result{OK: true, JS: js}
		if req.Map {
			res.Map, _ = os.ReadFile(req.Out + ".map")
		}
		return finishHash(req, res)
	}
	n := 1
	if req.Twice {
		n = 2
	}
	for i := 0; i < n; i++ {
		_, deps, err := buildOne(req.Dir)
		if err != nil {
			return Result{Class: classify(err), Err: err.Error()}
		}
		nd := 0
		for _, a := range deps {
			nd += len(a.Declarations)
			if req.AllAlive {
				for _, d := range a.Declarations {
					d.Dce().SetAsAlive()
				}
			}
		}
		var buf, mbuf bytes.Buffer
		f := compiler.DefaultFilter(&buf)
		name := "out.js"
		if req.Out != "" {
			name = filepath.Base(req.Out)
		}
		if req.Map {
			s.EnableMapping(f, name)
		}
		if err := compiler.WriteProgramCode(deps, f, s.GoRelease()); err != nil {
			return Result{Class: classify(err), Err: err.Error()}
		}
		if req.Map {
			if err := f.WriteMappingTo(&mbuf); err != nil {
				return Result{Class: "error", Err: err.Error()}
			}
			fmt.Fprintf(&buf, "//# sourceMappingURL=%s.map\n", name)
		}
		res = Result{OK: true, JS: buf.Bytes(), Map: mbuf.Bytes(), NDecl: nd}
	}
	if req.Out != "" {
		os.MkdirAll(filepath.Dir(req.Out), 0o755)
		if err := os.WriteFile(req.Out, res.JS, 0o644); err != nil {
			return Result{Class: "error", Err: err.Error()}
		}
		if req.Map {
			if err := os.WriteFile(req.Out+".map", res.Map, 0o644); err != nil {
				return Result{Class: "error", Err: err.Error()}
			}
		}
	}
	return finishHash(req, res)
}

func finishHash(req Request, res Result) Result {
	if req.Hash && res.OK {
		h := sha256.Sum256(res.JS)
		res.HashJS = hex.EncodeToString(h[:])
		hm := sha256.Sum256(res.Map)
		res.HashMap = hex.EncodeToString(hm[:])
		res.Size = len(res.JS)
	}
	return res
}
