package main

import (
	"time"

	"verif/mc/diffrun"
	"verif/mc/gen/dyn"
)

func init() { props["C09"] = c09; programSets["C09"] = func(bool) []diffrun.Program { return append(dyn.Programs(), dyn.UnnamedProgram()) } }

func c09(tier string) int {
	start := time.Now()
	env, err := diffrun.NewEnv("C09")
	if err != nil {
		panic(err)
	}
	defer env.Close()
	env.CheckAll(append(dyn.Programs(), dyn.UnnamedProgram()), []diffrun.Variant{diffrun.Plain, diffrun.Minified})
	return finishDiff(env, "C09", tier, start,
		"(U) all 27 receiver-kind assignments {absent, value, pointer} of the methods M, N, m of a struct type x 22 dynamic value forms (T, *T, value/pointer/interface embedding at depth 1 and 2, ambiguous and shadowed promotion, defined types and aliases, **T, nil *T) x 9 interfaces (all non-empty subsets of {M,N,m}, an embedding interface, the empty interface): comma-ok assertion, calls through every interface that is implemented with a receiver-identity trace, two type switches with different case orders, receiver sharing through interfaces / method values / method expressions; (I) type identity: 42 values (equally named types from different functions, packages with the same name, generic function instances, instantiations created in different packages, unnamed composites with exported and unexported fields from three packages) x type switches in three packages, all pairwise interface equalities, assertions to concrete and interface types across packages, unexported-method sealing, assertion-error classes, use as map keys; (N) 64 unnamed composite types that differ pairwise in one attribute (variadic flag, channel direction, array length, field name / order / tag / embedding, parameter vs result, key vs element, method sets of element interfaces): every value asserted to every type and all pairs compared as interfaces; (S) every (static interface type, target interface type) pair of 8 interface types in comma-ok assertions, single-value assertions and type switches, on nil and on a value implementing everything; plain and minified vs native Go",
		[]string{"reference = native Go on the same source"},
		nil)
}
