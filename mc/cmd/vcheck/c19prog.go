package main

import (
	"bytes"
	"fmt"
	"os"
	"path/filepath"
	"regexp"
	"sort"
	"strconv"
	"strings"
	"unicode/utf16"

	"github.com/gopherjs/gopherjs/compiler/prelude"
	"github.com/neelance/sourcemap"

	"verif/mc/diffrun"
	"verif/mc/evid"
	"verif/mc/gen/alias"
	"verif/mc/gen/panics"
	"verif/mc/gen/susp"
	"verif/mc/gjs"
	"verif/mc/jsx"
)

type c19L2 struct {
	segments, builds, frames, harness int
	samples                           []string
}

const c19ProbeSrc = `package main

import "github.com/gopherjs/gopherjs/js"

func P(n int) int { return js.Global.Call("verifProbe", n).Int() }

type T struct{ v int }

func (t T) Method() int {
	x := P(20) // P20
	return x
}

func (t *T) PtrMethod() int {
	return P(21) // P21
}

func G[X any](v X) int {
	_ = v
	y := P(22) // P22
	return y
}

func blocking(c chan int) int {
	v := <-c
	v += P(23) // P23
	return v
}

var pkgVar = P(24) // P24

func init() {
	P(25) // P25
}

func main() {
	a := P(1) // P1
	if P(2) > 100 { // P2
		a++
	}
	for i := 0; i < P(3)-2; i++ { // P3
		a++
	}
	switch P(4) { // P4
	case 4:
		a += P(5) // P5
	}
	s := []int{P(6), 2} // P6
	m := map[string]int{"k": P(7)} // P7
	a += s[0] + m["k"]
	func() {
		a += P(8) // P8
	}()
	defer func() {
		P(9) // P9
	}()
	f := func(x int) int { return x + P(10) } // P10
	a = f(a)
	a += T{1}.Method() + (&T{2}).PtrMethod() + G("s") + G(1)
	c := make(chan int, 1)
	c <- 1
	a += blocking(c)
	var arr [3]int
	arr[P(11)-10] = P(12) // P11 P12
	a, b := P(13), // P13
		P(14) // P14 (second line of a multi-line statement: maps to the statement's first line)
	_ = b
	go func() { P(15) }() // P15
	select {
	case c <- P(16): // P16
	default:
	}
	ch2 := make(chan int)
	go func() { ch2 <- P(17) }() // P17
	a += <-ch2
	for _, v := range []int{P(18)} { // P18
		a += v
	}
	var i interface{} = P(19) // P19
	switch i.(type) {
	case int:
		a++
	}
	if a == 12345 {
		println("x")
	}
	moreForms(a)
	return
}

type box struct{ n int }

var theBox box

func getBox(i int) *box { return &theBox }
func ptrTo(i int) *int  { return &theBox.n }
func key(i int) string  { return "k" }
func apply(f func(), n int) int { f(); return n }

// a type and a method whose names make the identifier hint longer than 255 bytes
type ARegistryOfVeryLongNamedThingsThatExistsOnlyToMakeTheFullyQualifiedNameOfItsMethodsLongerThanTwoHundredAndFiftySixBytes[K comparable, V any] struct{ m map[K]V }

func (r ARegistryOfVeryLongNamedThingsThatExistsOnlyToMakeTheFullyQualifiedNameOfItsMethodsLongerThanTwoHundredAndFiftySixBytes[K, V]) LookupWithAnEquallyLongMethodNameSoThatTheHintPayloadCrossesTheOneByteLengthBoundaryForSure(k K) int {
	_ = r.m[k]
	return P(60) // P60
}

func moreForms(a int) {
	arr := [4]int{}
	m := map[string]int{}
	a++
	arr[P(30)-30] += P(31) // P30 P31
	a++
	m[key(P(32))] *= 2 // P32
	a++
	*ptrTo(P(33)) -= 1 // P33
	a++
	getBox(P(34)).n++ // P34
	a++
	arr[P(35)-35]++ // P35
	if P(40) > 100 { // P40
		a++
	} else if P(41) > 100 { // P41
		a++
	} else if P(42) == 42 { // P42
		a++
	} else {
		a--
	}
	switch {
	case P(43) > 100: // P43
		a++
	case P(44) == 44: // P44
		a++
	}
	switch a {
	case P(45): // P45
		a++
	case P(46), // P46
		P(47): // P47
		a++
	default:
		a += P(48) // P48
	}
	a += apply(func() {
		a++
	}, P(50)) // P50
	var r ARegistryOfVeryLongNamedThingsThatExistsOnlyToMakeTheFullyQualifiedNameOfItsMethodsLongerThanTwoHundredAndFiftySixBytes[string, int]
	a += r.LookupWithAnEquallyLongMethodNameSoThatTheHintPayloadCrossesTheOneByteLengthBoundaryForSure("k")
	for i := P(51); i < P(52); i += P(53) - 52 { // P51 P52 P53
		a++
	}
	lbl := 0
outer:
	for {
		switch {
		case lbl > P(54)-54: // P54
			break outer
		}
		lbl++
	}
	x, y := P(55), P(56) // P55 P56
	x, y = y+P(57), x // P57
	defer apply(func() {}, P(58)) // P58
	if v := P(59); v > 0 { // P59
		a += v
	}
	_, _ = x, y
}
`

const c19HelperSrc = `package helper

import "github.com/gopherjs/gopherjs/js"

func P(n int) int { return js.Global.Call("verifProbe", n).Int() }

// Twice sits in a package that ships JavaScript files: one holds nothing but comments, one has no final newline.
func Twice(a int) int {
	b := P(80) // P80
	if a%2 == 0 { // even
		b += P(81) // P81
	}
	return a + a + b
}

var Table = map[string]int{"k": P(82)} // P82

func init() {
	P(83) // P83
}
`

// c19Helper2Src: the same helper as a second package (its own probe numbers) next to a .inc.js file without a final newline.
func c19Helper2Src() string {
	src := strings.Replace(c19HelperSrc, "package helper", "package helper2", 1)
	for i := 3; i >= 0; i-- {
		src = strings.ReplaceAll(src, fmt.Sprintf("P(%d)", 80+i), fmt.Sprintf("P(%d)", 84+i))
		src = strings.ReplaceAll(src, fmt.Sprintf("// P%d", 80+i), fmt.Sprintf("// P%d", 84+i))
	}
	return src
}

// c19ProbeFiles: the probe program; %HELPER% is the import path of its helper package.
func c19ProbeFiles() map[string]string {
	mod := diffrun.ModName("c19_probe")
	main := strings.Replace(c19ProbeSrc, "import \"github.com/gopherjs/gopherjs/js\"", "import (\n\t\"github.com/gopherjs/gopherjs/js\"\n\n\t\""+mod+"/helper\"\n)", 1)
	main = strings.Replace(main, "\""+mod+"/helper\"\n", "\""+mod+"/helper\"\n\t\""+mod+"/helper2\"\n", 1)
	main = strings.Replace(main, "\tmoreForms(a)\n", "\tmoreForms(a + helper.Twice(2) + helper.Table[\"k\"] + helper2.Twice(4) + helper2.Table[\"k\"])\n", 1)
	return map[string]string{
		"main.go":                    main,
		"helper/helper.go":           c19HelperSrc,
		"helper/a_comments.inc.js":   "// nothing but comments\n/* in this file */\n",
		"helper2/helper2.go":         c19Helper2Src(),
		"helper2/b_nonewline.inc.js": "$global.c19helper = function() { return 1; };",
	}
}

var reProbe = regexp.MustCompile(`// P(\d+)( P\d+)*`)
var reProbeN = regexp.MustCompile(`P(\d+)`)

func c19Programs(tier string, rep *evid.Reporter) c19L2 {
	var res c19L2
	env, err := diffrun.NewEnv("C19")
	if err != nil {
		panic(err)
	}
	defer env.Close()
	env.Rep = rep
	// layer 2: whole-program maps of corpus programs
	progs := []diffrun.Program{panics.OpsProgram(), alias.AliasProgram(), susp.Programs()[0], {Name: "c19_probe", NoHelpers: true, Files: c19ProbeFiles()}}
	preludeSrc := map[string]string{}
	for _, pf := range prelude.PreludeFiles() {
		preludeSrc[filepath.Base(pf.Name)] = pf.Source
	}
	goroot := strings.TrimSpace(os.Getenv("GOROOT"))
	if goroot == "" {
		goroot = "/usr/local/go"
		if out, err := runCmd("go", "env", "GOROOT"); err == nil {
			goroot = strings.TrimSpace(out)
		}
	}
	for _, p := range progs {
		dir, err := env.WriteProgram(p)
		if err != nil {
			res.harness++
			continue
		}
		for _, minify := range []bool{false, true} {
			vname := "plain"
			if minify {
				vname = "min"
			}
			out := filepath.Join(dir, "out_"+vname+".js")
			br := env.Builds.Build(gjs.Request{Dir: dir, Out: out, Minify: minify, Map: true})
			if !br.OK {
				rep.Violation("C19/build/"+p.Name+"/"+vname, "build with source map fails: "+br.Err, nil)
				continue
			}
			res.builds++
			js, _ := os.ReadFile(out)
			mb, _ := os.ReadFile(out + ".map")
			if bytes.IndexByte(js, '\b') >= 0 {
				rep.Violation("C19/program/"+p.Name+"/"+vname+"/hintbyte", "emitted JavaScript contains a source-map hint byte", nil)
			}
			m, err := sourcemap.ReadFrom(bytes.NewReader(mb))
			if err != nil {
				rep.Violation("C19/program/"+p.Name+"/"+vname+"/decode", "source map does not decode: "+err.Error(), nil)
				continue
			}
			lines := strings.Split(string(js), "\n")
			lineLen := make([]int, len(lines))
			for i, l := range lines {
				lineLen[i] = len(utf16.Encode([]rune(l)))
			}
			srcLines := map[string]int{}
			resolve := func(name string) int {
				if n, ok := srcLines[name]; ok {
					return n
				}
				var content string
				found := false
				if s, ok := preludeSrc[name]; ok {
					content, found = s, true
				} else if strings.HasPrefix(name, "/") {
					rel := strings.TrimPrefix(name, "/")
					base := filepath.Base(rel)
					cands := []string{filepath.Join(goroot, "src", rel)}
					if strings.HasPrefix(base, "gopherjs__") {
						cands = append(cands, filepath.Join(gjs.RepoRoot, "compiler/natives/src", filepath.Dir(rel), strings.TrimPrefix(base, "gopherjs__")))
					}
					if strings.HasPrefix(rel, "github.com/gopherjs/gopherjs/") {
						cands = append(cands, filepath.Join(gjs.RepoRoot, strings.TrimPrefix(rel, "github.com/gopherjs/gopherjs/")))
					}
					for _, c := range cands {
						if b, err := os.ReadFile(c); err == nil {
							content, found = string(b), true
							break
						}
					}
				} else {
					// program file: search the program directory tree
					filepath.Walk(dir, func(pth string, info os.FileInfo, err error) error {
						if err == nil && !info.IsDir() && filepath.Base(pth) == name && !found {
							if b, e := os.ReadFile(pth); e == nil {
								content, found = string(b), true
							}
						}
						return nil
					})
				}
				n := -1
				if found {
					n = strings.Count(content, "\n") + 1
				}
				srcLines[name] = n
				return n
			}
			prevL, prevC := 0, -1
			dms := m.DecodedMappings()
			for _, dm := range dms {
				res.segments++
				id := fmt.Sprintf("C19/program/%s/%s", p.Name, vname)
				switch {
				case dm.GeneratedLine < 1 || dm.GeneratedLine > len(lines):
					rep.Violation(id+"/genline", fmt.Sprintf("segment generated line %d outside the file (%d lines)", dm.GeneratedLine, len(lines)), nil)
				case dm.GeneratedColumn < 0 || dm.GeneratedColumn > lineLen[dm.GeneratedLine-1]:
					rep.Violation(id+"/gencol", fmt.Sprintf("segment %d:%d beyond the end of the generated line (length %d)", dm.GeneratedLine, dm.GeneratedColumn, lineLen[dm.GeneratedLine-1]), nil)
				}
				if dm.GeneratedLine < prevL || (dm.GeneratedLine == prevL && dm.GeneratedColumn < prevC) {
					rep.Violation(id+"/order", fmt.Sprintf("segments not sorted at %d:%d", dm.GeneratedLine, dm.GeneratedColumn), nil)
				}
				prevL, prevC = dm.GeneratedLine, dm.GeneratedColumn
				if strings.HasSuffix(dm.OriginalFile, ".go") && dm.GeneratedLine >= 1 && dm.GeneratedLine <= len(lines) {
					// a recorded position is where some piece of code STARTS: never in the middle of an identifier or number
					u := utf16.Encode([]rune(lines[dm.GeneratedLine-1]))
					c := dm.GeneratedColumn
					if c > 0 && c < len(u) && isWordUnit(u[c-1]) && isWordUnit(u[c]) {
						lo, hi := c-12, c+12
						if lo < 0 {
							lo = 0
						}
						if hi > len(u) {
							hi = len(u)
						}
						rep.Violation(id+"/midtoken", fmt.Sprintf("segment %d:%d (%s:%d) points into the middle of a token: %q|%q", dm.GeneratedLine, c, dm.OriginalFile, dm.OriginalLine, string(utf16.Decode(u[lo:c])), string(utf16.Decode(u[c:hi]))), nil)
					}
				}
				if dm.OriginalFile != "" {
					n := resolve(dm.OriginalFile)
					if n < 0 {
						rep.Violation(id+"/source/"+dm.OriginalFile, "segment names a source file that cannot be found: "+dm.OriginalFile, nil)
					} else if dm.OriginalLine < 1 || dm.OriginalLine > n {
						rep.Violation(id+"/srcline/"+dm.OriginalFile, fmt.Sprintf("segment refers to line %d of %s which has %d lines", dm.OriginalLine, dm.OriginalFile, n), nil)
					}
				}
			}
			if p.Name == "c19_probe" {
				res.frames += c19Frames(env, rep, out, dms, vname, &res)
			}
		}
		os.RemoveAll(dir)
	}
	res.samples = append(res.samples, fmt.Sprintf("%d whole-program builds, %d segments checked, %d run-time frames resolved", res.builds, res.segments, res.frames))
	res.harness += len(env.Harness)
	return res
}

func isWordUnit(u uint16) bool {
	return u == '_' || u == '$' || (u >= '0' && u <= '9') || (u >= 'a' && u <= 'z') || (u >= 'A' && u <= 'Z') || u >= 0x80
}

var reFrame = regexp.MustCompile(`\(?([^\s()]+):(\d+):(\d+)\)?$`)

// c19Frames runs the probe program, resolves the caller frame of every probe through the map.
func c19Frames(env *diffrun.Env, rep *evid.Reporter, script string, dms []*sourcemap.Mapping, vname string, res *c19L2) int {
	r, err := env.Nodes.Run(jsx.Req{Script: script, FifoTimers: true, Probe: true})
	if err != nil {
		res.harness++
		return 0
	}
	// expected lines from the markers
	want := map[int]int{}
	wantFile := map[int]string{}
	multiline := map[int]bool{14: true}
	for name, src := range c19ProbeFiles() {
		if !strings.HasSuffix(name, ".go") {
			continue
		}
		for i, l := range strings.Split(src, "\n") {
			for _, mk := range reProbe.FindAllString(l, -1) {
				for _, mm := range reProbeN.FindAllStringSubmatch(mk, -1) {
					n, _ := strconv.Atoi(mm[1])
					want[n] = i + 1
					wantFile[n] = filepath.Base(name)
				}
			}
		}
	}
	want[14] = want[13]     // the statement starts on P13's line
	want[50] = want[50] - 2 // the call statement starts two lines above its last argument
	want[47] = want[46]     // the case clause starts on P46's line
	want[16] = want[16] - 1 // the communication clause belongs to the select statement, which starts one line above
	_ = multiline
	byLine := map[int][]*sourcemap.Mapping{}
	for _, dm := range dms {
		byLine[dm.GeneratedLine] = append(byLine[dm.GeneratedLine], dm)
	}
	frames := 0
	seen := map[int]bool{}
	for _, e := range r.Out {
		if e[0] != "p" {
			continue
		}
		// e[1] = "<n>|<stack>"
		parts := strings.SplitN(e[1], "|", 2)
		n, _ := strconv.Atoi(parts[0])
		seen[n] = true
		stack := strings.Split(parts[1], "\n")
		// frame 0 = "Error", 1 = verifProbe (harness), 2.. = compiled code: skip frames of function P itself
		var line, col int
		found := false
		skippedP := false
		for _, f := range stack[1:] {
			mm := reFrame.FindStringSubmatch(strings.TrimSpace(f))
			if mm == nil || !strings.HasSuffix(mm[1], filepath.Base(script)) {
				continue
			}
			if !skippedP {
				skippedP = true // the first compiled frame is P's own body
				continue
			}
			line, _ = strconv.Atoi(mm[2])
			col, _ = strconv.Atoi(mm[3])
			found = true
			break
		}
		id := fmt.Sprintf("C19/frame/%s/P%d", vname, n)
		if !found {
			rep.Violation(id, "no compiled caller frame in the stack: "+parts[1], nil)
			continue
		}
		frames++
		segs := byLine[line]
		sort.Slice(segs, func(i, j int) bool { return segs[i].GeneratedColumn < segs[j].GeneratedColumn })
		var best *sourcemap.Mapping
		for _, s := range segs {
			if s.GeneratedColumn <= col-1 {
				best = s
			}
		}
		if best == nil {
			rep.Violation(id, fmt.Sprintf("frame %d:%d has no mapping at or before it on its line", line, col), nil)
			continue
		}
		if filepath.Base(best.OriginalFile) != wantFile[n] || best.OriginalLine != want[n] {
			rep.Violation(id, fmt.Sprintf("frame %d:%d resolves to %s:%d, the statement is at %s:%d", line, col, best.OriginalFile, best.OriginalLine, wantFile[n], want[n]), c19ProbeFiles())
		}
	}
	for n := range want {
		if !seen[n] {
			rep.Violation(fmt.Sprintf("C19/frame/%s/P%d", vname, n), "probe never executed", nil)
		}
	}
	return frames
}

func runCmd(name string, args ...string) (string, error) {
	b, err := execCommand(name, args...)
	return string(b), err
}

func execCommand(name string, args ...string) ([]byte, error) {
	return osexec(name, args...)
}
