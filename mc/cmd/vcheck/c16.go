package main

import (
	"fmt"
	"os"
	"path/filepath"
	"regexp"
	"strings"
	"time"

	"verif/mc/diffrun"
	"verif/mc/gen/generic"
	"verif/mc/gen/minx"
	"verif/mc/gen/susp"
	"verif/mc/gjs"
	"verif/mc/native/allocx"
	"verif/mc/native/stripx"
)

func init() {
	props["C16"] = c16
	programSets["C16"] = func(t bool) []diffrun.Program { return []diffrun.Program{minx.Program(t)} }
}

var jsKeywords = map[string]bool{"var": true, "function": true, "return": true, "if": true, "else": true, "while": true, "switch": true, "case": true, "default": true, "break": true, "continue": true, "new": true, "typeof": true, "this": true, "null": true, "true": true, "false": true, "undefined": true, "throw": true, "try": true, "catch": true, "finally": true, "for": true, "in": true, "instanceof": true, "void": true, "delete": true, "do": true, "let": true, "const": true}

var puncts = []string{">>>=", "===", "!==", ">>>", "<<=", ">>=", "...", "=>", "==", "!=", "<=", ">=", "&&", "||", "++", "--", "+=", "-=", "*=", "/=", "%=", "&=", "|=", "^=", "<<", ">>"}

func isIdentByte(c byte) bool {
	return c == '_' || c == '$' || c >= 0x80 || (c >= 'a' && c <= 'z') || (c >= 'A' && c <= 'Z') || (c >= '0' && c <= '9')
}

// jsTokens is the reference tokenizer: identifiers are abstracted to "I" (they are renamed by
// minification) except keywords; strings and numbers are kept byte for byte.
func jsTokens(src string) ([]string, error) {
	var toks []string
	i := 0
	for i < len(src) {
		c := src[i]
		switch {
		case c == ' ' || c == '\t' || c == '\n' || c == '\r':
			i++
		case c == '/' && i+1 < len(src) && src[i+1] == '*':
			j := strings.Index(src[i+2:], "*/")
			if j < 0 {
				return nil, fmt.Errorf("unterminated comment")
			}
			i += j + 4
		case c == '/' && i+1 < len(src) && src[i+1] == '/':
			j := strings.IndexByte(src[i:], '\n')
			if j < 0 {
				j = len(src) - i
			}
			i += j
		case c == '"':
			j := i + 1
			for j < len(src) && src[j] != '"' {
				if src[j] == '\\' {
					j++
				}
				j++
			}
			if j >= len(src) {
				return nil, fmt.Errorf("unterminated string")
			}
			toks = append(toks, src[i:j+1])
			i = j + 1
		case c >= '0' && c <= '9' || (c == '.' && i+1 < len(src) && src[i+1] >= '0' && src[i+1] <= '9'):
			j := i
			for j < len(src) && (isIdentByte(src[j]) || src[j] == '.' || ((src[j] == '+' || src[j] == '-') && (src[j-1] == 'e' || src[j-1] == 'E') && !strings.HasPrefix(src[i:], "0x"))) {
				j++
			}
			toks = append(toks, "N"+src[i:j])
			i = j
		case isIdentByte(c):
			j := i
			for j < len(src) && isIdentByte(src[j]) {
				j++
			}
			w := src[i:j]
			if jsKeywords[w] {
				toks = append(toks, w)
			} else {
				toks = append(toks, "I")
			}
			i = j
		default:
			matched := false
			for _, p := range puncts {
				if strings.HasPrefix(src[i:], p) {
					toks = append(toks, p)
					i += len(p)
					matched = true
					break
				}
			}
			if !matched {
				toks = append(toks, string(c))
				i++
			}
		}
	}
	return toks, nil
}

// incJSProgram: a package that ships JavaScript with every comment form esbuild treats specially.
func incJSProgram() diffrun.Program {
	return diffrun.Program{Name: "c16_incjs", NoNative: true, Files: map[string]string{
		"main.go": `package main

import "github.com/gopherjs/gopherjs/js"

func main() {
	println("C16/incjs/a " + js.Global.Call("c16inc", "a").String())
	println("C16/incjs/b " + js.Global.Call("c16inc2", 20, 22).String())
	println("C16/incjs/names " + js.Global.Call("c16names").String())
	c := make(chan int)
	println("C16/incjs/before-deadlock x")
	<-c
}
`,
		"a_shim.inc.js": "//! legal line comment at the very top\n// @license MIT\n/*! legal block comment */\n// ordinary comment\n$global.c16inc = function(x) { return 'inc:' + x + '//not a comment' + \"/* nor this */\"; }; // trailing comment\nconsole.log('C16/incjs/loaded a_shim');\n// @preserve a legal comment on the last line, no newline at the end of the file",
		"c_names.inc.js": "(function() {\n  class QuotaExceeded extends Error { constructor(m) { super(m); this.name = this.constructor.name; } }\n  function handlerPut() {}\n  var table = { get: function lookupEntry() {} };\n  const arrow = () => 1;\n  $global.c16names = function() {\n    var e = new QuotaExceeded('full');\n    return [String(e), e.name, handlerPut.name, table.get.name, arrow.name, (function inner() {}).name, $global.c16names.length].join('|');\n  };\n})();\n",
		"b_more.inc.js": "/* plain block */\n$global.c16inc2 = function(a, b) {\n  // inner comment\n  var re = /\\/\\/x/; // a regular expression with slashes\n  return String(a + b) + (re.test('//x') ? 'y' : 'n') + `tpl // ${a}`;\n};\n//# sourceURL=b_more.js\n",
	}}
}

var rePkgStart = regexp.MustCompile(`\$packages\["[^"]+"\] ?= ?\(function\(\) ?\{`)

func pkgSection(js string) string {
	if loc := rePkgStart.FindStringIndex(js); loc != nil {
		return js[loc[0]:]
	}
	return js
}

func c16(tier string) int {
	start := time.Now()
	env, err := diffrun.NewEnv("C16")
	if err != nil {
		panic(err)
	}
	defer env.Close()
	thorough := tier == "thorough"
	// layer 2: targeted family vs native Go, plain and minified
	env.CheckAll([]diffrun.Program{minx.Program(thorough)}, []diffrun.Variant{diffrun.Plain, diffrun.Minified})
	// layer 1: corpus-wide differential, the plain build is the reference for the minified one
	corp := append(corpus(thorough), generic.Program(), susp.Programs()[0], susp.Programs()[5])
	for _, sp := range generic.SmallPrograms() {
		if sp.Name != "c04_localcomposite" { // does not build at all (known finding of C04)
			corp = append(corp, sp)
		}
	}
	corp = append(corp, incJSProgram())
	env.CheckAllAgainstVariant(corp, diffrun.Plain, []diffrun.Variant{diffrun.Minified})
	// layer 3a: the allocator, directly
	maxLen := 7
	if thorough {
		maxLen = 9
	}
	ar := allocx.Run(maxLen)
	for _, v := range ar.Violations {
		id := v
		if i := indexByte(v, ' '); i > 0 {
			id = v[:i]
		}
		env.Rep.Violation(id, v, map[string]string{"case.txt": v + "\n"})
	}
	// layer 3b: token sequences of the package code, plain vs minified, through the reference tokenizer
	tokProgs := []diffrun.Program{minx.Program(false), generic.Program(), corp[0], corp[8], corp[len(corp)/2]}
	tokens, tokPrograms := 0, 0
	adjacencies := map[[2]byte]bool{}
	for _, p := range tokProgs {
		dir, err := env.WriteProgram(p)
		if err != nil {
			continue
		}
		a := env.Builds.Build(gjs.Request{Dir: dir, Out: filepath.Join(dir, "tp.js")})
		b := env.Builds.Build(gjs.Request{Dir: dir, Out: filepath.Join(dir, "tm.js"), Minify: true})
		if !a.OK || !b.OK {
			os.RemoveAll(dir)
			continue
		}
		pj, _ := os.ReadFile(filepath.Join(dir, "tp.js"))
		mj, _ := os.ReadFile(filepath.Join(dir, "tm.js"))
		os.RemoveAll(dir)
		stripx.Adjacencies([]byte(pkgSection(string(pj))), adjacencies)
		ta, e1 := jsTokens(pkgSection(string(pj)))
		tb, e2 := jsTokens(pkgSection(string(mj)))
		tokPrograms++
		tokens += len(ta)
		id := "C16/tokens/" + p.Name
		if e1 != nil || e2 != nil {
			env.Rep.Violation(id, fmt.Sprintf("output does not tokenize: %v %v", e1, e2), nil)
			continue
		}
		n := len(ta)
		if len(tb) < n {
			n = len(tb)
		}
		diffAt := -1
		for i := 0; i < n; i++ {
			if ta[i] != tb[i] {
				diffAt = i
				break
			}
		}
		if diffAt < 0 && len(ta) != len(tb) {
			diffAt = n
		}
		if diffAt >= 0 {
			lo := diffAt - 8
			if lo < 0 {
				lo = 0
			}
			hiA, hiB := diffAt+8, diffAt+8
			if hiA > len(ta) {
				hiA = len(ta)
			}
			if hiB > len(tb) {
				hiB = len(tb)
			}
			env.Rep.Violation(id, fmt.Sprintf("token sequences of the plain and the minified package code differ at token %d: plain %v minified %v", diffAt, ta[lo:hiA], tb[lo:hiB]), nil)
		}
	}
	// layer 3c: the whitespace / comment remover itself on every short token sequence whose adjacencies occur in real output
	maxLenStrip := 4
	if thorough {
		maxLenStrip = 5
	}
	sr := stripx.Run(maxLenStrip, 3, adjacencies)
	seenStrip := map[string]int{}
	for _, v := range sr.Violations {
		id := v
		if i := indexByte(v, ' '); i > 0 {
			id = v[:i]
		}
		seenStrip[id]++
		if seenStrip[id] <= 3 {
			env.Rep.Violation(id, v, map[string]string{"case.txt": v + "\n"})
		}
	}
	return finishDiff(env, "C16", tier, start,
		"(1) corpus-wide differential: every corpus program built plain and minified, run, compared case by case; (2) targeted naming program vs native Go: 30 / 710 (thorough: 18300) locals in one function plus closures, 760 package-level variables / functions / types, 85 JavaScript reserved words, globals and runtime-looking names in every identifier position (local, parameter, result, field, method, label, package-level), shadowing chains captured by closures, adjacent sign tokens in every nesting, strings containing comment and quote sequences; (3a) direct exploration of the identifier allocator on real function contexts: all request sequences up to length 5 (thorough 6) over {local, package-level, open child scope} x 4 scopes, minified and plain, invariant: no two visible names coincide, none is reserved; long runs across the 26 / 702 / 18278 name boundaries; (3c) the whitespace/comment remover on every sequence of <= 3 tokens from a 67-token alphabet (identifiers, keywords, numbers, 13 string literals with escapes / comment look-alikes / a trailing escaped backslash, 33 punctuators, a real position hint) x 7 separators (blank, newline, tab, mixed, comments), and <= 4 (thorough 5) tokens from a 17-token alphabet: with hints taken out the output must tokenize like the input, strings byte-exact, hints between the same tokens; only sequences whose adjacencies (last byte class of a token, first byte class of the next) occur, separated by white space, in the plain package code of the five token programs are in the domain; (3b) the token sequence (reference tokenizer, identifiers abstracted, strings and numbers byte-exact) of the package code of plain vs minified builds must be identical",
		[]string{"reference for the corpus = the plain build; for the naming program = native Go", "the prelude (minified by esbuild) is excluded from the token comparison"},
		map[string]any{"allocator_states": ar.States, "allocator_transitions": ar.Transitions, "allocator_long_runs": ar.LongRuns, "token_programs": tokPrograms, "tokens_compared": tokens, "stripper_sequences": sr.Sequences, "stripper_sequences_outside_js": sr.Skipped, "adjacency_classes": len(adjacencies)})
}
