package main

import "os/exec"

func osexec(name string, args ...string) ([]byte, error) { return exec.Command(name, args...).Output() }
