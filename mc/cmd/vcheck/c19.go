package main

import (
	"fmt"
	"os"
	"time"

	"verif/mc/evid"
	"verif/mc/native/smap"
)

func init() { props["C19"] = c19 }

func c19(tier string) int {
	start := time.Now()
	rep := evid.NewReporter("C19")
	maxItems, maxCuts := 4, 9
	if tier == "thorough" {
		maxItems, maxCuts = 5, 11
	}
	r := smap.Run(maxItems, maxCuts)
	for _, v := range r.Violations {
		if v == "" {
			rep.Viol++
			continue
		}
		id := v
		if i := indexByte(v, ' '); i > 0 {
			id = v[:i]
		}
		rep.Violation(id, v, map[string]string{"case.txt": v + "\n"})
	}
	l2 := c19Programs(tier, rep)
	samples := []any{}
	for _, s := range r.Samples {
		samples = append(samples, s)
	}
	for _, s := range l2.samples {
		samples = append(samples, s)
	}
	if len(samples) == 0 {
		samples = append(samples, "none")
	}
	cov := map[string]any{
		"evaluations":         r.Runs + l2.segments + l2.frames,
		"distinct_nontrivial": r.Streams + l2.frames,
		"rule":                "layer 1: every stream of <= L items over {text, newline, text with embedded newline, string literal, 2-byte UTF-8 char, position hint x2, NoPos hint, identifier hint} x every chunking of the byte stream into Write calls that does not cut a hint (all 2^k cut sets when k <= limit, else all cut sets of size <= 2 and the full one), mapping on and off, through the real Filter with real hint bytes: output = stream minus hints, n = input length, no hint byte in the output, mappings identical for all chunkings and equal to the reference scanner; layer 2: every segment of the decoded source maps of whole-program builds (plain and minified) lies inside the generated file and names an existing line of an existing source, segments sorted; layer 3: run-time frames of panic probes (one per statement form) resolved through the map give the Go file and line of the statement that threw",
		"samples":             samples,
		"streams":             r.Streams,
		"chunked_runs":        r.Runs,
		"streams_with_all_chunkings": r.ExhaustiveChunk,
		"max_items":           maxItems,
		"map_segments_checked": l2.segments,
		"whole_program_builds": l2.builds,
		"runtime_frames_resolved": l2.frames,
		"exhaustive":          l2.harness == 0,
	}
	ev := evid.Evidence{PropertyID: "C19", Tier: tier, Level: "exploration", Coverage: cov, Violations: rep.Viol, KnownFindings: rep.KnownList(),
		Assumptions: []string{"layer 1 counts columns in bytes (the Filter's own unit); layers 2-3 in UTF-16 units as a source-map consumer does", "github.com/neelance/sourcemap is trusted as the VLQ decoder"}}
	if err := ev.Write(start); err != nil {
		return 3
	}
	fmt.Printf("C19 %s: streams=%d chunked_runs=%d segments=%d frames=%d violations=%d known=%d wall=%.1fs\n", tier, r.Streams, r.Runs, l2.segments, l2.frames, rep.Viol, len(rep.KnownList()), time.Since(start).Seconds())
	if rep.Viol > 0 {
		rep.Summary()
		return 1
	}
	if l2.harness > 0 {
		fmt.Fprintln(os.Stderr, "harness problems:", l2.harness)
		return 3
	}
	return 0
}
