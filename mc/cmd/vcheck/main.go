package main

import (
	"encoding/json"
	"flag"
	"fmt"
	"os"

	"verif/mc/gjs"
	"verif/mc/pool"
)

func main() {
	if len(os.Args) < 2 {
		fmt.Fprintln(os.Stderr, "usage: vcheck <worker|build|Cxx> ...")
		os.Exit(2)
	}
	switch os.Args[1] {
	case "worker":
		pool.WorkerMain()
	case "build":
		fs := flag.NewFlagSet("build", flag.ExitOnError)
		var req gjs.Request
		fs.StringVar(&req.Dir, "dir", "", "")
		fs.StringVar(&req.Out, "o", "", "")
		fs.BoolVar(&req.Minify, "m", false, "")
		fs.BoolVar(&req.Map, "map", false, "")
		fs.BoolVar(&req.AllAlive, "allalive", false, "")
		fs.Parse(os.Args[2:])
		res := gjs.Build(req)
		json.NewEncoder(os.Stdout).Encode(res)
		if !res.OK {
			os.Exit(1)
		}
	case "c20worker":
		os.Exit(c20WorkerMain(os.Args[2:]))
	case "dump":
		os.Exit(dumpMain(os.Args[2:]))
	default:
		os.Exit(runProp(os.Args[1], os.Args[2:]))
	}
}
