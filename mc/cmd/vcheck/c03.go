package main

import (
	"encoding/json"
	"fmt"
	"os"
	"os/exec"
	"path/filepath"
	"runtime"
	"sync"
	"time"

	"verif/mc/diffrun"
	"verif/mc/evid"
	"verif/mc/gen/chanprog"
	"verif/mc/gjs"
	"verif/mc/jsx"
)

func init() { props["C03"] = c03 }

type c03Stats struct {
	Scenarios         int64            `json:"scenarios"`
	Executions        int64            `json:"executions"`
	States            int64            `json:"states"`
	Transitions       int64            `json:"transitions"`
	TracesValidated   int64            `json:"tracesValidated"`
	DistinctOutcomes  int64            `json:"distinctOutcomes"`
	MultiOutcome      int64            `json:"multiOutcome"`
	ImplMultiOutcome  int64            `json:"implMultiOutcome"`
	DeadlockScenarios int64            `json:"deadlockScenarios"`
	ModelCapped       int64            `json:"modelCapped"`
	ImplCapped        int64            `json:"implCapped"`
	Samples           []any            `json:"samples"`
	PerFamily         map[string]int64 `json:"perFamily"`
	TimedOut          bool             `json:"timedOut"`
	Bound             int              `json:"bound"`
}

type c03Violation struct {
	ID       string          `json:"id"`
	Scenario json.RawMessage `json:"scenario"`
	Choices  []int           `json:"choices"`
	Got      string          `json:"got"`
	Allowed  []string        `json:"allowed"`
	NAllowed int             `json:"nAllowed"`
}

func c03(tier string) int {
	start := time.Now()
	env, err := diffrun.NewEnv("C03")
	if err != nil {
		panic(err)
	}
	defer env.Close()
	p := chanprog.Program()
	dir, err := env.WriteProgram(p)
	if err != nil {
		panic(err)
	}
	out := filepath.Join(dir, "interp.js")
	res := env.Builds.Build(gjs.Request{Dir: dir, Out: out})
	if !res.OK {
		env.Rep.Violation("C03/build", "the channel interpreter program does not build: "+res.Err, map[string]string{"main.go": p.Files["main.go"]})
		return finishC03(env, tier, start, c03Stats{}, 0)
	}
	n := runtime.NumCPU()
	var wg sync.WaitGroup
	var mu sync.Mutex
	total := c03Stats{PerFamily: map[string]int64{}}
	var viols []c03Violation
	harnessErr := 0
	for i := 0; i < n; i++ {
		wg.Add(1)
		go func(i int) {
			defer wg.Done()
			of := filepath.Join(dir, fmt.Sprintf("shard%d.json", i))
			cmd := exec.Command("node", "--stack-size=4000", filepath.Join(jsx.VerifRoot(), "js", "c03.js"), out, tier, fmt.Sprint(i), fmt.Sprint(n), of)
			cmd.Stderr = os.Stderr
			if err := cmd.Run(); err != nil {
				mu.Lock()
				harnessErr++
				fmt.Fprintln(os.Stderr, "HARNESS: c03 shard", i, err)
				mu.Unlock()
				return
			}
			b, err := os.ReadFile(of)
			if err != nil {
				mu.Lock()
				harnessErr++
				mu.Unlock()
				return
			}
			var r struct {
				Stats      c03Stats       `json:"stats"`
				Violations []c03Violation `json:"violations"`
			}
			if err := json.Unmarshal(b, &r); err != nil {
				mu.Lock()
				harnessErr++
				mu.Unlock()
				return
			}
			mu.Lock()
			defer mu.Unlock()
			s := r.Stats
			total.Scenarios += s.Scenarios
			total.Executions += s.Executions
			total.States += s.States
			total.Transitions += s.Transitions
			total.TracesValidated += s.TracesValidated
			total.DistinctOutcomes += s.DistinctOutcomes
			total.MultiOutcome += s.MultiOutcome
			total.ImplMultiOutcome += s.ImplMultiOutcome
			total.DeadlockScenarios += s.DeadlockScenarios
			total.ModelCapped += s.ModelCapped
			total.ImplCapped += s.ImplCapped
			total.TimedOut = total.TimedOut || s.TimedOut
			total.Bound = s.Bound
			if len(total.Samples) < 4 {
				total.Samples = append(total.Samples, s.Samples...)
			}
			for k, v := range s.PerFamily {
				total.PerFamily[k] += v
			}
			viols = append(viols, r.Violations...)
		}(i)
	}
	wg.Wait()
	for _, v := range viols {
		rep, _ := json.MarshalIndent(map[string]any{"id": v.ID, "scenario": v.Scenario, "choices": v.Choices}, "", " ")
		allowed := ""
		for _, a := range v.Allowed {
			allowed += a + "\n"
		}
		env.Rep.Violation("C03/"+v.ID, "implementation trace not allowed by the Go channel model: "+v.Got, map[string]string{
			"replay.json": string(rep),
			"got.txt":     v.Got + "\n",
			"allowed.txt": allowed,
			"interp/main.go": p.Files["main.go"],
			"interp/go.mod":  "module pc03_interp\n\ngo 1.20\n",
			"replay.sh": "#!/bin/sh\n# rebuilds the interpreter with the working-tree compiler and replays this one schedule\nD=\"$(cd \"$(dirname \"$0\")\" && pwd)\"\nexport GOFLAGS=-mod=mod GOPROXY=off GOSUMDB=off GOTOOLCHAIN=local GOPHERJS_SKIP_VERSION_CHECK=true\n" +
				"\"${VCHECK:-/verif/bin/vcheck}\" build -dir \"$D/interp\" -o \"$D/interp/out.js\" >/dev/null && node /verif/js/c03.js \"$D/interp/out.js\" quick 0 1 /dev/null \"$D/replay.json\"\n",
		})
	}
	return finishC03(env, tier, start, total, harnessErr)
}

func finishC03(env *diffrun.Env, tier string, start time.Time, s c03Stats, harnessErr int) int {
	exhaustive := harnessErr == 0 && !s.TimedOut && s.ModelCapped == 0 && s.ImplCapped == 0
	samples := s.Samples
	if len(samples) == 0 {
		samples = []any{"none"}
	}
	cov := map[string]any{
		"states":                        s.States,
		"transitions":                   s.Transitions,
		"traces_validated_against_impl": s.TracesValidated,
		"samples":                       samples,
		"scenarios":                     s.Scenarios,
		"implementation_executions":     s.Executions,
		"distinct_impl_outcomes":        s.DistinctOutcomes,
		"scenarios_with_several_allowed_outcomes": s.MultiOutcome,
		"scenarios_with_several_observed_outcomes": s.ImplMultiOutcome,
		"scenarios_where_model_allows_deadlock":    s.DeadlockScenarios,
		"deviation_bound_completed":                s.Bound,
		"model_state_cap_hits":                     s.ModelCapped,
		"impl_execution_cap_hits":                  s.ImplCapped,
		"per_family_scenarios":                     s.PerFamily,
		"internal_deadline_hit":                    s.TimedOut,
		"exhaustive":                               exhaustive,
		"evaluations":                              s.Executions,
		"distinct_nontrivial":                      s.MultiOutcome,
		"rule": "scenario = goroutines x straight-line op lists over the channel alphabet; model = explicit-state BFS over all interleavings Go allows; implementation = every resolution of select pick / time-slice break / timer order up to the deviation bound; every implementation trace (global log order + end) must be a model trace; non-trivial = the model allows more than one trace",
	}
	known := env.Rep.KnownList()
	ev := evid.Evidence{PropertyID: "C03", Tier: tier, Level: "model_checking", Coverage: cov, Violations: env.Rep.Viol, KnownFindings: known,
		Assumptions: []string{"the model (js/chanmodel.js) is the reference for Go's channel semantics; which parked partner is served and which ready select case is chosen are left open, as in the language", "logs are compared up to the moment main returns", "browser event loops are represented by the timer-order and time-slice choices only"}}
	if err := ev.Write(start); err != nil {
		fmt.Fprintln(os.Stderr, err)
		return 3
	}
	fmt.Printf("C03 %s: scenarios=%d impl_executions=%d model_states=%d transitions=%d traces_validated=%d violations=%d known=%d exhaustive=%v wall=%.1fs\n", tier, s.Scenarios, s.Executions, s.States, s.Transitions, s.TracesValidated, env.Rep.Viol, len(known), exhaustive, time.Since(start).Seconds())
	if env.Rep.Viol > 0 {
		env.Rep.Summary()
		return 1
	}
	if harnessErr > 0 {
		return 3
	}
	return 0
}
