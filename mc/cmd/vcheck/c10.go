package main

import (
	"encoding/json"
	"fmt"
	"os"
	"os/exec"
	"path/filepath"
	"strings"
	"sync/atomic"
	"time"

	"verif/mc/diffrun"
	"verif/mc/gen/initx"
	"verif/mc/gjs"
	"verif/mc/jsx"
	"verif/mc/ref"
)

func init() {
	props["C10"] = c10
	programSets["C10"] = func(t bool) []diffrun.Program { return append(initx.Programs(t), initx.LinknameProgram(), initx.PureChainProgram(), initx.SuspendingInitProgram()) }
}

func c10(tier string) int {
	start := time.Now()
	env, err := diffrun.NewEnv("C10")
	if err != nil {
		panic(err)
	}
	defer env.Close()
	progs := append(initx.Programs(tier == "thorough"), initx.LinknameProgram(), initx.PureChainProgram())
	env.CheckAll(progs, []diffrun.Variant{diffrun.Plain, diffrun.Minified})
	// rejection table: documented unsupported uses of go:linkname must fail the build with an ordinary error
	rejected := 0
	for _, rj := range initx.Rejections() {
		p := diffrun.Program{Name: "c10_reject_" + rj.Name, NoHelpers: true, Files: map[string]string{}}
		mod := diffrun.ModName(p.Name)
		for k, v := range rj.Files {
			p.Files[k] = strings.ReplaceAll(v, "MOD", mod)
		}
		dir, err := env.WriteProgram(p)
		if err != nil {
			continue
		}
		atomic.AddInt64(&env.Builds_, 1)
		res := env.Builds.Build(gjs.Request{Dir: dir, Out: filepath.Join(dir, "out.js")})
		id := "C10/reject/" + rj.Name
		switch {
		case res.OK:
			env.Rep.Violation(id, "unsupported use of go:linkname is accepted silently ("+rj.Why+")", progFiles(p))
		case res.Class != "error":
			env.Rep.Violation(id, "unsupported use of go:linkname is not rejected with an ordinary error but with "+res.Class+": "+res.Err, progFiles(p))
		default:
			rejected++
		}
		os.RemoveAll(dir)
	}
	// suspending initialisers: nothing overtakes them, under every subset of suspensions
	suspExec := 0
	{
		p := initx.SuspendingInitProgram()
		dir, _ := env.WriteProgram(p)
		bin, err := ref.BuildNative(dir, "")
		if err != nil {
			env.Harness = append(env.Harness, "native build of c10_suspinit: "+err.Error())
		} else {
			want := ref.RunNative(bin, 60*time.Second)
			out, dout := filepath.Join(dir, "susp.js"), filepath.Join(dir, "direct.js")
			r1 := env.Builds.Build(gjs.Request{Dir: dir, Out: out})
			r2 := env.Builds.Build(gjs.Request{Dir: dir, Out: dout, Tags: []string{"direct"}})
			if !r1.OK || !r2.OK {
				env.Rep.Violation("C10/suspinit/build", "build fails: "+r1.Err+r2.Err, progFiles(p))
			} else {
				of := filepath.Join(dir, "res.json")
				cmd := exec.Command("node", "--stack-size=4000", filepath.Join(jsx.VerifRoot(), "js", "c02.js"), out, dout, "1", tier, of)
				cmd.Stderr = os.Stderr
				if err := cmd.Run(); err != nil {
					env.Harness = append(env.Harness, "c02.js on c10_suspinit: "+err.Error())
				} else {
					b, _ := os.ReadFile(of)
					var res struct {
						Cases      []c02Case `json:"cases"`
						Executions int       `json:"executions"`
						Violations []c02Viol `json:"violations"`
					}
					json.Unmarshal(b, &res)
					suspExec = res.Executions
					for _, v := range res.Violations {
						got := "<none>"
						if v.Got != nil {
							got = *v.Got
						}
						env.Rep.Violation(fmt.Sprintf("C10/suspinit/mask=%d", v.Mask), fmt.Sprintf("%s: want %q got %q end=%s", v.Kind, v.Want, got, v.End), progFiles(p))
					}
					if len(res.Cases) == 1 && len(want.Lines) == 1 {
						nat := strings.TrimPrefix(want.Lines[0], "C10/suspinit ")
						if nat != res.Cases[0].Trace {
							env.Rep.Violation("C10/suspinit", fmt.Sprintf("initialisation trace differs from native Go: want %q got %q", nat, res.Cases[0].Trace), progFiles(p))
						}
					} else {
						env.Harness = append(env.Harness, "c10_suspinit: unexpected result shape")
					}
				}
			}
		}
		os.RemoveAll(dir)
	}
	return finishDiff(env, "C10", tier, start,
		"(1) every import DAG on three packages plus a shared leaf and main in which all packages are reachable (49 DAGs) x 4 per-package patterns of package-level variables (declaration order across files, forward references through function bodies, through method calls across files, through function literals and multi-value initialisers, blank and unused variables) with several init functions per file, three files per package whose names sort against the declaration intent (quick: every third combination, thorough: all 196): the global initialisation trace must equal native Go built from the same packages with the files renamed order-reversingly (GopherJS presents files in descending, go build in ascending name order; the property only fixes 'one order depending on the names'); (2) go:linkname to a function, a value method and a pointer method along the import direction, to a function against it, and chained, in three packages; (3) the three documented unsupported uses must fail the build with an ordinary error; (4) initialisers and init functions of two packages that suspend at 9 points, under every subset of suspensions (C02 seam): trace invariant and equal to native",
		[]string{"reference = native Go with order-reversed file names", "plain and minified builds"},
		map[string]any{"rejections_checked": len(initx.Rejections()), "rejected_with_error": rejected, "suspending_init_executions": suspExec})
}
