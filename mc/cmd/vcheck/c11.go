package main

import (
	"path/filepath"
	"time"

	"verif/mc/diffrun"
	"verif/mc/gen/jsx11"
	"verif/mc/jsx"
)

func init() { props["C11"] = c11; programSets["C11"] = func(bool) []diffrun.Program { return []diffrun.Program{jsx11.Program()} } }

func c11(tier string) int {
	start := time.Now()
	env, err := diffrun.NewEnv("C11")
	if err != nil {
		panic(err)
	}
	defer env.Close()
	p := jsx11.Program()
	p.ContextScript = filepath.Join(jsx.VerifRoot(), "js", "probe11.js")
	env.CheckAll([]diffrun.Program{p}, []diffrun.Variant{diffrun.Plain, diffrun.Minified})
	return finishDiff(env, "C11", tier, start,
		"the documented conversion table (js package documentation) x boundary values x routes: booleans; every integer kind at 0, 1, -1, min, max; int64/uint64 up to 2^53; floats incl. signed zeros, infinities, NaN, smallest subnormal, largest finite; strings at every UTF-8 / UTF-16 encoding boundary incl. NUL, non-BMP and quotes; slices, subslices and arrays of every numeric element kind (typed arrays sharing storage), other slices, nested slices, string-keyed maps, structs with exported and unexported fields, nil of every nillable kind, interface values; each through the routes Call / Invoke / New / Set / SetIndex / result of an exposed function / argument and result of an exposed function, plus the round trip back to Go; JavaScript -> Go through Interface() for every JavaScript kind and the typed accessors; identity of *js.Object and of externalised functions; exposed functions with typed, variadic, any-typed, slice/map/object parameters, no result, MakeFunc with this; a struct wrapping a JavaScript object with js-tagged fields read and written; blocking Go code called from a JavaScript callback (documented error, scheduler still usable); object graphs: 7 shapes with shared nodes and cycles through Interface(), and one JavaScript object reached under two different Go target types (8 typed targets x distinct / shared / shared-reversed); the receiver expression of every js.Object method form (19 forms incl. spread, dynamic names, deferred calls) in 5 side-effecting receiver shapes is evaluated exactly once; MakeWrapper / MakeFullWrapper objects of 9 kinds of defined types handed back to typed and interface{} parameters are the wrapped value again",
		[]string{"no reference implementation exists: the expected lines are literals transcribed from the js package documentation (trusted, kept small)", "time.Time <-> Date is not checked (package time cannot be built against this GOROOT)"},
		nil)
}
