package main

import (
	"time"

	"verif/mc/diffrun"
	"verif/mc/gen/str"
)

func init() { props["C14"] = c14 }

func c14(tier string) int {
	start := time.Now()
	env, err := diffrun.NewEnv("C14")
	if err != nil {
		panic(err)
	}
	defer env.Close()
	maxLen := 4
	if tier == "thorough" {
		maxLen = 5
	}
	env.CheckAll(str.Programs(maxLen), []diffrun.Variant{diffrun.Plain, diffrun.Minified})
	return finishDiff(env, "C14", tier, start,
		"explorer program: every byte string of length <= L over a 15-byte boundary alphabet (edges of every UTF-8 decoder branch) x {len, index, all slices, range, []rune/[]byte round trips, copy/append, compare/concat with all strings of length <= 2, switch, map key}; every rune value -4096..0x110fff; integer carriers; conversions between strings and slices for every combination of defined slice type, defined element type (two levels) and defined string type, both directions; a literal table; one digest line per (operation, length, first byte) class; plain and minified builds vs native Go",
		[]string{"reference = native Go on the same source", "digest collisions (2x32-bit lanes) are ignored"},
		map[string]any{"max_string_length": maxLen})
}
