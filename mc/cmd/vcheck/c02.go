package main

import (
	"encoding/json"
	"fmt"
	"os"
	"os/exec"
	"path/filepath"
	"strings"
	"sync"
	"sync/atomic"
	"time"

	"verif/mc/diffrun"
	"verif/mc/evid"
	"verif/mc/gen/susp"
	"verif/mc/gjs"
	"verif/mc/jsx"
	"verif/mc/ref"
)

func init() { props["C02"] = c02; programSets["C02"] = func(bool) []diffrun.Program { return susp.Programs() } }

type c02Case struct {
	C          int    `json:"c"`
	ID         string `json:"id"`
	Trace      string `json:"trace"`
	N          int    `json:"n"`
	Subsets    int    `json:"subsets"`
	Exhaustive bool   `json:"exhaustive"`
}

type c02Viol struct {
	C    int      `json:"c"`
	ID   string   `json:"id"`
	Kind string   `json:"kind"`
	Mask int      `json:"mask"`
	Want string   `json:"want"`
	Got  *string  `json:"got"`
	End  string   `json:"end"`
	Out  [][2]string `json:"out"`
}

func c02(tier string) int {
	start := time.Now()
	env, err := diffrun.NewEnv("C02")
	if err != nil {
		panic(err)
	}
	defer env.Close()
	progs := susp.Programs()
	var wg sync.WaitGroup
	var mu sync.Mutex
	var executions, cases, yieldPoints, subsetsRun, exhaustiveCases, withYield int64
	var samples []any
	sem := make(chan struct{}, 16)
	for _, p := range progs {
		wg.Add(1)
		sem <- struct{}{}
		go func(p diffrun.Program) {
			defer wg.Done()
			defer func() { <-sem }()
			atomic.AddInt64(&env.Programs, 1)
			dir, err := env.WriteProgram(p)
			if err != nil {
				panic(err)
			}
			defer os.RemoveAll(dir)
			// native reference
			bin, err := ref.BuildNative(dir, "")
			if err != nil {
				env.Harness = append(env.Harness, "native build failed: "+p.Name+": "+err.Error())
				fmt.Fprintln(os.Stderr, "HARNESS: native build failed", p.Name, err)
				return
			}
			want := ref.RunNative(bin, 120*time.Second)
			native := map[string]string{}
			for _, l := range want.Lines {
				if i := strings.IndexByte(l, ' '); i >= 0 {
					native[l[:i]] = l[i+1:]
				} else {
					native[l] = ""
				}
			}
			out := filepath.Join(dir, "susp.js")
			dout := filepath.Join(dir, "direct.js")
			atomic.AddInt64(&env.Builds_, 2)
			r1 := env.Builds.Build(gjs.Request{Dir: dir, Out: out})
			r2 := env.Builds.Build(gjs.Request{Dir: dir, Out: dout, Tags: []string{"direct"}})
			if !r1.OK || !r2.OK {
				env.Rep.Violation(p.Name+"/build", "native Go accepts the program, GopherJS build fails: "+r1.Err+r2.Err, progFiles(p))
				return
			}
			of := filepath.Join(dir, "res.json")
			runNode := func() error {
				cmd := exec.Command("node", "--stack-size=4000", "--max-old-space-size=2048", filepath.Join(jsx.VerifRoot(), "js", "c02.js"), out, dout, fmt.Sprint(susp.NCases()), tier, of)
				cmd.Stderr = os.Stderr
				return cmd.Run()
			}
			if err := runNode(); err != nil {
				// The explorer process itself died (typically the JavaScript engine ran out of memory in a
				// runaway loop of the compiled program). Native Go ran the same program to the end: a second,
				// identical death is the program's behaviour, not a harness problem.
				if err2 := runNode(); err2 != nil {
					env.Rep.Violation(p.Name+"/engine-crash", "exploring the cases of this program kills the JavaScript engine twice ("+err.Error()+" / "+err2.Error()+"); native Go runs all of them to the end", progFiles(p))
					return
				}
			}
			b, _ := os.ReadFile(of)
			var res struct {
				Cases      []c02Case `json:"cases"`
				Executions int64     `json:"executions"`
				Violations []c02Viol `json:"violations"`
			}
			if err := json.Unmarshal(b, &res); err != nil {
				mu.Lock()
				env.Harness = append(env.Harness, "bad c02 result for "+p.Name)
				mu.Unlock()
				return
			}
			atomic.AddInt64(&executions, res.Executions)
			files := progFiles(p)
			for _, c := range res.Cases {
				atomic.AddInt64(&cases, 1)
				atomic.AddInt64(&yieldPoints, int64(c.N))
				atomic.AddInt64(&subsetsRun, int64(c.Subsets))
				if c.Exhaustive {
					atomic.AddInt64(&exhaustiveCases, 1)
				}
				if c.N > 0 {
					atomic.AddInt64(&withYield, 1)
				}
				nat, ok := native[c.ID]
				if !ok {
					env.Rep.Violation(c.ID+"/native", "case missing from the native run (native end: "+want.End+")", files)
					continue
				}
				if nat != c.Trace {
					env.Rep.Violation(c.ID, fmt.Sprintf("no-suspension trace differs from native Go: want %q got %q", nat, c.Trace), files)
				}
			}
			mu.Lock()
			if len(samples) < 5 && len(res.Cases) > 3 {
				c := res.Cases[3]
				samples = append(samples, map[string]any{"case": c.ID, "dynamic_yield_points": c.N, "subsets_run": c.Subsets, "trace": c.Trace})
			}
			mu.Unlock()
			for _, v := range res.Violations {
				got := "<none>"
				if v.Got != nil {
					got = *v.Got
				}
				f := progFiles(p)
				f["replay.sh"] = fmt.Sprintf("#!/bin/sh\nD=\"$(cd \"$(dirname \"$0\")\" && pwd)\"\nexport GOFLAGS=-mod=mod GOPROXY=off GOSUMDB=off GOTOOLCHAIN=local GOPHERJS_SKIP_VERSION_CHECK=true\n\"${VCHECK:-/verif/bin/vcheck}\" build -dir \"$D/prog\" -o \"$D/prog/out.js\" >/dev/null && node /verif/js/c02.js \"$D/prog/out.js\" \"$D/prog/out.js\" %d quick /dev/null %d %d\n", susp.NCases(), v.C, v.Mask)
				env.Rep.Violation(fmt.Sprintf("%s/mask=%d", v.ID, v.Mask), fmt.Sprintf("%s: want %q got %q end=%s", v.Kind, v.Want, got, v.End), f)
			}
		}(p)
	}
	wg.Wait()
	cov := map[string]any{
		"evaluations":         executions,
		"distinct_nontrivial": withYield,
		"rule":                "case = (call kind x context) function; a dynamic call of verif.Y is a yield point; for a case with N yield points all 2^N-1 non-empty suspension subsets are executed when N <= 8 (quick) / 12 (thorough), otherwise all single (and pair) suspensions, the full set and two alternating patterns; every execution's trace must equal the no-suspension trace, which must equal the trace of the direct-form build (Y statically non-blocking) and of native Go; non-trivial = the case reached at least one yield point",
		"samples":             samples,
		"programs":            env.Programs,
		"cases":               cases,
		"dynamic_yield_points": yieldPoints,
		"suspension_subsets_executed": subsetsRun,
		"cases_with_all_subsets": exhaustiveCases,
		"gopherjs_builds":     env.Builds_,
		"exhaustive":          exhaustiveCases == cases && len(env.Harness) == 0,
		"harness_problems":    env.Harness,
	}
	ev := evid.Evidence{PropertyID: "C02", Tier: tier, Level: "exploration", Coverage: cov, Violations: env.Rep.Viol, KnownFindings: env.Rep.KnownList(),
		Assumptions: []string{"a suspension is produced by a real channel receive that blocks until a helper goroutine closes the channel; no other goroutine is runnable in between", "reference = native Go on the same source"}}
	if err := ev.Write(start); err != nil {
		return 3
	}
	fmt.Printf("C02 %s: programs=%d cases=%d yield_points=%d subsets=%d executions=%d violations=%d known=%d harness_problems=%d wall=%.1fs\n", tier, env.Programs, cases, yieldPoints, subsetsRun, executions, env.Rep.Viol, len(env.Rep.KnownList()), len(env.Harness), time.Since(start).Seconds())
	if env.Rep.Viol > 0 {
		env.Rep.Summary()
		return 1
	}
	if len(env.Harness) > 0 {
		return 3
	}
	return 0
}

func progFiles(p diffrun.Program) map[string]string {
	f := map[string]string{}
	for k, v := range p.Files {
		f["prog/"+k] = v
	}
	f["prog/go.mod"] = "module " + diffrun.ModName(p.Name) + "\n\ngo 1.20\n"
	return f
}
