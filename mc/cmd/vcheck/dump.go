package main

import (
	"fmt"
	"os"
	"path/filepath"

	"verif/mc/diffrun"
)

// programSets lets `vcheck dump Cxx dir` write the generated programs for inspection.
var programSets = map[string]func(thorough bool) []diffrun.Program{}

func dumpMain(args []string) int {
	if len(args) < 2 {
		fmt.Fprintln(os.Stderr, "usage: vcheck dump Cxx dir")
		return 2
	}
	f, ok := programSets[args[0]]
	if !ok {
		fmt.Fprintln(os.Stderr, "no program set for", args[0])
		return 2
	}
	for _, p := range f(false) {
		d := filepath.Join(args[1], p.Name)
		os.MkdirAll(d, 0o755)
		files := map[string]string{"go.mod": "module " + diffrun.ModName(p.Name) + "\n\ngo 1.20\n"}
		if !p.NoHelpers {
			files["h_js.go"], files["h_ref.go"], files["h_common.go"] = diffrun.HelperJS, diffrun.HelperRef, diffrun.HelperCommon
		}
		for k, v := range p.Files {
			files[k] = v
		}
		for k, v := range files {
			fp := filepath.Join(d, k)
			os.MkdirAll(filepath.Dir(fp), 0o755)
			os.WriteFile(fp, []byte(v), 0o644)
		}
	}
	return 0
}
