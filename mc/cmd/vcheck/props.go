package main

import (
	"fmt"
	"os"
	"sort"
	"time"

	"verif/mc/diffrun"
	"verif/mc/evid"
)

type propFn func(tier string) int

var props = map[string]propFn{}

func runProp(id string, args []string) int {
	fn, ok := props[id]
	if !ok {
		fmt.Fprintln(os.Stderr, "unknown property", id)
		return 2
	}
	tier := "quick"
	if len(args) > 0 {
		tier = args[0]
	}
	if t := os.Getenv("VERIF_TIER"); t != "" && len(args) == 0 {
		tier = t
	}
	return fn(tier)
}

// finishDiff writes the evidence for a differential (exploration) check and
// returns the process exit code.
func finishDiff(env *diffrun.Env, prop, tier string, start time.Time, rule string, assumptions []string, extra map[string]any) int {
	cov := map[string]any{
		"evaluations":         env.Compared,
		"distinct_nontrivial": env.NCases(),
		"rule":                rule,
		"samples":             env.Samples,
		"programs":            env.Programs,
		"gopherjs_builds":     env.Builds_,
		"js_executions":       env.Executions,
		"exhaustive":          len(env.Harness) == 0,
		"harness_problems":    env.Harness,
	}
	for k, v := range extra {
		cov[k] = v
	}
	known := env.Rep.KnownList()
	sort.Strings(known)
	ev := evid.Evidence{PropertyID: prop, Tier: tier, Level: "exploration", Coverage: cov, Assumptions: assumptions, Violations: env.Rep.Viol, KnownFindings: known}
	if err := ev.Write(start); err != nil {
		fmt.Fprintln(os.Stderr, "evidence:", err)
		return 3
	}
	fmt.Printf("%s %s: programs=%d builds=%d executions=%d cases=%d violations=%d known=%d harness_problems=%d wall=%.1fs\n",
		prop, tier, env.Programs, env.Builds_, env.Executions, env.NCases(), env.Rep.Viol, len(known), len(env.Harness), time.Since(start).Seconds())
	if env.Rep.Viol > 0 {
		env.Rep.Summary()
		return 1
	}
	if len(env.Harness) > 0 && env.OnlyDeadlines() {
		// deadlines of the harness were hit: those cases are not decided (exhaustive=false in the evidence), nothing is wrong
		fmt.Printf("%s %s: %d cases hit a harness deadline and were not decided\n", prop, tier, len(env.Harness))
		return 0
	}
	if len(env.Harness) > 0 {
		// harness-level trouble is not a property violation; fail loudly but distinctly
		return 3
	}
	return 0
}

func max(a, b int) int {
	if a > b {
		return a
	}
	return b
}
