package main

import (
	"time"

	"verif/mc/diffrun"
	"verif/mc/gen/panics"
)

func c08Programs(thorough bool) []diffrun.Program {
	ps := panics.UnwindPrograms(thorough, "")
	ps = append(ps, panics.OpsProgram())
	ps = append(ps, panics.EndPrograms()...)
	return ps
}

func init() { props["C08"] = c08; programSets["C08"] = c08Programs }

func c08(tier string) int {
	start := time.Now()
	env, err := diffrun.NewEnv("C08")
	if err != nil {
		panic(err)
	}
	defer env.Close()
	env.CheckAll(c08Programs(tier == "thorough"), []diffrun.Variant{diffrun.Plain, diffrun.Minified})
	return finishDiff(env, "C08", tier, start,
		"(P) every panicking operation of the statement x operand values on both sides of the trigger x position in a traced statement sequence (index/slice expressions on slices, arrays, array pointers and strings incl. stores, op-assign, tuple assignment; nil map/pointer/func/interface uses; division by zero per type; type assertions; uncomparable interface comparisons; make; slice-to-array conversions; channel errors; explicit panic values); (D) ALL unwinding trees of depth <= 2 (quick) / 3 (thorough): each frame has 0-2 deferred actions from {trace, recover, recover one call deeper, recover in a nested closure, re-panic, panic new, modify named result, Goexit, recover-and-set, recover twice} and a body from {return, panic, custom error panic, run-time error, call child, Goexit}, run in a fresh goroutine; (S) 30 static defer/recover forms; (E) 11 whole-program endings; vs native Go",
		[]string{"reference = native Go on the same source", "panic messages are compared by class (text up to the first detail), as the property names classes"},
		nil)
}
