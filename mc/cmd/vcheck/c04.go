package main

import (
	"time"

	"verif/mc/diffrun"
	"verif/mc/gen/generic"
)

func init() { props["C04"] = c04; programSets["C04"] = func(bool) []diffrun.Program { return []diffrun.Program{generic.Program()} } }

func c04(tier string) int {
	start := time.Now()
	env, err := diffrun.NewEnv("C04")
	if err != nil {
		panic(err)
	}
	defer env.Close()
	env.CheckAll(append([]diffrun.Program{generic.Program()}, generic.SmallPrograms()...), []diffrun.Variant{diffrun.Plain, diffrun.Minified, diffrun.AllAlive})
	return finishDiff(env, "C04", tier, start,
		"24 type arguments (all numeric widths, float32/64, complex, string, bool, struct, pointer, slice, array, map, other instances incl. nested ones, named int with methods, interface, types and instances from two other packages, channel, func, unnamed struct) x generic definition shapes (functions, types with value/pointer methods, methods returning other instances, generic calling generic, mutual recursion, types local to generic functions with one and two parameters built by positional and keyed literals, closures, defers, channels, variadics, map keys, constraints with core types, methods through constraints, per-instance blocking bodies) x probes (zero values in six forms, dynamic type of results, conversions and arithmetic at the instantiated width, shifts, method dispatch, equality and identity of all pairs of 38 instantiated values, use as map keys, same instantiation created in different packages); plain, minified and all-alive links vs native Go",
		[]string{"reference = native Go on the same source"},
		nil)
}
