package main

import (
	"bufio"
	"encoding/json"
	"fmt"
	"os"
	"os/exec"
	"path/filepath"
	"regexp"
	"runtime"
	"strings"
	"time"

	"github.com/gopherjs/gopherjs/build/cache"
	"github.com/gopherjs/gopherjs/compiler/sources"

	"verif/mc/evid"
	"verif/mc/native/cachex"
)

func init() { props["C20"] = c20 }

func cacheRootOf(xdg string) string { return filepath.Join(xdg, "gopherjs", "build_cache") }

// c20WorkerMain runs inside a child whose XDG_CACHE_HOME is a scratch directory.
func c20WorkerMain(args []string) int {
	xdg := os.Getenv("XDG_CACHE_HOME")
	if xdg == "" || !strings.Contains(xdg, "verif-C20") {
		fmt.Fprintln(os.Stderr, "c20worker must run with a scratch XDG_CACHE_HOME")
		return 2
	}
	switch args[0] {
	case "inproc":
		r := cachex.RunAll(cacheRootOf(xdg), len(args) > 1 && args[1] == "thorough")
		json.NewEncoder(os.Stdout).Encode(r)
		return 0
	case "store":
		// args[1] = version ("old" or "new")
		runtime.LockOSThread()
		texts := cachex.Corpus()["kitchen"]
		if args[1] == "old" {
			texts = cachex.Corpus()["generic"]
		}
		s, err := cachex.ParseSources("corp/crash", texts)
		if err != nil {
			return 2
		}
		bc := &cache.BuildCache{GOOS: "js", GOARCH: "ecmascript", GOROOT: "/goroot", GOPATH: "/gopath", Version: "v1"}
		os.Mkdir(filepath.Join(xdg, "MARK"), 0o755) // marker syscall: everything after it belongs to Store
		ok := bc.Store(s, "corp/crash", time.Now())
		os.Mkdir(filepath.Join(xdg, "MARKEND"), 0o755)
		if !ok {
			return 1
		}
		return 0
	case "load":
		bc := &cache.BuildCache{GOOS: "js", GOARCH: "ecmascript", GOROOT: "/goroot", GOPATH: "/gopath", Version: "v1"}
		got := &sources.Sources{}
		res := "miss"
		func() {
			defer func() {
				if e := recover(); e != nil {
					res = fmt.Sprintf("PANIC: %v", e)
				}
			}()
			if bc.Load(got, "corp/crash", time.Now().Add(-time.Hour)) {
				newS, _ := cachex.ParseSources("corp/crash", cachex.Corpus()["kitchen"])
				oldS, _ := cachex.ParseSources("corp/crash", cachex.Corpus()["generic"])
				switch cachex.Dump(got) {
				case cachex.Dump(newS):
					res = "hit-new"
				case cachex.Dump(oldS):
					res = "hit-old"
				default:
					res = "hit-OTHER"
				}
			}
		}()
		fmt.Println(res)
		return 0
	}
	return 2
}

var reStrace = regexp.MustCompile(`^(\d+)\s+([a-z0-9_]+)\(`)

func c20(tier string) int {
	start := time.Now()
	rep := evid.NewReporter("C20")
	exe, _ := os.Executable()
	tmp, err := os.MkdirTemp("", "verif-C20-")
	if err != nil {
		panic(err)
	}
	defer os.RemoveAll(tmp)
	harness := 0
	runWorker := func(xdg string, args ...string) (string, int) {
		cmd := exec.Command(exe, append([]string{"c20worker"}, args...)...)
		cmd.Env = append(os.Environ(), "XDG_CACHE_HOME="+xdg, "GOMAXPROCS=1")
		out, err := cmd.Output()
		code := 0
		if err != nil {
			if ee, ok := err.(*exec.ExitError); ok {
				code = ee.ExitCode()
			} else {
				code = -1
			}
		}
		return string(out), code
	}
	// layers 1-3 in one worker
	xdg := filepath.Join(tmp, "inproc")
	os.MkdirAll(xdg, 0o755)
	out, code := runWorker(xdg, "inproc", tier)
	var r cachex.Result
	if code != 0 || json.Unmarshal([]byte(out), &r) != nil {
		fmt.Fprintln(os.Stderr, "HARNESS: c20 in-process worker failed:", code, out)
		harness++
	}
	for _, v := range r.Violations {
		id := v
		if i := indexByte(v, ' '); i > 0 {
			id = v[:i]
		}
		rep.Violation(id, v, map[string]string{"case.txt": v + "\n"})
	}
	// layer 4: crash points (process kill at every syscall of Store, unmodified code, via strace injection)
	crashPoints, crashOutcomes := 0, map[string]int{}
	for _, withOld := range []bool{false, true} {
		xdg := filepath.Join(tmp, fmt.Sprintf("dry%v", withOld))
		os.MkdirAll(xdg, 0o755)
		if withOld {
			runWorker(xdg, "store", "old")
			os.Remove(filepath.Join(xdg, "MARK"))
			os.Remove(filepath.Join(xdg, "MARKEND"))
		}
		logf := filepath.Join(tmp, "strace.log")
		cmd := exec.Command("strace", "-f", "-o", logf, "-e", "trace=file,desc", exe, "c20worker", "store", "new")
		cmd.Env = append(os.Environ(), "XDG_CACHE_HOME="+xdg, "GOMAXPROCS=1")
		if err := cmd.Run(); err != nil {
			fmt.Fprintln(os.Stderr, "HARNESS: strace dry run failed:", err)
			harness++
			continue
		}
		f, _ := os.Open(logf)
		sc := bufio.NewScanner(f)
		sc.Buffer(make([]byte, 1<<20), 1<<20)
		counts := map[string]int{}
		type kp struct {
			call string
			n    int
		}
		var points []kp
		mainPid := ""
		in := false
		for sc.Scan() {
			m := reStrace.FindStringSubmatch(sc.Text())
			if m == nil {
				continue
			}
			if mainPid == "" {
				mainPid = m[1]
			}
			if m[1] != mainPid {
				continue
			}
			counts[m[2]]++
			if strings.Contains(sc.Text(), "MARKEND") {
				in = false
			}
			if in {
				points = append(points, kp{m[2], counts[m[2]]})
			}
			if strings.Contains(sc.Text(), "/MARK\"") {
				in = true
			}
		}
		f.Close()
		if len(points) < 5 {
			fmt.Fprintln(os.Stderr, "HARNESS: too few syscalls found in the Store window:", len(points))
			harness++
			continue
		}
		for i, p := range points {
			crashPoints++
			x := filepath.Join(tmp, fmt.Sprintf("kill%v-%d", withOld, i))
			os.MkdirAll(x, 0o755)
			if withOld {
				runWorker(x, "store", "old")
				os.Remove(filepath.Join(x, "MARK"))
				os.Remove(filepath.Join(x, "MARKEND"))
			}
			cmd := exec.Command("strace", "-f", "-o", "/dev/null", "-e", "trace="+p.call, "-e", fmt.Sprintf("inject=%s:signal=SIGKILL:when=%d", p.call, p.n), exe, "c20worker", "store", "new")
			cmd.Env = append(os.Environ(), "XDG_CACHE_HOME="+x, "GOMAXPROCS=1")
			cmd.Run() // killed
			res, code := runWorker(x, "load")
			res = strings.TrimSpace(res)
			crashOutcomes[res]++
			id := fmt.Sprintf("C20/crash/old=%v/kill=%s#%d", withOld, p.call, p.n)
			ok := res == "miss" || res == "hit-new" || (withOld && res == "hit-old")
			if code != 0 || !ok {
				rep.Violation(id, fmt.Sprintf("after a kill at the %d-th %s of Store a fresh process sees %q (exit %d); allowed: miss, the complete new entry%s", p.n, p.call, res, code, map[bool]string{true: ", the complete previous entry", false: ""}[withOld]), nil)
			}
			// which files a killed Store leaves behind is not part of the property: only what Load makes of them is
			os.RemoveAll(x)
		}
	}
	samples := []any{}
	for _, s := range r.Samples {
		samples = append(samples, s)
	}
	samples = append(samples, fmt.Sprintf("crash points: %d kills (every file/descriptor syscall of Store, with and without a previous entry); outcomes seen by a fresh process: %v", crashPoints, crashOutcomes))
	cov := map[string]any{
		"evaluations":         r.Evaluations + crashPoints,
		"distinct_nontrivial": r.Nontrivial + crashPoints,
		"rule":                "(1) transparency: node-kind-complete import-free corpus stored and loaded, plus one file per comment position (21: package/import/func/type/field/const/var/local-declaration doc comments, trailing comments, floating comments at top level, inside bodies, inside function literals, at the end of the file) carrying the go:linkname directive there; identical declaration code and linkname table from the real compile pipeline (or the same rejection), plain and minified; (2) isolation: store under one build configuration, load under every configuration of the product {GOOS,GOARCH,GOROOT,GOPATH,Version} x 8 tag-list spellings: hit only for the same configuration; side-by-side storage; import-path pairs; 5x5 (buildTime, srcModTime) grid; tested-package table (tested paths that themselves end in _test); (3) damage: entries of 64 KiB / 1 MiB +-1 / 3 MiB decompressed size (compressible and incompressible): flips at 24 spread offsets and in each of the last 12 bytes (deflate end, CRC32, ISIZE), 13 truncations; EVERY truncation length, zero-filled power-loss tails and single-byte flips (3 masks, stride 3 quick / 1 thorough) of two stored entries: outcome must be a miss or a hit with identical contents; (4) crash points: SIGKILL injected with strace at every file/descriptor syscall of the unmodified Store (with and without a previous entry), then a fresh process loads",
		"samples":             samples,
		"damage_outcomes":     r.Counts,
		"crash_points":        crashPoints,
		"crash_outcomes":      crashOutcomes,
		"exhaustive":          harness == 0,
	}
	ev := evid.Evidence{PropertyID: "C20", Tier: tier, Level: "fault_enumeration", Coverage: cov, Violations: rep.Viol, KnownFindings: rep.KnownList(),
		Assumptions: []string{"the build cache is exercised through its component API (BuildCache.Store/Load with sources.Sources), because the session currently disables the default cache", "a crash is a process kill between two system calls; torn writes inside one write(2) are represented by the truncation and zero-tail enumeration of the final file", "the main thread is locked so that strace's per-thread syscall counters are deterministic"}}
	if err := ev.Write(start); err != nil {
		return 3
	}
	fmt.Printf("C20 %s: evaluations=%d damage=%v crash_points=%d crash_outcomes=%v violations=%d known=%d wall=%.1fs\n", tier, r.Evaluations, r.Counts, crashPoints, crashOutcomes, rep.Viol, len(rep.KnownList()), time.Since(start).Seconds())
	if rep.Viol > 0 {
		rep.Summary()
		return 1
	}
	if harness > 0 {
		return 3
	}
	return 0
}
