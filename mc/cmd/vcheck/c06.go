package main

import (
	"time"

	"verif/mc/diffrun"
	"verif/mc/gen/num"
)

func init() { props["C06"] = c06; programSets["C06"] = num.Programs }

func c06(tier string) int {
	start := time.Now()
	env, err := diffrun.NewEnv("C06")
	if err != nil {
		panic(err)
	}
	defer env.Close()
	progs := num.Programs(tier == "thorough")
	env.CheckAll(progs, []diffrun.Variant{diffrun.Plain})
	return finishDiff(env, "C06", tier, start,
		"one explorer program per numeric type: every (type, operator, operand shape) over all 8-bit values / the boundary grid squared, one digest line per row; float constants: 16 literals as typed float32 / float64 / complex64 constant operands, stored, widened, compared with and combined with the same value converted at run time, passed, returned and inside composite literals; a case = one digest line (type/op/shape/row); compared with the native Go toolchain running the same source",
		[]string{"reference = go1.23.5 native build of the same generated source (go 1.20 language level)", "int/uint/uintptr compared as 32-bit via type aliases", "values outside the boundary grids for types wider than 8 bits are not explored"},
		nil)
}
