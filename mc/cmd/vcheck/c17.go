package main

import (
	"fmt"
	"os"
	"path/filepath"
	"sort"
	"strings"
	"sync"
	"time"

	"verif/mc/diffrun"
	"verif/mc/evid"
	"verif/mc/gen/dcex"
	"verif/mc/gen/generic"
	"verif/mc/gen/repro"
	"verif/mc/gjs"
	"verif/mc/pool"
)

func init() { props["C17"] = c17 }

func permutations(xs []string) [][]string {
	if len(xs) <= 1 {
		return [][]string{append([]string{}, xs...)}
	}
	var res [][]string
	for i := range xs {
		rest := append(append([]string{}, xs[:i]...), xs[i+1:]...)
		for _, p := range permutations(rest) {
			res = append(res, append([]string{xs[i]}, p...))
		}
	}
	return res
}

func c17(tier string) int {
	start := time.Now()
	thorough := tier == "thorough"
	env, err := diffrun.NewEnv("C17")
	if err != nil {
		panic(err)
	}
	defer env.Close()
	rep := env.Rep
	exe := filepath.Join(evid.OutRoot(), "bin", "vcheck-mapiter")
	if _, err := os.Stat(exe); err != nil {
		fmt.Fprintln(os.Stderr, "HARNESS: bin/vcheck-mapiter missing (built by ./check with the runtime/map.go overlay)")
		return 3
	}
	ks := []int{0, 1, 3, 6}
	if thorough {
		ks = []int{0, 1, 2, 3, 4, 5, 6, 7, 9, 13, 18, 27, 36, 45, 54, 63}
	}
	pools := map[int]*pool.Pool{}
	for _, k := range ks {
		p := pool.New(4)
		p.Timeout = 20 * time.Minute // a deadline of the harness, never an oracle: a build that hits it is reported as not decided
		p.Exe = exe
		p.Env = []string{fmt.Sprintf("VERIF_MAPITER=%d", k)}
		pools[k] = p
		defer p.Close()
	}
	progs := []diffrun.Program{repro.Program(), generic.Program(), dcex.Program(), repro.OrderProgram(), repro.LineProgram(), repro.PackagesProgram()}
	// the corpus of the other families: every program built in fresh processes under different map iteration starts
	corp := corpus(thorough)
	inCorpus := map[string]bool{}
	for _, p := range corp {
		// the name is kept: it is also the module path the program's own imports use
		inCorpus[p.Name] = true
		progs = append(progs, p)
	}
	dirs := map[string]string{}
	for _, p := range progs {
		d, err := env.WriteProgram(p)
		if err != nil {
			panic(err)
		}
		dirs[p.Name] = d
	}
	type key struct {
		prog, mode string
		minify, mp bool
	}
	var mu sync.Mutex
	hashes := map[key]map[string][]string{} // key -> hash -> variant descriptions
	builds := 0
	var wg sync.WaitGroup
	sem := make(chan struct{}, 16)
	run := func(k key, desc string, mapiter int, req gjs.Request) {
		wg.Add(1)
		sem <- struct{}{}
		go func() {
			defer wg.Done()
			defer func() { <-sem }()
			req.Minify, req.Map, req.Hash = k.minify, k.mp, true
			res := pools[mapiter].Build(req)
			mu.Lock()
			defer mu.Unlock()
			builds++
			if !res.OK && (res.Class == "timeout" || res.Class == "harness") {
				env.HarnessMsg(fmt.Sprintf("C17 build %s %s [mapiter=%d] not decided: %s", k.prog, desc, mapiter, res.Err))
				return
			}
			if !res.OK {
				rep.Violation(fmt.Sprintf("C17/%s/%s/min=%v/map=%v/build/%s", k.prog, k.mode, k.minify, k.mp, desc), "build fails: "+res.Err, nil)
				return
			}
			h := res.HashJS + "+" + res.HashMap
			if hashes[k] == nil {
				hashes[k] = map[string][]string{}
			}
			hashes[k][h] = append(hashes[k][h], fmt.Sprintf("%s[mapiter=%d]", desc, mapiter))
		}()
	}
	n := 0
	for _, p := range progs {
		dir := dirs[p.Name]
		if inCorpus[p.Name] {
			for _, minify := range []bool{false, true} {
				if minify && !thorough {
					continue
				}
				kd := key{p.Name, "dir", minify, minify}
				cks := []int{0, 3}
				if thorough {
					cks = []int{0, 1, 3, 6}
				}
				for _, k := range cks {
					n++
					run(kd, "fresh", k, gjs.Request{Dir: dir, Out: filepath.Join(dir, fmt.Sprintf("b%d", n), "out.js")})
				}
			}
			continue
		}
		for _, minify := range []bool{false, true} {
			for _, mp := range []bool{false, true} {
				if !thorough && minify && mp && p.Name != "c17_files" {
					continue
				}
				if !thorough && minify != mp && (p.Name == "c17_order" || p.Name == "c17_line" || p.Name == "c17_pkgs") {
					continue
				}
				kd := key{p.Name, "dir", minify, mp}
				for _, k := range ks {
					n++
					run(kd, "fresh", k, gjs.Request{Dir: dir, Out: filepath.Join(dir, fmt.Sprintf("b%d", n), "out.js")})
					n++
					run(kd, "twice-in-one-session", k, gjs.Request{Dir: dir, Out: filepath.Join(dir, fmt.Sprintf("b%d", n), "out.js"), Twice: true})
					for _, other := range progs[:4] {
						if other.Name == p.Name || p.Name == "c17_line" {
							continue
						}
						n++
						run(kd, "after-"+other.Name, k, gjs.Request{Dir: dir, Out: filepath.Join(dir, fmt.Sprintf("b%d", n), "out.js"), Prior: []string{dirs[other.Name]}})
					}
				}
				if p.Name == "c17_line" {
					// all 24 orders of four files that carry the same //line directive
					kf := key{p.Name, "files", minify, mp}
					for pi, perm := range permutations(repro.LineFiles()) {
						files := append(append([]string{}, perm...), "h_js.go", "h_common.go")
						n++
						run(kf, "order="+strings.Join(perm, ","), ks[pi%len(ks)], gjs.Request{Dir: dir, Out: filepath.Join(dir, fmt.Sprintf("out%d", n), "out.js"), Files: files})
					}
				}
				if p.Name == "c17_files" {
					kf := key{p.Name, "files", minify, mp}
					perms := permutations(repro.MainFiles()[:4])
					for pi, perm := range perms {
						if !thorough && pi%4 != 0 && pi != len(perms)-1 {
							continue
						}
						files := append(append([]string{}, perm...), "h_js.go", "h_common.go")
						if pi%2 == 1 {
							files = append([]string{"h_common.go", "h_js.go"}, perm...)
						}
						for _, k := range ks {
							n++
							run(kf, "order="+strings.Join(perm, ","), k, gjs.Request{Dir: dir, Out: filepath.Join(dir, fmt.Sprintf("out%d", n), "out.js"), Files: files})
						}
					}
				}
			}
		}
	}
	wg.Wait()
	groups, distinctGroups := 0, 0
	var samples []any
	var keys []key
	for k := range hashes {
		keys = append(keys, k)
	}
	sort.Slice(keys, func(i, j int) bool { return fmt.Sprint(keys[i]) < fmt.Sprint(keys[j]) })
	for _, k := range keys {
		hs := hashes[k]
		groups++
		total := 0
		for _, v := range hs {
			total += len(v)
		}
		if len(hs) > 1 {
			distinctGroups++
			var desc []string
			for h, v := range hs {
				sort.Strings(v)
				show := v
				if len(show) > 4 {
					show = show[:4]
				}
				desc = append(desc, fmt.Sprintf("%s...: %d builds e.g. %v", h[:12], len(v), show))
			}
			sort.Strings(desc)
			rep.Violation(fmt.Sprintf("C17/%s/%s/min=%v/map=%v", k.prog, k.mode, k.minify, k.mp), fmt.Sprintf("%d different outputs among %d builds of the same sources with the same options: %s", len(hs), total, strings.Join(desc, " | ")), nil)
		}
		if len(samples) < 6 {
			for h := range hs {
				samples = append(samples, fmt.Sprintf("%s %s minify=%v map=%v: %d builds -> sha256 %s...", k.prog, k.mode, k.minify, k.mp, total, h[:16]))
				break
			}
		}
	}
	cov := map[string]any{
		"evaluations":         builds,
		"distinct_nontrivial": groups,
		"rule":                "programs: the four-file program (closures, generic instances, anonymous types, linknames, a two-file dependency), the generics and reachability programs, an order program (closures in every clause of a type switch in a loop, escaping variables at several depths, a dozen anonymous types, 13+5 generic instances, a flattened function with labels and select, cross-package initialisers, five standard imports), a package whose four files carry the same //line directive (all 24 listing orders), a 16-package program (generic code instantiated from four packages that do not import each other; values of types from nine packages the importer never imports), and the corpus of the other families (each program built in fresh processes under 2 [4] map iteration starts); group = (program, build mode, minify, source map); builds within a group vary the compiler-side map iteration start (runtime/map.go overlay, VERIF_MAPITER in the list below, hash seed fixed), the session history (fresh session, the same package built twice in one session, after building each other program in the same session), and - for the four-file package - the order in which the files are listed (permutations of the four files, helper files before or after), all in separate worker processes; the sha256 of the JavaScript and of the source map must be identical within a group",
		"samples":             samples,
		"groups":              groups,
		"map_iteration_starts": ks,
		"exhaustive":          len(env.Harness) == 0,
	}
	ev := evid.Evidence{PropertyID: "C17", Tier: tier, Level: "exploration", Coverage: cov, Violations: rep.Viol, KnownFindings: rep.KnownList(),
		Assumptions: []string{"map iteration order inside the compiler is owned through the runtime/map.go overlay: for maps of up to 8 entries the starts 0..7 produce every rotation; larger maps get the listed (bucket, offset) starts with a fixed hash seed", "process-level nondeterminism beyond these seams (addresses, clock) is only probed by the separate worker processes, not enumerated"}}
	if err := ev.Write(start); err != nil {
		return 3
	}
	fmt.Printf("C17 %s: builds=%d groups=%d groups_with_differences=%d violations=%d known=%d wall=%.1fs\n", tier, builds, groups, distinctGroups, rep.Viol, len(rep.KnownList()), time.Since(start).Seconds())
	if rep.Viol > 0 {
		rep.Summary()
		return 1
	}
	if len(env.Harness) > 0 {
		fmt.Printf("C17 %s: %d builds hit the harness deadline and were not decided (exhaustive=false)\n", tier, len(env.Harness))
	}
	return 0
}
