package main

import (
	"strings"
	"time"

	"verif/mc/diffrun"
	"verif/mc/gen/mathx"
	"verif/mc/native/nosyncx"
)

func init() {
	props["C13"] = c13
	programSets["C13"] = func(t bool) []diffrun.Program { return mathx.Programs(t, "") }
}

func c13(tier string) int {
	start := time.Now()
	env, err := diffrun.NewEnv("C13")
	if err != nil {
		panic(err)
	}
	defer env.Close()
	env.CheckAll(mathx.Programs(tier == "thorough", ""), []diffrun.Variant{diffrun.Plain})
	depth := 6
	if tier == "thorough" {
		depth = 9
	}
	st, viols := nosyncx.Run(depth)
	for _, v := range viols {
		id := "C13/nosync/" + v.Prim + "/" + strings.Join(v.History, ",")
		env.Rep.Violation(id, v.What, map[string]string{"history.txt": v.Prim + ": " + strings.Join(v.History, ", ") + "\n" + v.What + "\n"})
	}
	return finishDiff(env, "C13", tier, start,
		"(a) explorer programs vs native Go: math rounding/sign/bit-pattern/remainder/scaling/decomposition/classification functions bit-exact over a 66-value special grid (squared for binary functions), transcendental functions by result class on documented special cases; math/bits every function (8- and 16-bit exhaustive, 32/64-bit on boundary grids squared incl. Div panics); unicode case mapping and classification for every rune -4096..0x110fff; sync/atomic all histories up to depth 2 (quick) / 3 (thorough) over {Load, Store, Add, Swap, CompareAndSwap} x 5-6 boundary values for the function families and typed wrappers, Pointer/Bool/Value; (b) nosync: explicit-state BFS over operation histories (depth 6 quick / 9 thorough) of Mutex, RWMutex, WaitGroup, Once, Map, Pool with a contract model and the real sync primitives executed in lock-step",
		[]string{"reference = native Go 1.23.5 standard library (the same GOROOT sources the overlays augment)", "transcendental results are compared by class only (bit-exactness is not claimed by the property)", "sync primitives' fatal misuse (unlock of unlocked mutex) is not executed on the real primitive"},
		map[string]any{"nosync_states": st.States, "nosync_transitions": st.Transitions, "nosync_states_per_primitive": st.PerPrim, "nosync_sample_histories": st.Samples})
}
