package main

import (
	"fmt"
	"os"
	"strings"
	"time"

	"verif/mc/evid"
	"verif/mc/native/overlayx"
)

func init() { props["C12"] = c12 }

func c12(tier string) int {
	start := time.Now()
	rep := evid.NewReporter("C12")
	maxOrig, maxActs := 3, 2
	if tier == "thorough" {
		maxOrig = 4
	}
	r := overlayx.Run(maxOrig, maxActs)
	if f := os.Getenv("VERIF_C12_DUMP"); f != "" {
		os.WriteFile(f, []byte(strings.Join(r.Violations, "\n=====\n")), 0o644)
	}
	for _, v := range r.Violations {
		parts := strings.SplitN(v, "\x00", 2)
		first := parts[1]
		if i := strings.Index(first, "\n--- original"); i >= 0 {
			first = first[:i]
		}
		rep.Violation(parts[0], first, map[string]string{"case.txt": parts[0] + "\n" + parts[1] + "\n"})
	}
	samples := []any{}
	for _, s := range r.Samples {
		samples = append(samples, s)
	}
	if len(samples) == 0 {
		samples = append(samples, "none")
	}
	cov := map[string]any{
		"evaluations":         r.Pairs,
		"distinct_nontrivial": r.Nontrivial,
		"rule":                "pair = (subset of <= N original declarations from a 15-shape alphabet: functions, value/pointer/generic-receiver methods, single and grouped types, generic type, single/multi-name/multi-value-from-one-call/valueless variables, single constants, iota groups with implicit repetition; imports used by kept and by removable code, unsafe) x (every overlay action - plain override, keep-original, purge on declaration and on a spec inside a group, override-signature - on <= 2 of the declared names, with and without a brand-new overlay symbol); merged by the real augmentOverlayFile/augmentOriginalImports/augmentOriginalFile sequence (verif hook), pretty-printed, re-parsed and type-checked; compared with a declaration-multiset model of doc/pargma.md (which side survives, under which name and signature), values of untouched constants, relative order of untouched declarations, kept imports; non-trivial = at least one overlay action",
		"samples":             samples,
		"max_original_decls":  maxOrig,
		"max_overlay_actions": maxActs,
		"exhaustive":          true,
	}
	ev := evid.Evidence{PropertyID: "C12", Tier: tier, Level: "exploration", Coverage: cov, Violations: rep.Viol, KnownFindings: rep.KnownList(),
		Assumptions: []string{"the verif hook build.VerifAugment mirrors the four steps of parseAndAugment on already parsed files", "go/types and go/printer are trusted", "inconsistent inputs (an overlay that purges a type but keeps overriding its methods) are not generated"}}
	if err := ev.Write(start); err != nil {
		return 3
	}
	fmt.Printf("C12 %s: pairs=%d nontrivial=%d violations=%d known=%d wall=%.1fs\n", tier, r.Pairs, r.Nontrivial, rep.Viol, len(rep.KnownList()), time.Since(start).Seconds())
	if rep.Viol > 0 {
		rep.Summary()
		return 1
	}
	return 0
}
