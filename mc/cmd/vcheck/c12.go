package main

import (
	"fmt"
	"os"
	"strings"
	"time"

	"verif/mc/evid"
	"verif/mc/native/overlayx"
)

func init() { props["C12"] = c12 }

func c12(tier string) int {
	start := time.Now()
	rep := evid.NewReporter("C12")
	maxOrig, maxActs, topActs := 3, 2, 1
	if os.Getenv("VERIF_C12_SMALL") != "" {
		maxOrig, maxActs, topActs = 1, 2, 2
	}
	if tier == "thorough" {
		topActs = 2
	}
	r := overlayx.Run(maxOrig, maxActs, topActs)
	if f := os.Getenv("VERIF_C12_DUMP"); f != "" {
		os.WriteFile(f, []byte(strings.Join(r.Violations, "\n=====\n")), 0o644)
	}
	for _, v := range r.Violations {
		parts := strings.SplitN(v, "\x00", 2)
		first := parts[1]
		if i := strings.Index(first, "\n--- original"); i >= 0 {
			first = first[:i]
		}
		rep.Violation(parts[0], first, map[string]string{"case.txt": parts[0] + "\n" + parts[1] + "\n"})
	}
	samples := []any{}
	for _, s := range r.Samples {
		samples = append(samples, s)
	}
	if len(samples) == 0 {
		samples = append(samples, "none")
	}
	cov := map[string]any{
		"evaluations":         r.Pairs,
		"distinct_nontrivial": r.Nontrivial,
		"rule":                "pair = (subset of <= N original declarations from a 19-shape alphabet: functions (one whose only use of an import is its signature), value/pointer/generic-receiver methods, a method named init, a package init function, single and grouped types, generic type, single/multi-name/multi-value-from-one-call/valueless variables, single constants, iota groups with implicit repetition and with an iota-free spec in the middle; imports used by kept and by removable code, unsafe, a blank and a dot import) x (every overlay action - plain override, keep-original, purge on the declaration and on a spec inside a group (types, variables, constants), override-signature - on <= 2 of the declared names; sets of N declarations get <= top_actions) x layout (all originals in one file / one file per declaration) x (with/without a brand-new overlay symbol) x (normal / test build with an overlay _test.go file); every pair is merged by the REAL parseAndAugment: overlay sources served through natives.FS (hook natives.VerifSetFS), original sources through the package's build context (hook build.VerifParseAndAugment); the merged files are pretty-printed, re-parsed and type-checked and compared with a declaration-multiset model of doc/pargma.md (which side survives, how often, under which name and signature), values of untouched constants, relative order of untouched declarations, kept imports, number of files, .inc.js discovery; plus the sync->nosync import redirection for every listed and ten unlisted import paths x 3 import forms x overlay with/without an override; non-trivial = at least one overlay action",
		"samples":             samples,
		"max_original_decls":  maxOrig,
		"max_overlay_actions": maxActs,
		"top_actions":         topActs,
		"exhaustive":          true,
	}
	ev := evid.Evidence{PropertyID: "C12", Tier: tier, Level: "exploration", Coverage: cov, Violations: rep.Viol, KnownFindings: rep.KnownList(),
		Assumptions: []string{"the verif hooks only substitute the two file sources of parseAndAugment (natives.FS contents; an in-memory OpenFile for the originals)", "go/types and go/printer are trusted", "inconsistent inputs (an overlay that purges a type but keeps overriding its methods) are not generated"}}
	if err := ev.Write(start); err != nil {
		return 3
	}
	fmt.Printf("C12 %s: pairs=%d nontrivial=%d violations=%d known=%d wall=%.1fs\n", tier, r.Pairs, r.Nontrivial, rep.Viol, len(rep.KnownList()), time.Since(start).Seconds())
	if rep.Viol > 0 {
		rep.Summary()
		return 1
	}
	return 0
}
