package main

import (
	"time"

	"verif/mc/diffrun"
	"verif/mc/gen/alias"
	"verif/mc/gen/dcex"
	"verif/mc/gen/dyn"
	"verif/mc/gen/mapk"
	"verif/mc/gen/mathx"
	"verif/mc/gen/num"
	"verif/mc/gen/panics"
	"verif/mc/gen/str"
)

func init() { props["C05"] = c05; programSets["C05"] = func(bool) []diffrun.Program { return []diffrun.Program{dcex.Program()} } }

// corpus returns the programs of the other families (one representative batch per family in quick).
func corpus(thorough bool) []diffrun.Program {
	var ps []diffrun.Program
	take := func(all []diffrun.Program, quickN int) {
		if thorough || quickN >= len(all) {
			ps = append(ps, all...)
			return
		}
		// spread the picks over the family
		for i := 0; i < quickN; i++ {
			ps = append(ps, all[i*len(all)/quickN])
		}
	}
	take(alias.Programs(false), 6)
	take(dyn.Programs(), 4)
	take(panics.UnwindPrograms(false, ""), 1)
	take([]diffrun.Program{panics.OpsProgram()}, 1)
	take(panics.EndPrograms(), 4)
	take(mapk.Programs(false, ""), 3)
	take(num.Programs(false), 3)
	take(mathx.Programs(false, ""), 3)
	take(str.Programs(3), 2)
	for i := range ps {
		ps[i].Detail = nil
	}
	return ps
}

func c05(tier string) int {
	start := time.Now()
	env, err := diffrun.NewEnv("C05")
	if err != nil {
		panic(err)
	}
	defer env.Close()
	// the path program is also compared with native Go; for the corpus the all-alive link is the reference
	env.CheckAll(append([]diffrun.Program{dcex.Program(), dcex.PanicInitProgram(), dcex.InitFormsProgram(), dcex.LinkChainProgram(), dcex.MarkerProgram()}, dcex.MorePanicInit()...), []diffrun.Variant{diffrun.Plain, diffrun.AllAlive})
	env.CheckAllAgainstVariant(corpus(tier == "thorough"), diffrun.AllAlive, []diffrun.Variant{diffrun.Plain})
	return finishDiff(env, "C05", tier, start,
		"every program is linked twice from the same archives - with dead-code elimination and with every declaration forced alive - and both runs must equal native Go: (a) the reachability-path program (things needed at run time but reachable only through one path: interface calls, interfaces with unexported methods from another package, method values, method expressions on values / pointers / interfaces, promotion through value / pointer / interface embedding to depth 2, generic call chains, methods of generic instances whose signatures mention other instances, byte vs uint8 instantiations, types local to (generic) functions, types used only in assertions / type switches / map keys / comparisons, package variable initialisers with side effects in every form (single, blank, multi-name, comma-ok, conversion), init functions, go:linkname targets for functions and value / pointer methods across three packages); the initialiser-forms program: 41 expression forms (calls in every operand position, append / copy writing through their arguments, receives, method values and expressions, generic calls, conversions, composite literals, logical operators) and 12 multi-name / comma-ok / blank declaration forms as initialisers of variables nothing refers to, in main and in an imported package; linkname chains of 2 and 3 hops whose intermediate implementations are referenced by no name; sealed interfaces whose unexported marker method is never called (assertions, comma-ok, type switches, two packages); types declared inside function literals of generic functions and methods; (b) the corpus of the other families (quick: a spread of 27 programs; thorough: all)",
		[]string{"reference = native Go on the same source and the all-alive link of the same archives"},
		nil)
}
