package main

import (
	"time"

	"verif/mc/diffrun"
	"verif/mc/gen/ctl"
	"verif/mc/gen/expr"
	"verif/mc/gen/minx"
)

func c01Programs(thorough bool) []diffrun.Program {
	ps := ctl.Programs(2, 400)
	// the same skeletons inside functions that suspend: the statements of one nesting level block
	for _, mask := range []int{1, 2, 4} {
		ps = append(ps, ctl.ProgramsMask(2, 400, mask)...)
	}
	ps = append(ps, expr.Programs()...)
	ps = append(ps, expr.MiscProgram(), expr.EvalOrderProgram(), expr.LvalueProgram(), expr.LiteralProgram(), minx.Program(false))
	if thorough {
		for _, mask := range []int{3, 5, 6, 7} {
			ps = append(ps, ctl.ProgramsMask(2, 400, mask)...)
		}
		ps = append(ps, ctl.Programs(3, 600)...)
		for _, mask := range []int{1, 4} {
			ps = append(ps, ctl.ProgramsMask(3, 600, mask)...)
		}
	}
	return ps
}

func init() { props["C01"] = c01; programSets["C01"] = c01Programs }

func c01(tier string) int {
	start := time.Now()
	env, err := diffrun.NewEnv("C01")
	if err != nil {
		panic(err)
	}
	defer env.Close()
	env.CheckAll(c01Programs(tier == "thorough"), []diffrun.Variant{diffrun.Plain, diffrun.Minified})
	return finishDiff(env, "C01", tier, start,
		"G1 control-flow skeletons: all nestings of depth 2 (quick) / 3 (thorough) of 16 constructs (if/else in both arms, else-if chain, if with init, tagless switch, tagged switch with fallthrough, switch with default first, labelled for, for with condition and post, for with a switch inside, fuel-bounded infinite for, range over array, shadowing block, function literal, select with default, defer/recover) above 3-9 leaves that depend on the context (trace, early return, goto to the function end, break, continue, labelled break/continue to every enclosing loop), two condition rotations, each run on all four input vectors, as ordinary functions and with the trace statements of one nesting level (thorough: every set of levels) suspending the goroutine, so that resumable and native constructs are nested in each other; G2 expression shapes: per operand class (Int, int8, uint8, int64, uint32, float64, string) every pair of binary operators in left-nested, right-nested and fully parenthesised form, every unary over binary and binary over unary, unary over unary, comparisons of compound operands, with operands rotating through variable / constant / call result / field of a call result, each evaluated on the cube of a 3-7 point grid (value digest plus the number of calls made); G3/G4: lvalues - 11 assignable operand shapes x 14 shapes of the index/pointer operand (calls under conversions, unary, binary, index, dereference, function literals, method calls, variables, constants) x 10 assignment operators, printing the calls made and the whole state; keyed composite literals - every sequence of <= 3 positional or keyed elements (keys in any order, with gaps, literal / named / computed constant keys) x 5 element types x slice, sized and [...] array, nested elided literals and maps; assignment forms on every addressable operand, tuple assignment order, evaluation order of calls in assignment targets, forwarding of multi-value results with implicit conversions, selections of call results in multi-use code templates, string/byte/rune/array conversions, untyped constants at the limits and folding vs variables, and the C16 naming program; each program must build without internal error and behave like native Go, plain and minified",
		[]string{"reference = native Go on the same source", "how many calls precede a run-time panic inside one expression is not specified by the language and not compared"}, nil)
}
