package main

import (
	"time"

	"verif/mc/diffrun"
	"verif/mc/gen/mapk"
)

func init() { props["C15"] = c15; programSets["C15"] = func(t bool) []diffrun.Program { return mapk.Programs(t, "") } }

func c15(tier string) int {
	start := time.Now()
	env, err := diffrun.NewEnv("C15")
	if err != nil {
		panic(err)
	}
	defer env.Close()
	env.CheckAll(append(mapk.Programs(tier == "thorough", ""), mapk.ConstKeyProgram()), []diffrun.Variant{diffrun.Plain, diffrun.Minified})
	return finishDiff(env, "C15", tier, start,
		"per key type (about 50 types composed from bool/ints/floats/complex/string/pointer/chan/interface/named types by arrays and structs) and an adversarial key set: ALL operation histories up to depth d over {insert k, delete k, read-modify-write k, range-deleting-others, range-inserting} replayed on a fresh map, every observable (len, lookup, comma-ok, range multiset) digested after every step; one line per (type, first two ops); key equality matrices, nil-map behaviour, unhashable dynamic keys; constant keys: for 10 key families (strings with non-ASCII / raw bytes / escapes, named strings, interface keys of 21 dynamic types, floats, 64-bit integers, runes, arrays, structs, bools, complex) every key is written as a constant expression and as a variable, entries made one way are read / tested / updated / deleted the other way, plus map literals and switch; plain and minified vs native Go",
		[]string{"reference = native Go on the same source", "iteration order is never observed (order-insensitive digests)", "range-with-delete is skipped while a NaN entry is present (result depends on iteration order in Go itself)"},
		nil)
}
