package main

import (
	"fmt"
	"os"
	"time"

	"verif/mc/evid"
	"verif/mc/gjs"
	"verif/mc/native/ctxsel"
)

func init() { props["C18"] = c18 }

var c18Std = []string{"os", "syscall", "runtime", "runtime/internal/sys", "internal/cpu", "internal/bytealg", "internal/poll", "net", "time", "sync", "sync/atomic", "math", "math/big", "crypto/rand", "os/exec", "os/signal", "internal/syscall/unix", "internal/goos", "internal/goarch", "path/filepath", "mime", "crypto/sha256", "hash/crc32", "reflect", "strings", "bytes"}

func c18(tier string) int {
	start := time.Now()
	rep := evid.NewReporter("C18")
	work, err := os.MkdirTemp("", "verif-C18-")
	if err != nil {
		panic(err)
	}
	defer os.RemoveAll(work)
	os.Setenv("GOPHERJS_SKIP_VERSION_CHECK", "true")
	r, err := ctxsel.Run(work, tier == "thorough")
	harness := 0
	if err != nil {
		fmt.Fprintln(os.Stderr, "HARNESS:", err)
		harness++
	}
	for _, v := range r.Violations {
		id := v
		if i := indexByte(v, ' '); i > 0 {
			id = v[:i]
		}
		rep.Violation(id, v, map[string]string{"case.txt": v + "\n"})
	}
	sr, err := ctxsel.RunStd(c18Std)
	if err != nil {
		fmt.Fprintln(os.Stderr, "HARNESS:", err)
		harness++
	}
	for _, v := range sr.Violations {
		id := v
		if i := indexByte(v, ' '); i > 0 {
			id = v[:i]
		}
		rep.Violation(id, v, map[string]string{"case.txt": v + "\n"})
	}
	er, err := ctxsel.RunE2E(work, gjs.Repo())
	if err != nil {
		fmt.Fprintln(os.Stderr, "HARNESS:", err)
		harness++
	}
	for _, v := range er.Violations {
		id := v
		if i := indexByte(v, ' '); i > 0 {
			id = v[:i]
		}
		rep.Violation(id, v, map[string]string{"case.txt": v + "\n"})
	}
	samples := []any{}
	for _, s := range r.Samples {
		samples = append(samples, s)
	}
	if len(samples) == 0 {
		samples = append(samples, "none")
	}
	cov := map[string]any{
		"evaluations":         r.Decisions + sr.Files + er.Decisions,
		"distinct_nontrivial": r.Decisions,
		"rule":                "decision = (file with //go:build expression of depth <= 2 over a 24-tag vocabulary, or depth <= 1 x 15 file-name suffixes, or legacy +build spelling, cgo files, _test files, hidden files, .inc.js files) x each of the 8 subsets of the user tags {t1,t2,linux}, 7 further tag lists (always-on tags repeated by the user, duplicates) and 5 host environments (CGO_ENABLED 1/unset, GOOS/GOARCH set but empty, set to the defaults); every release tag go1.1..go1.30 positive, negated and as a window; .inc.js names with dots, suffixes, hidden, directory, symbolic links; all files live in one directory decided by the real NewBuildContext(...).Import; end-to-end: the gopherjs command built from the tree builds a 140-file package for 10 (tag string, host environment) pairs and the files that registered themselves under Node are compared with the same rule; expected = independent evaluator of the documented rule (go/build/constraint parser + tag table + file-name rule); thorough adds depth-3 expressions over 8 tags and depth-2 x suffix; plus every .go file of 26 real standard-library packages under the js/wasm rule; the end-to-end layer also builds three more packages of the module (used with suffix / constraint files; package clause plus .inc.js only, imported for side effects; all declarations unused), with user tags of every character class (rel.2, a_b, x.y.z, v2.0_beta, 2) and under a module path whose first element is a standard-library directory (unicode/xdemo)",
		"samples":             samples,
		"files":               r.Files,
		"imports":             r.Imports,
		"selected_total":      r.Selected,
		"std_packages":        sr.Packages,
		"std_files":           sr.Files,
		"e2e_runs":            er.Runs,
		"e2e_decisions":       er.Decisions,
		"exhaustive":          harness == 0,
	}
	ev := evid.Evidence{PropertyID: "C18", Tier: tier, Level: "exploration", Coverage: cov, Violations: rep.Viol, KnownFindings: rep.KnownList(),
		Assumptions: []string{"go/build/constraint is trusted as the parser of constraint expressions", "the supported Go version is 1.20 as documented in README/doc", "the known GOOS/GOARCH lists of the go/build file-name rule are transcribed from the Go 1.23 documentation"}}
	if err := ev.Write(start); err != nil {
		return 3
	}
	fmt.Printf("C18 %s: files=%d decisions=%d imports=%d std_packages=%d std_files=%d violations=%d known=%d wall=%.1fs\n", tier, r.Files, r.Decisions, r.Imports, sr.Packages, sr.Files, rep.Viol, len(rep.KnownList()), time.Since(start).Seconds())
	if rep.Viol > 0 {
		rep.Summary()
		return 1
	}
	if harness > 0 {
		return 3
	}
	return 0
}

func indexByte(s string, c byte) int {
	for i := 0; i < len(s); i++ {
		if s[i] == c {
			return i
		}
	}
	return -1
}
