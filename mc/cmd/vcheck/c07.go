package main

import (
	"time"

	"verif/mc/diffrun"
	"verif/mc/gen/alias"
)

func init() { props["C07"] = c07; programSets["C07"] = alias.Programs }

func c07(tier string) int {
	start := time.Now()
	env, err := diffrun.NewEnv("C07")
	if err != nil {
		panic(err)
	}
	defer env.Close()
	env.CheckAll(alias.Programs(tier == "thorough"), []diffrun.Variant{diffrun.Plain, diffrun.Minified})
	return finishDiff(env, "C07", tier, start,
		"value-semantics probes: every (type shape x copy context x mutated side) of 16 array/struct shapes (nesting depth <= 2, typed-array-backed and generic arrays, embedded structs, pointer/slice/interface fields) x 31 copy contexts (assignment forms, arguments, variadics, results, range, channels, select, map/slice/array/field stores and loads, composite literals, interface boxing, receivers, method values, deref, closures, append, copy, go/defer, conversions, swaps); aliasing probes for pointers to variables/fields/elements/package variables, subslices and append, array pointers, maps/channels/closures; a case = one (shape, context, probe) line; plain and minified builds vs native Go",
		[]string{"reference = native Go on the same source", "cap() after growth and other implementation-defined values are never printed"},
		nil)
}
