// Package ref is engine E2: build and run the same generated program with the
// reference Go toolchain and normalise both sides' observable behaviour.
package ref

import (
	"bytes"
	"context"
	"os"
	"os/exec"
	"path/filepath"
	"regexp"
	"strings"
	"time"
)

// Outcome is the normal form of an execution: printed lines and how it ended.
type Outcome struct {
	Lines []string
	End   string // exit0 | panic(<class>) | deadlock | exit:<n> | timeout | builderror
	Raw   string // unnormalised tail (for replay artefacts)
}

func goEnv() []string {
	env := os.Environ()
	env = append(env, "GOFLAGS=-mod=mod", "GOPROXY=off", "GOSUMDB=off", "GOTOOLCHAIN=local", "CGO_ENABLED=0")
	return env
}

// BuildNative builds the main package in dir to dir/ref.bin.
func BuildNative(dir string, tags string) (string, error) {
	bin := filepath.Join(dir, "ref.bin")
	args := []string{"build", "-o", bin}
	if tags != "" {
		args = append(args, "-tags", tags)
	}
	args = append(args, ".")
	cmd := exec.Command("go", args...)
	cmd.Dir = dir
	cmd.Env = goEnv()
	out, err := cmd.CombinedOutput()
	if err != nil {
		return "", &BuildError{Out: string(out)}
	}
	return bin, nil
}

type BuildError struct{ Out string }

func (e *BuildError) Error() string { return "native build failed: " + e.Out }

// RunNative runs the binary and normalises its output.
func RunNative(bin string, timeout time.Duration) Outcome {
	ctx, cancel := context.WithTimeout(context.Background(), timeout)
	defer cancel()
	cmd := exec.CommandContext(ctx, bin)
	var buf bytes.Buffer
	cmd.Stdout = &buf
	cmd.Stderr = &buf
	cmd.Env = append(os.Environ(), "GOTRACEBACK=single", "GOMAXPROCS=2")
	err := cmd.Run()
	if ctx.Err() != nil {
		return Outcome{End: "timeout"}
	}
	return NormaliseNative(buf.String(), err)
}

var reDetail = regexp.MustCompile(`[\[:0-9]`)

// PanicClass reduces a panic message to the class the properties name.
func PanicClass(msg string) string {
	msg = strings.TrimSpace(msg)
	msg = strings.TrimSuffix(msg, " [recovered]")
	msg = strings.TrimPrefix(msg, "runtime error: ")
	if i := strings.Index(msg, "\n"); i >= 0 {
		msg = msg[:i]
	}
	if loc := reDetail.FindStringIndex(msg); loc != nil {
		msg = msg[:loc[0]]
	}
	return strings.TrimSpace(msg)
}

// NormaliseNative maps native stderr/stdout to an Outcome.
func NormaliseNative(text string, runErr error) Outcome {
	lines := strings.Split(text, "\n")
	if n := len(lines); n > 0 && lines[n-1] == "" {
		lines = lines[:n-1]
	}
	o := Outcome{}
	for i, l := range lines {
		switch {
		case strings.HasPrefix(l, "panic: "):
			// possibly followed by more "panic: " lines (nested); the last one is the fatal one
			msg := strings.TrimPrefix(l, "panic: ")
			for j := i + 1; j < len(lines); j++ {
				if strings.HasPrefix(lines[j], "\tpanic: ") {
					msg = strings.TrimPrefix(lines[j], "\tpanic: ")
				} else if strings.HasPrefix(lines[j], "panic: ") {
					msg = strings.TrimPrefix(lines[j], "panic: ")
				}
			}
			o.End = "panic(" + PanicClass(msg) + ")"
			o.Raw = strings.Join(lines[i:], "\n")
			return o
		case strings.HasPrefix(l, "fatal error: all goroutines are asleep"):
			o.End = "deadlock"
			return o
		case strings.HasPrefix(l, "fatal error: "):
			o.End = "fatal(" + strings.TrimPrefix(l, "fatal error: ") + ")"
			o.Raw = strings.Join(lines[i:], "\n")
			return o
		}
		o.Lines = append(o.Lines, l)
	}
	if runErr != nil {
		if ee, ok := runErr.(*exec.ExitError); ok {
			o.End = "exit:" + itoa(ee.ExitCode())
		} else {
			o.End = "error:" + runErr.Error()
		}
		return o
	}
	o.End = "exit0"
	return o
}

func itoa(n int) string {
	if n < 0 {
		return "-" + itoa(-n)
	}
	if n < 10 {
		return string(rune('0' + n))
	}
	return itoa(n/10) + string(rune('0'+n%10))
}

// NormaliseJS maps the runner's (out, end) to an Outcome.
func NormaliseJS(out [][2]string, end string) Outcome {
	o := Outcome{}
	for _, e := range out {
		// console.log of a multi-line string yields several lines natively too
		for _, l := range strings.Split(e[1], "\n") {
			o.Lines = append(o.Lines, l)
		}
	}
	switch {
	case end == "exit0", end == "deadlock", end == "timeout", end == "horizon":
		o.End = end
	case strings.HasPrefix(end, "panic:"):
		msg := strings.TrimPrefix(end, "panic:")
		o.Raw = msg
		if i := strings.Index(msg, "\n"); i >= 0 {
			msg = msg[:i]
		}
		o.End = "panic(" + PanicClass(msg) + ")"
	default:
		o.End = end
	}
	return o
}
