// Package diffrun is the shared differential harness: the same generated
// program is built by the working-tree GopherJS (E1, several variants) and by
// the reference Go toolchain (E2); both are run and their normalised
// observable behaviour compared per case id.
package diffrun

import (
	"fmt"
	"os"
	"path/filepath"
	"sort"
	"strings"
	"sync"
	"sync/atomic"
	"time"

	"verif/mc/evid"
	"verif/mc/gjs"
	"verif/mc/jsx"
	"verif/mc/pool"
	"verif/mc/ref"
)

// Program is one generated Go program. Files maps a relative path to content;
// the main package lives at the root. Every output line is "<caseid> <payload>".
type Program struct {
	Name  string
	Files map[string]string
	Tags  []string
	// NoNative: there is no native reference (C11); Expect is used instead.
	NoNative bool
	Expect   []string
	// Globals are installed in the JS context.
	Globals map[string]any
	// ContextScript is evaluated inside the JS context before the program (C11 probes).
	ContextScript string
	// NativeFiles, when set, replaces Files for the native reference build (used by C10 to give
	// the reference toolchain the files of each package under order-reversing names).
	NativeFiles map[string]string
	// NoHelpers suppresses the standard helper files.
	NoHelpers bool
	// Detail, when set, regenerates the program so that it prints every individual
	// evaluation of the given digest case (second pass: first diverging operand).
	Detail func(caseID string) *Program
}

// Variant of the GopherJS build.
type Variant struct {
	Name     string
	Minify   bool
	AllAlive bool
	Map      bool
}

var (
	Plain    = Variant{Name: "plain"}
	Minified = Variant{Name: "min", Minify: true}
	AllAlive = Variant{Name: "allalive", AllAlive: true}
)

// Env holds shared pools and counters for one check run.
type Env struct {
	Work   string
	Builds *pool.Pool
	Nodes  *jsx.Pool
	Rep    *evid.Reporter

	Programs   int64
	Builds_    int64
	Executions int64
	Compared   int64 // case lines compared (per variant)
	CasesSeen  sync.Map // case id -> struct{}
	ncases     int64
	Samples    []string
	smu        sync.Mutex
	Harness    []string // harness-level problems (not violations)
}

func NewEnv(prop string) (*Env, error) {
	base := os.Getenv("VERIF_TMP")
	if base == "" {
		base = os.TempDir()
	}
	w, err := os.MkdirTemp(base, "verif-"+prop+"-")
	if err != nil {
		return nil, err
	}
	return &Env{Work: w, Builds: pool.New(0), Nodes: jsx.New(0), Rep: evid.NewReporter(prop)}, nil
}

func (e *Env) Close() {
	e.Builds.Close()
	e.Nodes.Close()
	os.RemoveAll(e.Work)
}

func (e *Env) NCases() int64 { return atomic.LoadInt64(&e.ncases) }

func (e *Env) noteCase(id string) {
	if _, loaded := e.CasesSeen.LoadOrStore(id, struct{}{}); !loaded {
		atomic.AddInt64(&e.ncases, 1)
	}
}

func (e *Env) AddSample(s string) {
	e.smu.Lock()
	if len(e.Samples) < 8 {
		e.Samples = append(e.Samples, s)
	}
	e.smu.Unlock()
}

func (e *Env) harness(msg string) {
	e.smu.Lock()
	e.Harness = append(e.Harness, msg)
	e.smu.Unlock()
	fmt.Fprintln(os.Stderr, "HARNESS:", msg)
}

// OnlyDeadlines reports whether every recorded harness problem is a deadline that was hit (the cases concerned
// are "not decided": the run is not exhaustive, but nothing is wrong with the harness or the tree).
func (e *Env) OnlyDeadlines() bool {
	for _, h := range e.Harness {
		if !strings.Contains(h, "timed out") && !strings.Contains(h, "timeout") && !strings.Contains(h, "not decided") {
			return false
		}
	}
	return true
}

// HarnessMsg records a problem of the harness itself (never a violation).
func (e *Env) HarnessMsg(msg string) { e.harness(msg) }

// WriteProgram materialises the program under the work dir.
func (e *Env) WriteProgram(p Program) (string, error) { return e.WriteProgramAs(p, ModName(p.Name)) }

// WriteProgramAs materialises the program with an explicit module path.
func (e *Env) WriteProgramAs(p Program, mod string) (string, error) {
	dir := filepath.Join(e.Work, p.Name)
	if err := os.MkdirAll(dir, 0o755); err != nil {
		return "", err
	}
	files := map[string]string{}
	for k, v := range p.Files {
		files[k] = v
	}
	if _, ok := files["go.mod"]; !ok {
		files["go.mod"] = "module " + mod + "\n\ngo 1.20\n"
	}
	if !p.NoHelpers {
		files["h_js.go"] = HelperJS
		files["h_ref.go"] = HelperRef
		files["h_common.go"] = HelperCommon
	}
	for name, content := range files {
		fp := filepath.Join(dir, name)
		os.MkdirAll(filepath.Dir(fp), 0o755)
		if err := os.WriteFile(fp, []byte(content), 0o644); err != nil {
			return "", err
		}
	}
	return dir, nil
}

// ModName is the module path used for program name.
func ModName(name string) string {
	return "p" + strings.Map(func(r rune) rune {
		if r >= 'a' && r <= 'z' || r >= 'A' && r <= 'Z' || r >= '0' && r <= '9' {
			return r
		}
		return '_'
	}, name)
}

// RunJS builds one variant and runs it on the default schedule.
func (e *Env) RunJS(dir string, p Program, v Variant) (ref.Outcome, gjs.Result, string) {
	out := filepath.Join(dir, "out_"+v.Name+".js")
	atomic.AddInt64(&e.Builds_, 1)
	res := e.Builds.Build(gjs.Request{Dir: dir, Minify: v.Minify, AllAlive: v.AllAlive, Map: v.Map, Tags: p.Tags, Out: out})
	if !res.OK {
		return ref.Outcome{End: "builderror"}, res, out
	}
	atomic.AddInt64(&e.Executions, 1)
	req := jsx.Req{Script: out, Globals: p.Globals, FifoTimers: true, ContextScript: p.ContextScript}
	r, err := e.Nodes.Run(req)
	if err != nil && strings.Contains(err.Error(), "node died") {
		// the JavaScript engine itself gave up (typically out of memory in a runaway loop): only a second,
		// identical death counts as the program's behaviour
		if _, err2 := e.Nodes.Run(req); err2 != nil && strings.Contains(err2.Error(), "node died") {
			return ref.Outcome{End: "engine-crash"}, res, out
		}
	}
	if err != nil {
		e.harness("node runner: " + err.Error())
		return ref.Outcome{End: "harness"}, res, out
	}
	return ref.NormaliseJS(r.Out, r.End), res, out
}

func caseOf(line string) string {
	if i := strings.IndexByte(line, ' '); i >= 0 {
		return line[:i]
	}
	return line
}

func group(lines []string) (map[string][]string, []string) {
	m := map[string][]string{}
	var order []string
	for _, l := range lines {
		c := caseOf(l)
		if _, ok := m[c]; !ok {
			order = append(order, c)
		}
		m[c] = append(m[c], l)
	}
	return m, order
}

// Diff returns the case ids whose line sequences differ, with a description.
func Diff(want, got ref.Outcome) map[string]string {
	res := map[string]string{}
	wm, worder := group(want.Lines)
	gm, gorder := group(got.Lines)
	seen := map[string]bool{}
	for _, c := range append(append([]string{}, worder...), gorder...) {
		if seen[c] {
			continue
		}
		seen[c] = true
		w, g := wm[c], gm[c]
		if strings.Join(w, "\n") != strings.Join(g, "\n") {
			// if one side simply stopped early (different end), attribute to end instead
			res[c] = fmt.Sprintf("want %q got %q", firstDiff(w, g, true), firstDiff(w, g, false))
		}
	}
	if want.End != got.End {
		// cases that are missing only because the execution stopped early belong to the end mismatch
		for c, w := range res {
			if len(gm[c]) == 0 && strings.Contains(w, "got \"<missing>\"") {
				delete(res, c)
			}
		}
		last := "start"
		if n := len(got.Lines); n > 0 {
			last = caseOf(got.Lines[n-1])
		}
		// lines missing merely because execution stopped are attributed to the end mismatch
		res[last+"/end"] = fmt.Sprintf("want end %s got end %s (%s)", want.End, got.End, oneLine(got.Raw))
	}
	return res
}

func firstDiff(w, g []string, wantSide bool) string {
	for i := 0; i < len(w) || i < len(g); i++ {
		var a, b string
		if i < len(w) {
			a = w[i]
		} else {
			a = "<missing>"
		}
		if i < len(g) {
			b = g[i]
		} else {
			b = "<missing>"
		}
		if a != b {
			if wantSide {
				return a
			}
			return b
		}
	}
	return ""
}

func oneLine(s string) string {
	s = strings.ReplaceAll(s, "\n", " | ")
	if len(s) > 200 {
		s = s[:200]
	}
	return s
}

// Check runs the program natively and under every variant and reports
// mismatches through the reporter. Returns number of distinct cases seen.
func (e *Env) Check(p Program, variants []Variant) {
	atomic.AddInt64(&e.Programs, 1)
	dir, err := e.WriteProgram(p)
	if err != nil {
		e.harness(err.Error())
		return
	}
	defer func() {
		// keep disk usage flat
		os.RemoveAll(dir)
	}()
	var want ref.Outcome
	bin := ""
	if p.NoNative {
		want = ref.Outcome{Lines: p.Expect, End: "exit0"}
	} else {
		ndir := dir
		if p.NativeFiles != nil {
			np := p
			np.Name = p.Name + "_native"
			np.Files = p.NativeFiles
			np.NativeFiles = nil
			ndir, err = e.WriteProgramAs(np, ModName(p.Name))
			if err != nil {
				e.harness(err.Error())
				return
			}
			defer os.RemoveAll(ndir)
		}
		bin, err = ref.BuildNative(ndir, strings.Join(p.Tags, ","))
		if err != nil {
			e.harness("native build of " + p.Name + " failed (generator bug): " + oneLine(err.Error()))
			return
		}
		want = ref.RunNative(bin, 300*time.Second)
		if want.End == "timeout" {
			e.harness("native run of " + p.Name + " timed out")
			return
		}
	}
	for _, l := range want.Lines {
		e.noteCase(caseOf(l))
	}
	if len(want.Lines) > 0 {
		e.AddSample(p.Name + ": " + want.Lines[len(want.Lines)/2])
	}
	if !p.NoNative && want.End != "exit0" && !strings.Contains(p.Name, "end") && !strings.Contains(p.Name, "panic") && !strings.Contains(p.Name, "c08") {
		// not an error in itself (both sides are compared), but an explorer program that stops early covers less than it claims
		fmt.Fprintf(os.Stderr, "NOTE: reference run of %s ends with %s after %d lines\n", p.Name, want.End, len(want.Lines))
	}
	for _, v := range variants {
		got, bres, script := e.RunJS(dir, p, v)
		if got.End == "harness" {
			continue
		}
		if got.End == "builderror" {
			if bres.Class == "timeout" || bres.Class == "harness" {
				e.harness("build " + p.Name + "/" + v.Name + ": " + bres.Err)
				continue
			}
			e.Rep.Violation(p.Name+"/"+v.Name+"/build", "native toolchain accepts the program, GopherJS build fails ("+bres.Class+"): "+oneLine(bres.Err), e.replayFiles(p, v, want, got, bres.Err))
			continue
		}
		if got.End == "timeout" {
			// A deadline of the harness is not an oracle. Run once more with a deadline far beyond anything a
			// loaded machine explains; only a program that the reference finished normally and that is still
			// running after that is reported, as non-termination.
			r2, err := e.Nodes.RunTimeout(jsx.Req{Script: script, Globals: p.Globals, FifoTimers: true, ContextScript: p.ContextScript}, 15*time.Minute)
			if err != nil {
				e.harness("js run of " + p.Name + "/" + v.Name + ": " + err.Error())
				continue
			}
			if r2.End == "timeout" {
				id := p.Name + "/nontermination"
				if v.Name != "plain" {
					id += "@" + v.Name
				}
				e.Rep.Violation(id, "the compiled program is still running after 15 minutes; the reference run ended with "+want.End, e.replayFiles(p, v, want, got, ""))
				continue
			}
			got = ref.NormaliseJS(r2.Out, r2.End)
		}
		atomic.AddInt64(&e.Compared, int64(len(want.Lines)))
		d := Diff(want, got)
		if len(d) == 0 {
			continue
		}
		// determinism guard: re-run both sides once
		r2, err := e.Nodes.Run(jsx.Req{Script: script, Globals: p.Globals, FifoTimers: true, ContextScript: p.ContextScript})
		if err == nil {
			got2 := ref.NormaliseJS(r2.Out, r2.End)
			if strings.Join(got2.Lines, "\n") != strings.Join(got.Lines, "\n") || got2.End != got.End {
				e.harness("non-reproducible JS execution of " + p.Name + "/" + v.Name)
				continue
			}
		}
		if !p.NoNative {
			want2 := ref.RunNative(bin, 300*time.Second)
			if strings.Join(want2.Lines, "\n") != strings.Join(want.Lines, "\n") || want2.End != want.End {
				e.harness("non-reproducible native execution of " + p.Name)
				continue
			}
		}
		ids := make([]string, 0, len(d))
		for c := range d {
			ids = append(ids, c)
		}
		sort.Strings(ids)
		ndetail := 0
		for _, c := range ids {
			id := c
			if v.Name != "plain" {
				id = c + "@" + v.Name
			}
			what := d[c]
			files := e.replayFiles(p, v, want, got, "")
			if p.Detail != nil && ndetail < 2 && !strings.HasSuffix(c, "/end") {
				ndetail++
				if det := e.detail(p, v, c); det != "" {
					what += " ; first diverging evaluation: " + det
					files["detail.txt"] = det + "\n"
				}
			}
			e.Rep.Violation(id, what, files)
		}
	}
}

// detail runs the second pass for one failing digest case and returns the first differing line.
func (e *Env) detail(p Program, v Variant, caseID string) string {
	dp := p.Detail(caseID)
	if dp == nil {
		return ""
	}
	dp.Name = p.Name + "_detail"
	dp.Detail = nil
	dir, err := e.WriteProgram(*dp)
	if err != nil {
		return ""
	}
	defer os.RemoveAll(dir)
	bin, err := ref.BuildNative(dir, strings.Join(dp.Tags, ","))
	if err != nil {
		return ""
	}
	want := ref.RunNative(bin, 300*time.Second)
	got, _, _ := e.RunJS(dir, *dp, v)
	for i := 0; i < len(want.Lines) || i < len(got.Lines); i++ {
		var a, b string
		if i < len(want.Lines) {
			a = want.Lines[i]
		}
		if i < len(got.Lines) {
			b = got.Lines[i]
		}
		if a != b {
			return fmt.Sprintf("want %q got %q", a, b)
		}
	}
	return ""
}

func (e *Env) replayFiles(p Program, v Variant, want, got ref.Outcome, buildErr string) map[string]string {
	files := map[string]string{}
	for k, c := range p.Files {
		files["prog/"+k] = c
	}
	if !p.NoHelpers {
		files["prog/h_js.go"] = HelperJS
		files["prog/h_ref.go"] = HelperRef
		files["prog/h_common.go"] = HelperCommon
	}
	if _, ok := p.Files["go.mod"]; !ok {
		files["prog/go.mod"] = "module " + ModName(p.Name) + "\n\ngo 1.20\n"
	}
	files["expected.txt"] = strings.Join(want.Lines, "\n") + "\nEND " + want.End + "\n"
	files["actual.txt"] = strings.Join(got.Lines, "\n") + "\nEND " + got.End + "\n" + got.Raw + "\n" + buildErr + "\n"
	flags := ""
	if v.Minify {
		flags += " -m"
	}
	if v.AllAlive {
		flags += " -allalive"
	}
	files["variant.txt"] = v.Name + "\n"
	files["replay.sh"] = "#!/bin/sh\n# replays this single program without the explorer\ncd \"$(dirname \"$0\")/prog\" && " +
		"export GOFLAGS=-mod=mod GOPROXY=off GOSUMDB=off GOTOOLCHAIN=local GOPHERJS_SKIP_VERSION_CHECK=true && " +
		"echo '--- native' && go run . ; echo '--- gopherjs' && \"${VCHECK:-/verif/bin/vcheck}\" build -dir \"$PWD\" -o \"$PWD/out.js\"" + flags + " && node out.js\n"
	return files
}

// CheckAll runs all programs in parallel.
func (e *Env) CheckAll(progs []Program, variants []Variant) {
	var wg sync.WaitGroup
	sem := make(chan struct{}, 16)
	for _, p := range progs {
		wg.Add(1)
		sem <- struct{}{}
		go func(p Program) {
			defer wg.Done()
			defer func() { <-sem }()
			e.Check(p, variants)
		}(p)
	}
	wg.Wait()
}

// CheckAgainstVariant uses the build variant `base` as the reference for the other variants
// (differential oracle without native Go: e.g. DCE vs all-alive, plain vs minified).
func (e *Env) CheckAgainstVariant(p Program, base Variant, others []Variant) {
	atomic.AddInt64(&e.Programs, 1)
	dir, err := e.WriteProgram(p)
	if err != nil {
		e.harness(err.Error())
		return
	}
	defer os.RemoveAll(dir)
	want, bres, wscript := e.RunJS(dir, p, base)
	if want.End == "timeout" {
		// a deadline of the harness, not an outcome: once more with a deadline no load explains
		if r2, err := e.Nodes.RunTimeout(jsx.Req{Script: wscript, Globals: p.Globals, FifoTimers: true, ContextScript: p.ContextScript}, 15*time.Minute); err == nil && r2.End != "timeout" {
			want = ref.NormaliseJS(r2.Out, r2.End)
		}
	}
	if want.End == "harness" || want.End == "timeout" {
		e.harness("reference variant of " + p.Name + " did not run: " + want.End)
		return
	}
	if want.End == "builderror" {
		e.harness("reference variant of " + p.Name + " does not build: " + oneLine(bres.Err))
		return
	}
	for _, l := range want.Lines {
		e.noteCase(caseOf(l))
	}
	if len(want.Lines) > 0 {
		e.AddSample(p.Name + ": " + want.Lines[len(want.Lines)/2])
	}
	for _, v := range others {
		got, br, script := e.RunJS(dir, p, v)
		if got.End == "timeout" {
			r2, err := e.Nodes.RunTimeout(jsx.Req{Script: script, Globals: p.Globals, FifoTimers: true, ContextScript: p.ContextScript}, 15*time.Minute)
			if err != nil {
				e.harness("variant " + v.Name + " of " + p.Name + ": " + err.Error())
				continue
			}
			if r2.End == "timeout" {
				e.Rep.Violation(p.Name+"/nontermination@"+v.Name+"-vs-"+base.Name, "variant "+v.Name+" is still running after 15 minutes; variant "+base.Name+" ended with "+want.End, e.replayFiles(p, v, want, got, ""))
				continue
			}
			got = ref.NormaliseJS(r2.Out, r2.End)
		}
		if got.End == "harness" {
			e.harness("variant " + v.Name + " of " + p.Name + ": " + got.End)
			continue
		}
		if got.End == "builderror" {
			if br.Class == "timeout" || br.Class == "harness" {
				e.harness("build " + p.Name + "/" + v.Name + ": " + br.Err)
				continue
			}
			e.Rep.Violation(p.Name+"/"+v.Name+"/build", "variant "+base.Name+" builds, variant "+v.Name+" fails: "+oneLine(br.Err), e.replayFiles(p, v, want, got, br.Err))
			continue
		}
		atomic.AddInt64(&e.Compared, int64(len(want.Lines)))
		d := Diff(want, got)
		if len(d) == 0 {
			continue
		}
		r2, err := e.Nodes.Run(jsx.Req{Script: script, Globals: p.Globals, FifoTimers: true, ContextScript: p.ContextScript})
		if err == nil {
			got2 := ref.NormaliseJS(r2.Out, r2.End)
			if strings.Join(got2.Lines, "\n") != strings.Join(got.Lines, "\n") || got2.End != got.End {
				e.harness("non-reproducible JS execution of " + p.Name + "/" + v.Name)
				continue
			}
		}
		ids := make([]string, 0, len(d))
		for c := range d {
			ids = append(ids, c)
		}
		sort.Strings(ids)
		for _, c := range ids {
			e.Rep.Violation(c+"@"+v.Name+"-vs-"+base.Name, d[c], e.replayFiles(p, v, want, got, ""))
		}
	}
}

// CheckAllAgainstVariant runs CheckAgainstVariant for all programs in parallel.
func (e *Env) CheckAllAgainstVariant(progs []Program, base Variant, others []Variant) {
	var wg sync.WaitGroup
	sem := make(chan struct{}, 16)
	for _, p := range progs {
		wg.Add(1)
		sem <- struct{}{}
		go func(p Program) {
			defer wg.Done()
			defer func() { <-sem }()
			e.CheckAgainstVariant(p, base, others)
		}(p)
	}
	wg.Wait()
}
