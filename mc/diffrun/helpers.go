package diffrun

// HelperJS / HelperRef are the two tagged helper files: the only source
// difference between the GopherJS build and the native reference build.
const HelperJS = `//go:build js

package main

type Int = int
type Uint = uint
type Uintptr = uintptr

const isJS = true
`

const HelperRef = `//go:build !js

package main

type Int = int32
type Uint = uint32
type Uintptr = uint32

const isJS = false
`

// HelperCommon holds formatting helpers written in the Go subset under test.
const HelperCommon = `package main

import "math"

func utoa(n uint64) string {
	if n == 0 {
		return "0"
	}
	var b [20]byte
	i := len(b)
	for n > 0 {
		i--
		b[i] = byte('0' + n%10)
		n /= 10
	}
	return string(b[i:])
}

func itoa(n int64) string {
	if n < 0 {
		return "-" + utoa(uint64(-(n+1))+1)
	}
	return utoa(uint64(n))
}

func hex(n uint64) string {
	const d = "0123456789abcdef"
	if n == 0 {
		return "0"
	}
	var b [16]byte
	i := len(b)
	for n > 0 {
		i--
		b[i] = d[n&15]
		n >>= 4
	}
	return string(b[i:])
}

func btoa(b bool) string {
	if b {
		return "T"
	}
	return "F"
}

// ftoa renders a float64 by bit pattern, all NaNs identified.
func ftoa(f float64) string {
	if f != f {
		return "NaN"
	}
	return "f" + hex(math.Float64bits(f))
}

func f32toa(f float32) string {
	if f != f {
		return "NaN"
	}
	return "g" + hex(uint64(math.Float32bits(f)))
}

// quote renders a string with every byte outside [0x20,0x7e] and the
// characters '\\' and '"' as \xHH.
func quote(s string) string {
	const d = "0123456789abcdef"
	b := make([]byte, 0, len(s)+2)
	b = append(b, '"')
	for i := 0; i < len(s); i++ {
		c := s[i]
		if c < 0x20 || c > 0x7e || c == '\\' || c == '"' {
			b = append(b, '\\', 'x', d[c>>4], d[c&15])
		} else {
			b = append(b, c)
		}
	}
	b = append(b, '"')
	return string(b)
}

// two-lane 32-bit digest (cheap under 32-bit JS arithmetic)
type digest struct{ a, b uint32 }

func newDigest() digest { return digest{2166136261, 0x9e3779b9} }

func (d *digest) w(x uint32) {
	d.a = (d.a ^ x) * 16777619
	d.b = (d.b^(x<<7|x>>25))*2246822519 + 0x61c88647
}

func (d *digest) u64(x uint64) {
	d.w(uint32(x))
	d.w(uint32(x >> 32))
}

func (d *digest) str(s string) {
	for i := 0; i < len(s); i++ {
		d.w(uint32(s[i]))
	}
	d.w(0xffffffff)
}

func (d digest) String() string { return hex(uint64(d.a)<<32 | uint64(d.b)) }

// errClass reduces a recovered value to a comparable description.
func errClass(r interface{}) string {
	if r == nil {
		return "nil"
	}
	switch v := r.(type) {
	case interface{ RuntimeError() }:
		return "RTE:" + classOf(v.(error).Error())
	case error:
		return "ERR:" + classOf(v.Error())
	case string:
		return "STR:" + v
	case int:
		return "INT:" + itoa(int64(v))
	}
	return "OTHER"
}

func classOf(msg string) string {
	const p = "runtime error: "
	if len(msg) >= len(p) && msg[:len(p)] == p {
		msg = msg[len(p):]
	}
	for i := 0; i < len(msg); i++ {
		c := msg[i]
		if c == '[' || c == ':' || (c >= '0' && c <= '9') {
			msg = msg[:i]
			break
		}
	}
	for len(msg) > 0 && msg[len(msg)-1] == ' ' {
		msg = msg[:len(msg)-1]
	}
	return msg
}
`
