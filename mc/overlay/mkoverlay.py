#!/usr/bin/env python3
"""E6: writes a patched copy of $GOROOT/src/runtime/map.go (map iteration start and hash seed taken
from the environment variable VERIF_MAPITER when set) and an overlay.json for `go build -overlay`.
usage: mkoverlay.py <outdir>   -> prints the path of overlay.json"""
import json, os, subprocess, sys
out = sys.argv[1]
os.makedirs(out, exist_ok=True)
goroot = subprocess.run(["go", "env", "GOROOT"], capture_output=True, text=True).stdout.strip()
src = os.path.join(goroot, "src", "runtime", "map.go")
s = open(src).read()
n1 = s.count("r := uintptr(rand())")
n2 = s.count("h.hash0 = uint32(rand())")
if n1 != 1 or n2 < 1:
    sys.exit("runtime/map.go does not look as expected (%d, %d)" % (n1, n2))
s = s.replace("r := uintptr(rand())", "r := verifIterStart()")
s = s.replace("h.hash0 = uint32(rand())", "h.hash0 = verifHash0()")
s += '''
// ---- verification seam (E6): map iteration order becomes an enumerated environment answer ----
var verifMapIterParsed bool
var verifMapIterVal = -1

func verifEnv() int {
	if !verifMapIterParsed {
		if envs == nil {
			return -1 // environment not initialised yet (early runtime start-up)
		}
		verifMapIterParsed = true
		s := gogetenv("VERIF_MAPITER")
		if s != "" {
			n := 0
			for i := 0; i < len(s); i++ {
				n = n*10 + int(s[i]-'0')
			}
			verifMapIterVal = n
		}
	}
	return verifMapIterVal
}

func verifIterStart() uintptr {
	if v := verifEnv(); v >= 0 {
		return uintptr(v)
	}
	return uintptr(rand())
}

func verifHash0() uint32 {
	if verifEnv() >= 0 {
		return 0x1234
	}
	return uint32(rand())
}
'''
dst = os.path.join(out, "map.go")
open(dst, "w").write(s)
ov = os.path.join(out, "overlay.json")
json.dump({"Replace": {src: dst}}, open(ov, "w"))
print(ov)
