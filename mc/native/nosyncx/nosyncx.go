// Package nosyncx is the C13(b) explorer: explicit-state BFS over operation
// histories of the nosync primitives. A small contract model classifies each
// next operation as proceeds / would block / misuse. When it proceeds, the real
// sync primitive is executed in lock-step on a fresh replay and results are
// compared; when it would block, nosync must panic; misuse must fail.
package nosyncx

import (
	"fmt"
	"sort"
	"strings"
	"sync"

	"github.com/gopherjs/gopherjs/nosync"
)

type Violation struct {
	Prim    string
	History []string
	What    string
}

type Stats struct {
	States, Transitions, Histories int
	PerPrim                        map[string]int
	Samples                        []string
}

// outcome of applying one op to an implementation
type outcome struct {
	panicked bool
	pval     string
	result   string
}

func try(f func() string) (o outcome) {
	defer func() {
		if r := recover(); r != nil {
			o.panicked = true
			o.pval = fmt.Sprint(r)
		}
	}()
	o.result = f()
	return
}

const (
	proceeds = iota
	wouldBlock
	misuse      // both implementations fail (real one must not be run when its failure is fatal)
	misusePanic // both implementations panic recoverably: run both
)

// A machine replays a history on fresh instances of the model, nosync and sync.
type machine interface {
	ops() []string
	// classify the op in the current model state
	classify(op int) int
	// apply to the model (only when proceeds / misusePanic keeps state)
	applyModel(op int)
	applyNosync(op int) outcome
	applySync(op int) outcome
	key() string // canonical model state + dump of the nosync value
}

func explore(name string, mk func() machine, depth int, st *Stats, viols *[]Violation) {
	type node struct{ hist []int }
	seen := map[string]bool{}
	frontier := []node{{nil}}
	seen[mk().key()] = true
	st.States++
	opsNames := mk().ops()
	for d := 0; d < depth && len(frontier) > 0; d++ {
		var next []node
		for _, n := range frontier {
			for op := range opsNames {
				// replay shortest history on a fresh instance, then one more op
				m := mk()
				ok := true
				for _, h := range n.hist {
					if !step(m, h, nil) {
						ok = false
						break
					}
				}
				if !ok {
					continue
				}
				st.Transitions++
				st.Histories++
				var what string
				if !step(m, op, &what) {
					if what != "" {
						hist := append(append([]int{}, n.hist...), op)
						names := make([]string, len(hist))
						for i, h := range hist {
							names[i] = opsNames[h]
						}
						*viols = append(*viols, Violation{name, names, what})
					}
					continue
				}
				k := m.key()
				if !seen[k] {
					seen[k] = true
					st.States++
					next = append(next, node{append(append([]int{}, n.hist...), op)})
					if len(st.Samples) < 6 && len(n.hist) >= 2 {
						names := []string{}
						for _, h := range append(append([]int{}, n.hist...), op) {
							names = append(names, opsNames[h])
						}
						st.Samples = append(st.Samples, name+": "+strings.Join(names, ","))
					}
				}
			}
		}
		frontier = next
	}
	if st.PerPrim == nil {
		st.PerPrim = map[string]int{}
	}
	st.PerPrim[name] = len(seen)
}

// step applies op; returns false if the history must not be extended (blocked/misuse, or violation).
func step(m machine, op int, what *string) bool {
	switch m.classify(op) {
	case proceeds:
		a := m.applyNosync(op)
		b := m.applySync(op)
		m.applyModel(op)
		if a.panicked != b.panicked || a.result != b.result {
			if what != nil {
				*what = fmt.Sprintf("uncontended op: nosync gives %+v, sync gives %+v", a, b)
			}
			return false
		}
		if a.panicked {
			return false
		}
		return true
	case wouldBlock:
		a := m.applyNosync(op)
		if !a.panicked && what != nil {
			*what = "operation that would block in sync does not panic in nosync (result " + a.result + ")"
		}
		return false
	case misuse:
		a := m.applyNosync(op)
		if !a.panicked && what != nil {
			*what = "misuse accepted silently by nosync"
		}
		return false
	case misusePanic:
		a := m.applyNosync(op)
		b := m.applySync(op)
		if (!a.panicked || !b.panicked) && what != nil {
			*what = fmt.Sprintf("misuse: nosync %+v sync %+v", a, b)
		}
		return false
	}
	return false
}

// ---- Mutex ----
type mutexM struct {
	locked bool
	n      nosync.Mutex
	s      sync.Mutex
}

func (m *mutexM) ops() []string { return []string{"Lock", "Unlock"} }
func (m *mutexM) classify(op int) int {
	if op == 0 {
		if m.locked {
			return wouldBlock
		}
		return proceeds
	}
	if !m.locked {
		return misuse
	}
	return proceeds
}
func (m *mutexM) applyModel(op int) { m.locked = op == 0 }
func (m *mutexM) applyNosync(op int) outcome {
	return try(func() string {
		if op == 0 {
			m.n.Lock()
		} else {
			m.n.Unlock()
		}
		return ""
	})
}
func (m *mutexM) applySync(op int) outcome {
	return try(func() string {
		if op == 0 {
			m.s.Lock()
		} else {
			m.s.Unlock()
		}
		return ""
	})
}
func (m *mutexM) key() string { return fmt.Sprintf("%v|%+v", m.locked, m.n) }

// ---- RWMutex ----
type rwM struct {
	w bool
	r int
	n nosync.RWMutex
	s sync.RWMutex
}

func (m *rwM) ops() []string { return []string{"Lock", "Unlock", "RLock", "RUnlock"} }
func (m *rwM) classify(op int) int {
	switch op {
	case 0:
		if m.w || m.r > 0 {
			return wouldBlock
		}
	case 1:
		if !m.w {
			return misuse
		}
	case 2:
		if m.w {
			return wouldBlock
		}
	case 3:
		if m.r == 0 {
			return misuse
		}
	}
	return proceeds
}
func (m *rwM) applyModel(op int) {
	switch op {
	case 0:
		m.w = true
	case 1:
		m.w = false
	case 2:
		m.r++
	case 3:
		m.r--
	}
}
func (m *rwM) applyNosync(op int) outcome {
	return try(func() string {
		switch op {
		case 0:
			m.n.Lock()
		case 1:
			m.n.Unlock()
		case 2:
			m.n.RLock()
		case 3:
			m.n.RUnlock()
		}
		return ""
	})
}
func (m *rwM) applySync(op int) outcome {
	return try(func() string {
		switch op {
		case 0:
			m.s.Lock()
		case 1:
			m.s.Unlock()
		case 2:
			m.s.RLock()
		case 3:
			m.s.RUnlock()
		}
		return ""
	})
}
func (m *rwM) key() string { return fmt.Sprintf("%v,%d|%+v", m.w, m.r, m.n) }

// ---- WaitGroup ----
type wgM struct {
	c int
	n nosync.WaitGroup
	s sync.WaitGroup
}

var wgDeltas = []int{1, 2, -1, -2}

func (m *wgM) ops() []string { return []string{"Add(1)", "Add(2)", "Add(-1)", "Add(-2)", "Done", "Wait"} }
func (m *wgM) delta(op int) int {
	if op < 4 {
		return wgDeltas[op]
	}
	return -1
}
func (m *wgM) classify(op int) int {
	if op == 5 {
		if m.c != 0 {
			return wouldBlock
		}
		return proceeds
	}
	if m.c+m.delta(op) < 0 {
		return misusePanic
	}
	return proceeds
}
func (m *wgM) applyModel(op int) {
	if op != 5 {
		m.c += m.delta(op)
	}
}
func (m *wgM) applyNosync(op int) outcome {
	return try(func() string {
		switch {
		case op < 4:
			m.n.Add(wgDeltas[op])
		case op == 4:
			m.n.Done()
		default:
			m.n.Wait()
		}
		return ""
	})
}
func (m *wgM) applySync(op int) outcome {
	return try(func() string {
		switch {
		case op < 4:
			m.s.Add(wgDeltas[op])
		case op == 4:
			m.s.Done()
		default:
			m.s.Wait()
		}
		return ""
	})
}
func (m *wgM) key() string { return fmt.Sprintf("%d|%+v", m.c, m.n) }

// ---- Once ----
type onceM struct {
	done   bool
	runs   int // model: number of times f ran
	n      nosync.Once
	s      sync.Once
	nr, sr int
}

func (m *onceM) ops() []string { return []string{"Do(f)", "Do(panicking f)", "Do(f calling Do)", "Do(nil-safe f twice)"} }
func (m *onceM) classify(op int) int {
	if op == 2 && !m.done {
		return wouldBlock // sync.Once deadlocks when Do is re-entered from f
	}
	return proceeds
}
func (m *onceM) applyModel(op int) {
	if !m.done {
		m.done = true
		m.runs++
		if op == 3 {
			// second Do in the same op is a no-op
		}
	}
}
func (m *onceM) applyNosync(op int) outcome {
	return try(func() string {
		switch op {
		case 0:
			m.n.Do(func() { m.nr++ })
		case 1:
			func() {
				defer func() {
					if r := recover(); r != nil {
						m.nr += 100
					}
				}()
				m.n.Do(func() { m.nr++; panic("f") })
			}()
		case 2:
			m.n.Do(func() { m.nr++; m.n.Do(func() { m.nr += 1000 }) })
		case 3:
			m.n.Do(func() { m.nr++ })
			m.n.Do(func() { m.nr += 10 })
		}
		return fmt.Sprint(m.nr)
	})
}
func (m *onceM) applySync(op int) outcome {
	return try(func() string {
		switch op {
		case 0:
			m.s.Do(func() { m.sr++ })
		case 1:
			func() {
				defer func() {
					if r := recover(); r != nil {
						m.sr += 100
					}
				}()
				m.s.Do(func() { m.sr++; panic("f") })
			}()
		case 3:
			m.s.Do(func() { m.sr++ })
			m.s.Do(func() { m.sr += 10 })
		}
		return fmt.Sprint(m.sr)
	})
}
func (m *onceM) key() string { return fmt.Sprintf("%v,%d|%+v|%d", m.done, m.runs, m.n, m.nr) }

// ---- Map ----
type mapM struct {
	model map[string]int
	n     nosync.Map
	s     sync.Map
}

var mapKeys = []string{"a", "b"}

func (m *mapM) ops() []string {
	var o []string
	for _, k := range mapKeys {
		o = append(o, "Load("+k+")", "Store("+k+",1)", "Store("+k+",2)", "LoadOrStore("+k+",3)", "Delete("+k+")", "Store("+k+",nil)", "LoadOrStore("+k+",nil)", "Store("+k+",(*int)(nil))")
	}
	return append(o, "Range(all)", "Range(stop after first)")
}
func (m *mapM) classify(op int) int { return proceeds }
func (m *mapM) applyModel(op int)   {}
func mapApply(op int, load func(any) (any, bool), store func(any, any), los func(any, any) (any, bool), del func(any), rng func(func(any, any) bool)) string {
	if op < 8*len(mapKeys) {
		k := mapKeys[op/8]
		switch op % 8 {
		case 0:
			v, ok := load(k)
			return fmt.Sprint(v, ok)
		case 1:
			store(k, 1)
		case 2:
			store(k, 2)
		case 3:
			v, l := los(k, 3)
			return fmt.Sprint(v, l)
		case 4:
			del(k)
		case 5:
			store(k, nil) // a present key whose value is the nil interface
		case 6:
			v, l := los(k, nil)
			return fmt.Sprint(v, l)
		case 7:
			store(k, (*int)(nil)) // a typed nil is an ordinary value
		}
		return ""
	}
	var seen []string
	stop := op == 8*len(mapKeys)+1
	rng(func(k, v any) bool {
		seen = append(seen, fmt.Sprint(k, "=", v))
		return !stop
	})
	if stop {
		return fmt.Sprint("visited ", len(seen))
	}
	sort.Strings(seen)
	return strings.Join(seen, ",")
}
func (m *mapM) applyNosync(op int) outcome {
	return try(func() string { return mapApply(op, m.n.Load, m.n.Store, m.n.LoadOrStore, m.n.Delete, m.n.Range) })
}
func (m *mapM) applySync(op int) outcome {
	return try(func() string { return mapApply(op, m.s.Load, m.s.Store, m.s.LoadOrStore, m.s.Delete, m.s.Range) })
}
func (m *mapM) key() string {
	var e []string
	m.s.Range(func(k, v any) bool { e = append(e, fmt.Sprint(k, "=", v)); return true })
	sort.Strings(e)
	var e2 []string
	m.n.Range(func(k, v any) bool { e2 = append(e2, fmt.Sprint(k, "=", v)); return true })
	sort.Strings(e2)
	return strings.Join(e, ",") + "|" + strings.Join(e2, ",")
}

// ---- Pool ---- (contract: Get returns a value previously Put and not yet returned, else New()/nil)
type poolM struct {
	withNew bool
	avail   map[int]int // model multiset of values put and not yet gotten
	n       nosync.Pool
	newCnt  int
	bad     string
}

func (m *poolM) ops() []string { return []string{"Get", "Put(1)", "Put(2)", "Put(nil)"} }
func (m *poolM) classify(op int) int { return proceeds }
func (m *poolM) applyModel(op int)   {}
func (m *poolM) applyNosync(op int) outcome {
	return try(func() string {
		switch op {
		case 0:
			v := m.n.Get()
			switch x := v.(type) {
			case nil:
				total := 0
				for _, c := range m.avail {
					total += c
				}
				if m.withNew {
					m.bad = "Get returned nil although New is set"
				}
				_ = total
			case int:
				if x >= 100 {
					// produced by New: always allowed
				} else if m.avail[x] > 0 {
					m.avail[x]--
				} else {
					m.bad = fmt.Sprintf("Get returned %d which was not available (duplicated or invented)", x)
				}
			}
		case 1:
			m.n.Put(1)
			m.avail[1]++
		case 2:
			m.n.Put(2)
			m.avail[2]++
		case 3:
			m.n.Put(nil)
		}
		return ""
	})
}
func (m *poolM) applySync(op int) outcome {
	if m.bad != "" {
		b := m.bad
		m.bad = ""
		return outcome{result: "contract violated: " + b}
	}
	return outcome{}
}
func (m *poolM) key() string { return fmt.Sprintf("%v|%v|%+v", m.withNew, m.avail, m.n) }

// Run explores every primitive to the given depth.
func Run(depth int) (Stats, []Violation) {
	var st Stats
	var v []Violation
	explore("Mutex", func() machine { return &mutexM{} }, depth+3, &st, &v)
	explore("RWMutex", func() machine { return &rwM{} }, depth, &st, &v)
	explore("WaitGroup", func() machine { return &wgM{} }, depth, &st, &v)
	explore("Once", func() machine { return &onceM{} }, depth, &st, &v)
	md := depth - 2
	if md < 3 {
		md = 3
	}
	explore("Map", func() machine { return &mapM{model: map[string]int{}} }, md, &st, &v)
	explore("Pool", func() machine { return &poolM{avail: map[int]int{}} }, depth, &st, &v)
	explore("Pool+New", func() machine {
		p := &poolM{avail: map[int]int{}, withNew: true}
		p.n.New = func() any { p.newCnt++; return 100 + p.newCnt }
		return p
	}, depth, &st, &v)
	return st, v
}
