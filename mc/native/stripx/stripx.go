// Package stripx is the C16 explorer of the whitespace / comment remover used for minified
// output: every sequence of up to N tokens from a JavaScript token alphabet, joined by every
// separator, goes through the REAL removeWhitespace (verif hook); the result, with the source-map
// hints taken out as the output filter does, must tokenize exactly like the input, strings must be
// byte-identical and every hint must stay between the same two tokens.
package stripx

import (
	"bytes"
	"fmt"
	"go/token"
	"runtime"
	"strings"
	"sync"

	"github.com/gopherjs/gopherjs/compiler"
)

// Tokens of the alphabet. Strings cover escapes, comment look-alikes and a literal that ends in an
// escaped backslash; H is a real position hint.
var words = []string{"a", "$b", "_c1", "return", "typeof", "new", "in", "instanceof", "var", "function", "else", "case", "void", "delete", "throw", "this"}
var numbers = []string{"1", "1.5", "0x1f", "1e3"}
var strs = []string{`""`, `"s"`, `"a b"`, `"q\"q"`, `"end\\"`, `"\\"`, `"// x"`, `"/* x */"`, `" /*"`, `"a\\\"b "`, `"'"`, `"  "`, `"\n \t"`}
var puncts = []string{"+", "-", "++", "--", "!", "~", "(", ")", "{", "}", "[", "]", ";", ",", "=", "==", "===", "/", "*", "%", ".", ":", "?", "<", ">", ">>", ">>>", "&&", "||", "&", "|", "^", "=>"}
var seps = []string{" ", "\n", "\t", " \n\t ", " /* c */ ", "\n/* c */\n"}

type tok struct {
	text string
	kind byte // w word, n number, s string, p punct, h hint
}

// lex is the reference tokenizer; hints are reported separately with the number of tokens before them.
func lex(src []byte) (toks []string, hints []int, err error) {
	i := 0
	for i < len(src) {
		c := src[i]
		switch {
		case c == '\b':
			if i+2 >= len(src) {
				return nil, nil, fmt.Errorf("truncated hint")
			}
			n := 3 + int(src[i+1])<<8 + int(src[i+2])
			if i+n > len(src) {
				return nil, nil, fmt.Errorf("truncated hint")
			}
			hints = append(hints, len(toks))
			i += n
		case c == ' ' || c == '\t' || c == '\n' || c == '\r':
			i++
		case c == '/' && i+1 < len(src) && src[i+1] == '*':
			j := bytes.Index(src[i+2:], []byte("*/"))
			if j < 0 {
				return nil, nil, fmt.Errorf("unterminated comment")
			}
			i += j + 4
		case c == '/' && i+1 < len(src) && src[i+1] == '/':
			return nil, nil, fmt.Errorf("line comment")
		case c == '"':
			j := i + 1
			for j < len(src) && src[j] != '"' {
				if src[j] == '\\' {
					j++
				}
				j++
			}
			if j >= len(src) {
				return nil, nil, fmt.Errorf("unterminated string")
			}
			toks = append(toks, string(src[i:j+1]))
			i = j + 1
		case isWord(c):
			j := i
			for j < len(src) && (isWord(src[j]) || (src[j] == '.' && c >= '0' && c <= '9' && j+1 < len(src) && src[j+1] >= '0' && src[j+1] <= '9')) {
				j++
			}
			toks = append(toks, string(src[i:j]))
			i = j
		default:
			best := string(c)
			for _, p := range puncts {
				if len(p) > len(best) && bytes.HasPrefix(src[i:], []byte(p)) {
					best = p
				}
			}
			toks = append(toks, best)
			i += len(best)
		}
	}
	return toks, hints, nil
}

func isWord(c byte) bool {
	return c == '_' || c == '$' || (c >= 'a' && c <= 'z') || (c >= 'A' && c <= 'Z') || (c >= '0' && c <= '9')
}

type Result struct {
	Sequences  int
	Skipped    int
	Violations []string
	mu         sync.Mutex
}

// Class is the adjacency class of a byte: word characters and string quotes as such, punctuation by itself.
func Class(c byte) byte {
	if isWord(c) {
		return 'w'
	}
	return c
}

// Adjacencies returns the set of (last byte class of a token, first byte class of the next token) pairs
// that occur separated by white space or comments in real generated code.
func Adjacencies(js []byte, into map[[2]byte]bool) {
	i := 0
	var prev byte
	havePrev, gap := false, false
	for i < len(js) {
		c := js[i]
		switch {
		case c == ' ' || c == '\t' || c == '\n' || c == '\r':
			gap = true
			i++
		case c == '/' && i+1 < len(js) && js[i+1] == '*':
			j := bytes.Index(js[i+2:], []byte("*/"))
			if j < 0 {
				return
			}
			gap = true
			i += j + 4
		case c == '"':
			j := i + 1
			for j < len(js) && js[j] != '"' {
				if js[j] == '\\' {
					j++
				}
				j++
			}
			if havePrev && gap {
				into[[2]byte{prev, '"'}] = true
			}
			prev, havePrev, gap = '"', true, false
			i = j + 1
		default:
			if havePrev && gap {
				into[[2]byte{prev, Class(c)}] = true
			}
			prev, havePrev, gap = Class(c), true, false
			i++
		}
	}
}

// outside reports whether the adjacency of two tokens across white space never occurs in generated code.
func outside(adj map[[2]byte]bool, prev, next tok) bool {
	if prev.kind == 'h' || next.kind == 'h' {
		return false
	}
	return !adj[[2]byte{Class(prev.text[len(prev.text)-1]), Class(next.text[0])}]
}

// Run enumerates all sequences of up to maxLen tokens (the alphabet is reduced for lengths above fullLen) whose
// adjacencies across white space all belong to adj, the adjacencies observed in real generated code.
func Run(maxLen, fullLen int, adj map[[2]byte]bool) *Result {
	r := &Result{}
	hint := string(compiler.VerifPosHint(token.Pos(1234)))
	var alpha []tok
	for _, w := range words {
		alpha = append(alpha, tok{w, 'w'})
	}
	for _, n := range numbers {
		alpha = append(alpha, tok{n, 'n'})
	}
	for _, s := range strs {
		alpha = append(alpha, tok{s, 's'})
	}
	for _, p := range puncts {
		alpha = append(alpha, tok{p, 'p'})
	}
	alpha = append(alpha, tok{hint, 'h'})
	small := []tok{{"a", 'w'}, {"return", 'w'}, {"in", 'w'}, {"function", 'w'}, {"1", 'n'}, {`"end\\"`, 's'}, {`"a b"`, 's'}, {`"/* x */"`, 's'}, {"-", 'p'}, {"--", 'p'}, {"+", 'p'}, {"(", 'p'}, {")", 'p'}, {"/", 'p'}, {"=", 'p'}, {";", 'p'}, {hint, 'h'}}
	smallSeps := []string{" ", "\n", " /* c */ "}
	type job struct{ first int }
	var wg sync.WaitGroup
	jobs := make(chan job, len(alpha))
	for w := 0; w < runtime.NumCPU(); w++ {
		wg.Add(1)
		go func() {
			defer wg.Done()
			var buf bytes.Buffer
			local := &Result{}
			var rec func(seq []tok, sp []string, n int, al []tok, ss []string)
			check := func(seq []tok, sp []string) {
				buf.Reset()
				for i, t := range seq {
					if i > 0 {
						buf.WriteString(sp[i-1])
					}
					buf.WriteString(t.text)
				}
				buf.WriteString(";\n;") // generated code pieces end in punctuation
				in := append([]byte{}, buf.Bytes()...)
				local.Sequences++
				wt, wh, err := lex(in)
				if err != nil {
					local.Skipped++
					return
				}
				var out []byte
				func() {
					defer func() {
						if e := recover(); e != nil {
							out = nil
							local.Violations = append(local.Violations, fmt.Sprintf("C16/strip/panic %q: removeWhitespace panics: %v", in, e))
						}
					}()
					out = compiler.VerifRemoveWhitespace(append([]byte{}, in...), true)
				}()
				if out == nil {
					return
				}
				gt, gh, err := lex(out)
				if err != nil || strings.Join(gt, "\x00") != strings.Join(wt, "\x00") || fmt.Sprint(gh) != fmt.Sprint(wh) {
					local.Violations = append(local.Violations, fmt.Sprintf("C16/strip/%s input %q -> output %q: tokens %q (hints before token %v), want %q (%v) %v", classOf(seq), in, out, gt, gh, wt, wh, err))
				}
			}
			rec = func(seq []tok, sp []string, n int, al []tok, ss []string) {
				check(seq, sp)
				if len(seq) == n {
					return
				}
				for _, t := range al {
					for _, s := range ss {
						last := seq[len(seq)-1]
						if last.kind == 'h' && len(seq) >= 2 {
							last = seq[len(seq)-2] // a hint is transparent: the neighbours are the tokens around it
						}
						if outside(adj, last, t) {
							continue
						}
						rec(append(seq, t), append(sp, s), n, al, ss)
					}
				}
			}
			for j := range jobs {
				rec([]tok{alpha[j.first]}, nil, fullLen, alpha, seps)
				if maxLen > fullLen && j.first < len(small) {
					rec([]tok{small[j.first]}, nil, maxLen, small, smallSeps)
				}
			}
			r.mu.Lock()
			r.Sequences += local.Sequences
			r.Skipped += local.Skipped
			r.Violations = append(r.Violations, local.Violations...)
			r.mu.Unlock()
		}()
	}
	for i := range alpha {
		jobs <- job{i}
	}
	close(jobs)
	wg.Wait()
	return r
}

func classOf(seq []tok) string {
	var b strings.Builder
	for _, t := range seq {
		b.WriteByte(t.kind)
	}
	return b.String()
}
