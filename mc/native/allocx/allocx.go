// Package allocx explores the identifier allocator (funcContext.newVariable) directly
// through the verif hooks, on real function contexts.
package allocx

import (
	"fmt"

	"github.com/gopherjs/gopherjs/compiler"
)

type Result struct {
	States, Transitions int
	LongRuns            int
	Violations          []string
	Samples             []string
}

type scope struct {
	s       *compiler.VerifScope
	parent  int
	visible map[string]bool // names visible in this scope: inherited at creation + own + package-level
	depth   int
}

// replay a sequence of ops on fresh contexts, with the stack discipline of the compiler: only the
// innermost live function context allocates; op 0 = local, 1 = package-level, 2 = open a nested
// function context, 3 = close the innermost one.
func replay(ops []int, minify bool, names []string) (bad string, ok bool) {
	root := &scope{s: compiler.VerifNewRootScope(minify), parent: -1, visible: map[string]bool{}}
	stack := []*scope{root}
	pkgLevel := map[string]bool{}
	for i, op := range ops {
		cur := stack[len(stack)-1]
		req := names[i%len(names)]
		switch op {
		case 0:
			if len(stack) == 1 {
				return "", false // locals are requested in function contexts only
			}
			n := cur.s.NewVariable(req, false)
			if cur.visible[n] || pkgLevel[n] {
				return fmt.Sprintf("local name %q collides with a name visible in its scope", n), true
			}
			if compiler.VerifReserved(n) {
				return fmt.Sprintf("local name %q is a reserved word", n), true
			}
			cur.visible[n] = true
		case 1:
			n := cur.s.NewVariable(req, true)
			if pkgLevel[n] {
				return fmt.Sprintf("package-level name %q allocated twice", n), true
			}
			for _, sc := range stack {
				if sc.visible[n] {
					return fmt.Sprintf("package-level name %q collides with a local of an enclosing function", n), true
				}
			}
			if compiler.VerifReserved(n) {
				return fmt.Sprintf("package-level name %q is a reserved word", n), true
			}
			pkgLevel[n] = true
		case 2:
			if len(stack) >= 4 {
				return "", false
			}
			c := &scope{s: cur.s.Child(), visible: map[string]bool{}}
			for k := range cur.visible {
				c.visible[k] = true
			}
			stack = append(stack, c)
		case 3:
			if len(stack) == 1 {
				return "", false
			}
			stack = stack[:len(stack)-1]
		}
	}
	return "", true
}

// Run enumerates all op sequences up to the given length (both minified and plain allocation).
func Run(maxLen int) Result {
	var r Result
	names := []string{"x", "x", "y", "do", "in", "x$1", "a", "console"}
	for _, minify := range []bool{true, false} {
		var rec func(ops []int)
		rec = func(ops []int) {
			if len(ops) > 0 {
				bad, ok := replay(ops, minify, names)
				if !ok {
					return // op not applicable: prune
				}
				r.States++
				if bad != "" {
					r.Violations = append(r.Violations, fmt.Sprintf("C16/alloc/minify=%v/ops=%v %s", minify, ops, bad))
					return
				}
			}
			if len(ops) == maxLen {
				return
			}
			for op := 0; op < 4; op++ {
				r.Transitions++
				rec(append(append([]int{}, ops...), op))
			}
		}
		rec(nil)
		// long runs: many requests crossing the 26 / 702 / 18278 name boundaries
		for _, n := range []int{30, 800, 19000} {
			root := compiler.VerifNewRootScope(minify)
			f := root.Child()
			seenF, seenG, pkg := map[string]bool{}, map[string]bool{}, map[string]bool{}
			fail := func(i int, nm string) {
				r.Violations = append(r.Violations, fmt.Sprintf("C16/alloc/long/minify=%v/n=%d request %d returned %q: duplicate or reserved", minify, n, i, nm))
			}
			for i := 0; i < n; i++ {
				nm := f.NewVariable("v", false)
				if seenF[nm] || compiler.VerifReserved(nm) {
					fail(i, nm)
					break
				}
				seenF[nm] = true
			}
			g := f.Child()
			for i := 0; i < n; i++ {
				nm := g.NewVariable("v", i%2 == 0)
				if i%2 == 0 {
					if pkg[nm] || seenF[nm] || seenG[nm] || compiler.VerifReserved(nm) {
						fail(n+i, nm)
						break
					}
					pkg[nm] = true
				} else {
					if seenG[nm] || seenF[nm] || pkg[nm] || compiler.VerifReserved(nm) {
						fail(n+i, nm)
						break
					}
					seenG[nm] = true
				}
			}
			r.LongRuns++
			if len(r.Samples) < 3 {
				r.Samples = append(r.Samples, fmt.Sprintf("long run minify=%v: %d locals in a function, then %d requests alternating package-level / local in a nested function, all distinct", minify, n, n))
			}
		}
	}
	return r
}
