// Package overlayx is the C12 explorer: every pair (original declarations, overlay
// declarations with directives) over a shape alphabet is merged by the REAL
// parseAndAugment (the overlay sources are served through natives.FS, the original
// sources through the package's build context: verif hooks natives.VerifSetFS and
// build.VerifParseAndAugment) and compared with an independent declaration-level
// model of the documented rules; the result must type-check.
package overlayx

import (
	"bytes"
	"fmt"
	"go/ast"
	"go/constant"
	"go/importer"
	"go/parser"
	"go/printer"
	"go/token"
	"go/types"
	"runtime"
	"sort"
	"strings"
	"sync"

	gbuild "github.com/gopherjs/gopherjs/build"
	"github.com/gopherjs/gopherjs/compiler/natives"
)

// sym is one original top-level declaration (possibly declaring several names).
type sym struct {
	id      string
	text    string
	names   []string // declared keys: "f1", "T1.m1", "T1", "v1" ... (method keys as Recv.Name)
	kind    string   // func | method | type | var | const
	recv    string   // receiver type name for methods
	imports []string // import lines this declaration needs
}

var origSyms = []sym{
	{id: "f1", text: "// f1 doc\nfunc f1() int { return 1 }", names: []string{"f1"}, kind: "func"},
	{id: "f2", text: "func f2(a, b int) (int, error) { return utf8.RuneLen(rune(a + b)), nil }", names: []string{"f2"}, kind: "func", imports: []string{`"unicode/utf8"`}},
	{id: "T1", text: "type T1 struct{ a int }", names: []string{"T1"}, kind: "type"},
	{id: "m1", text: "func (t T1) m1() int { return 2 }", names: []string{"T1.m1"}, kind: "method", recv: "T1"},
	{id: "pm1", text: "func (t *T1) pm1() int { return 3 }", names: []string{"T1.pm1"}, kind: "method", recv: "T1"},
	{id: "T23", text: "type (\n\tT2 int\n\tT3 string\n)", names: []string{"T2", "T3"}, kind: "type"},
	{id: "G1", text: "type G1[X any] struct{ x X }", names: []string{"G1"}, kind: "type"},
	{id: "gm", text: "func (g *G1[X]) gm() int { return 4 }", names: []string{"G1.gm"}, kind: "method", recv: "G1"},
	{id: "v1", text: "var v1 = 10", names: []string{"v1"}, kind: "var"},
	{id: "v23", text: "var v2, v3 = 20, bits.Len(30)", names: []string{"v2", "v3"}, kind: "var", imports: []string{`"math/bits"`}},
	{id: "v45", text: "var v4, v5 = two()", names: []string{"v4", "v5"}, kind: "var"},
	{id: "v67", text: "var (\n\tv6, v7 int\n\tv8 = \"s\" // line comment\n)", names: []string{"v6", "v7", "v8"}, kind: "var"},
	{id: "c1", text: "const c1 = 5", names: []string{"c1"}, kind: "const"},
	{id: "k", text: "const (\n\tk0 = iota\n\tk1\n\tk2\n)", names: []string{"k0", "k1", "k2"}, kind: "const"},
	{id: "m", text: "const (\n\tm0 = iota * 10\n\tm1\n\tm2 = \"x\"\n)", names: []string{"m0", "m1", "m2"}, kind: "const"},
	// an explicit iota-free spec in the middle of a group: the specs after it still count from the start of the group
	{id: "n", text: "const (\n\tn0 = iota\n\tn1\n\tn2 = \"s\"\n\tn3 = iota\n\tn4\n)", names: []string{"n0", "n1", "n2", "n3", "n4"}, kind: "const"},
	// multi-name specs, the second one repeating the expression list of the first implicitly
	{id: "mc", text: "const (\n\tmcA, mcB = iota, iota * 10\n\tmcC, mcD\n)", names: []string{"mcA", "mcB", "mcC", "mcD"}, kind: "const"},
	// a method that happens to be called init is an ordinary method
	{id: "minit", text: "func (t *T1) init() int { return 5 }", names: []string{"T1.init"}, kind: "method", recv: "T1"},
	// package initialisers never override each other: both sides stay
	{id: "pinit", text: "func init() { _, _ = two() }", names: []string{"init"}, kind: "pkginit"},
	// a file whose only remaining reason to import unsafe is a go:linkname directive (last / not last line of its comment group)
	{id: "lk1", text: "func fu1() uintptr { return unsafe.Sizeof(0) }\n\n// lk1 is provided elsewhere.\n//go:linkname lk1 runtime.lk1\nfunc lk1() int", names: []string{"fu1", "lk1"}, kind: "func", imports: []string{`"unsafe"`}},
	{id: "lk2", text: "func fu2() uintptr { return unsafe.Sizeof(0) }\n\n//go:linkname lk2 runtime.lk2\n//go:noescape\nfunc lk2() int", names: []string{"fu2", "lk2"}, kind: "func", imports: []string{`"unsafe"`}},
	// the only use of an import is in the signature
	{id: "f3", text: "func f3(t *unicode.RangeTable) int { return 3 }", names: []string{"f3"}, kind: "func", imports: []string{`"unicode"`}},
}

// fixed part of the original package (never overridden)
const origBase = "func two() (int, int) { return 1, 2 }\n\nvar keepUsed = unsafe.Sizeof(0)\n\nvar keepDot = Inf()\n"

// imports of the fixed part: unsafe (used), a blank import and a dot import (both must survive any merge)
var baseImports = []string{`"unsafe"`, `_ "unicode/utf16"`, `. "math/cmplx"`}

// action on one name in the overlay
type action struct {
	key  string // name key
	kind string // override | keep | purge | sig | purgespec
}

func overlayText(s sym, key, act string) (string, bool) {
	name := key
	if i := strings.IndexByte(key, '.'); i >= 0 {
		name = key[i+1:]
	}
	recvOf := func(star bool) string {
		r := s.recv
		if s.id == "gm" {
			r = "G1[X]"
		}
		if star || s.id == "pm1" || s.id == "gm" {
			return "(t *" + r + ") "
		}
		return "(t " + r + ") "
	}
	switch s.kind {
	case "func":
		switch act {
		case "override":
			return "func " + name + "() string { return \"ov\" }", true
		case "keep":
			if s.id == "f2" {
				return "//gopherjs:keep-original\nfunc f2(a, b int) (int, error) { return _gopherjs_original_f2(a, b) }", true
			}
			if s.id == "f3" {
				return "//gopherjs:keep-original\nfunc f3(t *unicode.RangeTable) int { return _gopherjs_original_f3(t) }", true
			}
			if name == "fu1" || name == "fu2" {
				return "//gopherjs:keep-original\nfunc " + name + "() uintptr { return _gopherjs_original_" + name + "() + 1 }", true
			}
			if name == "lk1" || name == "lk2" {
				return "", false // a body-less function has nothing to keep
			}
			return "//gopherjs:keep-original\nfunc " + name + "() int { return _gopherjs_original_" + name + "() + 1 }", true
		case "purge":
			return "//gopherjs:purge\nfunc " + name + "()", true
		case "sig":
			if s.id == "f2" {
				return "//gopherjs:override-signature\nfunc f2(a, b int8) (int, error)", true
			}
			if s.id == "f3" {
				return "//gopherjs:override-signature\nfunc f3(t int) int", true
			}
			if name == "fu1" || name == "fu2" {
				return "//gopherjs:override-signature\nfunc " + name + "() uintptr", true
			}
			return "//gopherjs:override-signature\nfunc " + name + "() int", true
		}
	case "pkginit":
		if act == "override" {
			return "func init() { _ = 0 }", true
		}
	case "method":
		switch act {
		case "override":
			return "func " + recvOf(false) + name + "() string { return \"ov\" }", true
		case "keep":
			return "//gopherjs:keep-original\nfunc " + recvOf(false) + name + "() int { return t._gopherjs_original_" + name + "() + 1 }", true
		case "purge":
			return "//gopherjs:purge\nfunc " + recvOf(false) + name + "()", true
		case "sig":
			return "//gopherjs:override-signature\nfunc " + recvOf(false) + name + "() int", true
		}
	case "type":
		switch act {
		case "override":
			if name == "G1" {
				return "type G1[X any] struct{ y X }", true
			}
			return "type " + name + " struct{ z int }", true
		case "purge":
			if name == "G1" {
				return "//gopherjs:purge\ntype G1[X any] struct{}", true
			}
			return "//gopherjs:purge\ntype " + name + " struct{}", true
		case "purgespec":
			return "type (\n\t//gopherjs:purge\n\t" + name + " struct{}\n\tExtra" + name + " int\n)", true
		}
	case "var":
		switch act {
		case "override":
			return "var " + name + " = \"ov\"", true
		case "purge":
			return "//gopherjs:purge\nvar " + name + " int", true
		case "purgespec":
			return "var (\n\t//gopherjs:purge\n\t" + name + " int\n\tExtra" + name + " int\n)", true
		}
	case "const":
		switch act {
		case "override":
			return "const " + name + " = 100", true
		case "purge":
			return "//gopherjs:purge\nconst " + name + " = 0", true
		case "purgespec":
			return "const (\n\t//gopherjs:purge\n\t" + name + " = 0\n\tExtra" + name + " = 1\n)", true
		}
	}
	return "", false
}

var actsByKind = map[string][]string{
	"func":    {"override", "keep", "purge", "sig"},
	"method":  {"override", "keep", "purge", "sig"},
	"type":    {"override", "purge", "purgespec"},
	"var":     {"override", "purge", "purgespec"},
	"const":   {"override", "purge", "purgespec"},
	"pkginit": {"override"},
}

type Result struct {
	Pairs      int
	Nontrivial int
	Violations []string
	Samples    []string
	mu         sync.Mutex
}

var imp types.Importer
var impMu sync.Mutex

type lockedImporter struct{ i types.Importer }

func (l lockedImporter) Import(p string) (*types.Package, error) {
	impMu.Lock()
	defer impMu.Unlock()
	return l.i.Import(p)
}

func fileText(decls []string, imports []string, extra string) string {
	var b strings.Builder
	b.WriteString("package p\n\n")
	seen := map[string]bool{}
	for _, im := range imports {
		if !seen[im] {
			seen[im] = true
			b.WriteString("import " + im + "\n")
		}
	}
	b.WriteString("\n" + extra + "\n")
	for _, d := range decls {
		b.WriteString(d + "\n\n")
	}
	return b.String()
}

// declared keys of a set of files -> count; plus func signatures and var/const specs
type pkgFacts struct {
	keys    map[string]int
	sigs    map[string]string
	consts  map[string]string
	order   []string
	imports map[string]bool
}

func facts(fset *token.FileSet, files []*ast.File, info *types.Info) pkgFacts {
	f := pkgFacts{keys: map[string]int{}, sigs: map[string]string{}, consts: map[string]string{}, imports: map[string]bool{}}
	for _, file := range files {
		for _, is := range file.Imports {
			n := ""
			if is.Name != nil {
				n = is.Name.Name + " "
			}
			f.imports[n+is.Path.Value] = true
		}
		for _, d := range file.Decls {
			switch d := d.(type) {
			case *ast.FuncDecl:
				k := d.Name.Name
				if d.Recv != nil && len(d.Recv.List) == 1 {
					t := d.Recv.List[0].Type
					if s, ok := t.(*ast.StarExpr); ok {
						t = s.X
					}
					if ix, ok := t.(*ast.IndexExpr); ok {
						t = ix.X
					}
					if id, ok := t.(*ast.Ident); ok {
						k = id.Name + "." + k
					}
				}
				f.keys[k]++
				var sb bytes.Buffer
				printer.Fprint(&sb, fset, d.Type)
				f.sigs[k] = sb.String()
				f.order = append(f.order, k)
			case *ast.GenDecl:
				for _, s := range d.Specs {
					switch s := s.(type) {
					case *ast.TypeSpec:
						f.keys[s.Name.Name]++
						f.order = append(f.order, s.Name.Name)
					case *ast.ValueSpec:
						for _, n := range s.Names {
							if n.Name == "_" {
								continue
							}
							f.keys[n.Name]++
							f.order = append(f.order, n.Name)
							if info != nil {
								if c, ok := info.Defs[n].(*types.Const); ok && c != nil && c.Val() != nil && c.Val().Kind() != constant.Unknown && c.Type() != nil {
									f.consts[n.Name] = c.Val().ExactString() + ":" + c.Type().String()
								}
							}
						}
					}
				}
			}
		}
	}
	return f
}

func check(fset *token.FileSet, files []*ast.File) (*types.Info, error) {
	info := &types.Info{Defs: map[*ast.Ident]types.Object{}}
	conf := types.Config{Importer: imp}
	_, err := conf.Check("p", fset, files, info)
	return info, err
}

// prepared is one (original symbols, overlay actions) pair, rendered to sources.
type prepared struct {
	id         string
	syms       []sym
	acts       []action
	byKey      map[string]sym
	newSym     bool
	split      bool // every original declaration in its own file
	isTest     bool
	origFiles  map[string]string // file name -> source
	origNames  []string
	ovSrc      string
	importPath string
}

func prepare(syms []sym, acts []action, newSym, split, isTest bool) *prepared {
	p := &prepared{syms: syms, acts: acts, newSym: newSym, split: split, isTest: isTest, byKey: map[string]sym{}, origFiles: map[string]string{}}
	for _, s := range syms {
		for _, k := range s.names {
			p.byKey[k] = s
		}
	}
	id := ""
	for _, s := range syms {
		id += s.id + "+"
	}
	id = "C12/orig=" + strings.TrimSuffix(id, "+") + "/ov="
	var vDecls []string
	for _, a := range acts {
		t, ok := overlayText(p.byKey[a.key], a.key, a.kind)
		if !ok {
			return nil
		}
		vDecls = append(vDecls, t)
		id += a.key + ":" + a.kind + ","
	}
	if newSym {
		vDecls = append(vDecls, "func brandNew() int { return bits.Len(7) }")
		id += "new,"
	}
	id = strings.TrimSuffix(id, ",")
	if split {
		id += "/split"
	}
	if isTest {
		id += "/test"
	}
	p.id = id
	if split {
		p.origFiles["a_base.go"] = fileText(nil, baseImports, origBase)
		for i, s := range syms {
			p.origFiles[fmt.Sprintf("b%d_%s.go", i, s.id)] = fileText([]string{s.text}, s.imports, "")
		}
	} else {
		var oDecls, oImports []string
		for _, s := range syms {
			oDecls = append(oDecls, s.text)
			oImports = append(oImports, s.imports...)
		}
		oImports = append(oImports, baseImports...)
		p.origFiles["orig.go"] = fileText(oDecls, oImports, origBase)
	}
	for n := range p.origFiles {
		p.origNames = append(p.origNames, n)
	}
	sort.Strings(p.origNames)
	var ovImports []string
	ovAll := strings.Join(vDecls, "\n")
	if strings.Contains(ovAll, "bits.") {
		ovImports = append(ovImports, `"math/bits"`)
	}
	if strings.Contains(ovAll, "unicode.") {
		ovImports = append(ovImports, `"unicode"`)
	}
	p.ovSrc = fileText(vDecls, ovImports, "")
	return p
}

func (p *prepared) origText() string {
	var b strings.Builder
	for _, n := range p.origNames {
		b.WriteString("// ---- file " + n + "\n" + p.origFiles[n] + "\n")
	}
	return b.String()
}

const testOnlyOverlay = "package p\n\nfunc brandNewInTest() int { return 1 }\n"
const incJS = "// an .inc.js file next to the overlay sources\n"

// fsFiles are the entries this pair contributes to the overlay file system.
func (p *prepared) fsFiles(m map[string]string) {
	m["src/"+p.importPath+"/ov.go"] = p.ovSrc
	m["src/"+p.importPath+"/ov_test.go"] = testOnlyOverlay
	m["src/"+p.importPath+"/shim.inc.js"] = incJS
}

// evalPair merges one prepared pair with the real parseAndAugment and compares with the model.
func evalPair(r *Result, p *prepared) {
	id, acts, byKey, newSym := p.id, p.acts, p.byKey, p.newSym
	origSrc, ovSrc := p.origText(), p.ovSrc
	// reference facts of the original alone
	rfset := token.NewFileSet()
	var rofs []*ast.File
	for _, n := range p.origNames {
		rof, err := parser.ParseFile(rfset, n, p.origFiles[n], parser.ParseComments)
		if err != nil {
			r.add(id, "generator bug: original does not parse: "+err.Error())
			return
		}
		rofs = append(rofs, rof)
	}
	rinfo, rerr := check(rfset, rofs)
	if rerr != nil {
		r.add(id, "generator bug: original alone does not type-check: "+rerr.Error())
		return
	}
	origFacts := facts(rfset, rofs, rinfo)
	rvf, err := parser.ParseFile(token.NewFileSet(), "overlay.go", ovSrc, parser.ParseComments)
	if err != nil {
		r.add(id, "generator bug: overlay does not parse: "+err.Error()+"\n"+ovSrc)
		return
	}
	ovFacts := facts(token.NewFileSet(), []*ast.File{rvf}, nil)

	var merged []*ast.File
	var jsFiles []string
	fset := token.NewFileSet()
	func() {
		defer func() {
			if e := recover(); e != nil {
				r.add(id, fmt.Sprintf("merge panics: %v", e))
				merged = nil
			}
		}()
		var err error
		merged, jsFiles, err = gbuild.VerifParseAndAugment(p.importPath, p.origFiles, p.isTest, fset)
		if err != nil {
			r.add(id, "merge fails: "+err.Error())
			merged = nil
		}
	}()
	if merged == nil {
		return
	}
	// print and re-parse
	pfset := token.NewFileSet()
	var pfiles []*ast.File
	var texts []string
	for i, f := range merged {
		var b bytes.Buffer
		if err := printer.Fprint(&b, fset, f); err != nil {
			r.add(id, "merged file cannot be printed: "+err.Error())
			return
		}
		texts = append(texts, b.String())
		pf, err := parser.ParseFile(pfset, fmt.Sprintf("m%d.go", i), b.String(), parser.ParseComments)
		if err != nil {
			r.add(id, "merged file does not parse: "+err.Error()+"\n"+b.String())
			return
		}
		pfiles = append(pfiles, pf)
	}
	minfo, merr := check(pfset, pfiles)
	got := facts(pfset, pfiles, minfo)

	// ---- the model ----
	want := map[string]int{}
	wantSig := map[string]string{}
	purgedTypes := map[string]bool{}
	actOf := map[string]string{}
	for _, a := range acts {
		actOf[a.key] = a.kind
		if (a.kind == "purge" || a.kind == "purgespec") && byKey[a.key].kind == "type" {
			purgedTypes[a.key] = true
		}
	}
	for k := range origFacts.keys {
		want[k] = 1
		wantSig[k] = origFacts.sigs[k]
	}
	for k, a := range actOf {
		if byKey[k].kind == "pkginit" {
			want[k] = 2 // the overlay's init is added, the original one stays
			delete(wantSig, k)
			continue
		}
		switch a {
		case "override":
			want[k] = 1 // replaced by the overlay declaration
			wantSig[k] = ovFacts.sigs[k]
		case "keep":
			want[k] = 1
			wantSig[k] = ovFacts.sigs[k]
			ok := keepName(k)
			want[ok] = 1
			wantSig[ok] = origFacts.sigs[k]
		case "purge", "purgespec":
			delete(want, k)
			delete(wantSig, k)
		case "sig":
			want[k] = 1 // original body under the overlay's signature
			wantSig[k] = ovFacts.sigs[k]
		}
	}
	for k := range origFacts.keys {
		if i := strings.IndexByte(k, '.'); i >= 0 && purgedTypes[k[:i]] {
			// methods of a purged type go with it (unless the overlay re-declares them)
			if _, has := actOf[k]; !has {
				delete(want, k)
				delete(wantSig, k)
			}
		}
	}
	for k, a := range actOf {
		if a == "purgespec" {
			want["Extra"+k] = 1
		}
	}
	if newSym {
		want["brandNew"] = 1
		wantSig["brandNew"] = ovFacts.sigs["brandNew"]
	}
	if p.isTest {
		want["brandNewInTest"] = 1 // overlay _test.go files take part only in test builds
	}
	// a purged type with remaining overlay methods would be inconsistent input: skip such pairs
	for k, a := range actOf {
		if i := strings.IndexByte(k, '.'); i >= 0 && purgedTypes[k[:i]] && a != "purge" {
			return
		}
	}
	r.count(len(acts) > 0)
	var problems []string
	for k, n := range want {
		if got.keys[k] != n {
			problems = append(problems, fmt.Sprintf("%s declared %d times, want %d", k, got.keys[k], n))
		}
	}
	for k, n := range got.keys {
		if want[k] == 0 {
			problems = append(problems, fmt.Sprintf("unexpected declaration %s (x%d)", k, n))
		}
	}
	for k, s := range wantSig {
		if s != "" && got.sigs[k] != "" && got.sigs[k] != s {
			problems = append(problems, fmt.Sprintf("signature of %s is %q, want %q", k, got.sigs[k], s))
		}
	}
	if merr != nil {
		problems = append(problems, "merged package does not type-check: "+merr.Error())
	} else {
		// untouched constants keep their values
		for k, v := range origFacts.consts {
			if _, touched := actOf[k]; touched {
				continue
			}
			if got.consts[k] != v {
				problems = append(problems, fmt.Sprintf("untouched constant %s changed from %s to %s", k, v, got.consts[k]))
			}
		}
	}
	// relative order of untouched original declarations is preserved
	var wo, go_ []string
	for _, k := range origFacts.order {
		if _, touched := actOf[k]; !touched && want[k] == 1 {
			wo = append(wo, k)
		}
	}
	inWo := map[string]bool{}
	for _, k := range wo {
		inWo[k] = true
	}
	for _, k := range got.order {
		if inWo[k] {
			go_ = append(go_, k)
		}
	}
	if strings.Join(wo, ",") != strings.Join(go_, ",") {
		problems = append(problems, fmt.Sprintf("order of untouched declarations changed: %v -> %v", wo, go_))
	}
	// used, blank and dot imports stay (an import that became unused and was kept fails the type-check above)
	for _, im := range baseImports {
		if !got.imports[im] {
			problems = append(problems, "import "+im+" of the original was dropped")
		}
	}
	// an original file that still carries a go:linkname directive must still import unsafe
	for i, f := range pfiles {
		hasDirective, hasUnsafe := false, false
		for _, cg := range f.Comments {
			for _, c := range cg.List {
				if strings.HasPrefix(c.Text, "//go:linkname ") {
					hasDirective = true
				}
			}
		}
		for _, is := range f.Imports {
			if is.Path.Value == `"unsafe"` {
				hasUnsafe = true
			}
		}
		if hasDirective && !hasUnsafe {
			problems = append(problems, fmt.Sprintf("merged file %d keeps a go:linkname directive but no longer imports unsafe", i))
		}
	}
	// files: one per input file (how they are named or ordered is not part of the property); .inc.js files are found
	wantFiles := 1 + len(p.origNames)
	if p.isTest {
		wantFiles++
	}
	if len(merged) != wantFiles {
		problems = append(problems, fmt.Sprintf("%d merged files, want %d", len(merged), wantFiles))
	}
	if len(jsFiles) != 1 || !strings.HasSuffix(jsFiles[0], "shim.inc.js") {
		problems = append(problems, fmt.Sprintf(".inc.js files of the overlay directory: got %v, want shim.inc.js", jsFiles))
	}
	if len(problems) > 0 {
		sort.Strings(problems)
		r.add(id, strings.Join(problems, "; ")+"\n--- original ---\n"+origSrc+"\n--- overlay ---\n"+ovSrc+"\n--- merged ---\n"+strings.Join(texts, "\n//----\n"))
	}
}

func keepName(k string) string {
	if i := strings.IndexByte(k, '.'); i >= 0 {
		return k[:i+1] + "_gopherjs_original_" + k[i+1:]
	}
	return "_gopherjs_original_" + k
}

func (r *Result) add(id, what string) {
	r.mu.Lock()
	r.Violations = append(r.Violations, id+"\x00"+what)
	r.mu.Unlock()
}

func (r *Result) count(nontrivial bool) {
	r.mu.Lock()
	r.Pairs++
	if nontrivial {
		r.Nontrivial++
	}
	r.mu.Unlock()
}

// runBatch installs the overlay sources of a batch of pairs as natives.FS (one package directory per pair)
// and evaluates the pairs in parallel; natives.FS is restored afterwards.
func runBatch(r *Result, batch []*prepared) {
	fsFiles := map[string]string{}
	for i, p := range batch {
		if p.importPath == "" {
			p.importPath = fmt.Sprintf("vp/p%d", i)
		}
		p.fsFiles(fsFiles)
	}
	restore := natives.VerifSetFS(fsFiles)
	defer restore()
	var wg sync.WaitGroup
	jobs := make(chan *prepared, len(batch))
	for _, p := range batch {
		jobs <- p
	}
	close(jobs)
	for w := 0; w < runtime.NumCPU(); w++ {
		wg.Add(1)
		go func() {
			defer wg.Done()
			for p := range jobs {
				evalPair(r, p)
			}
		}()
	}
	wg.Wait()
}

// Run enumerates all pairs with up to maxOrig original declarations and up to maxActs overlay actions;
// original sets of the full size maxOrig get at most topActs actions (and two of the four layout variants
// when topActs < maxActs).
func Run(maxOrig, maxActs, topActs int) *Result {
	imp = lockedImporter{importer.ForCompiler(token.NewFileSet(), "source", nil)}
	// warm the importer
	for _, p := range []string{"unicode/utf8", "math/bits", "unsafe", "unicode", "unicode/utf16", "math/cmplx"} {
		imp.Import(p)
	}
	r := &Result{}
	var batch []*prepared
	submit := func(p *prepared) {
		if p == nil {
			return
		}
		batch = append(batch, p)
		if len(batch) == 2048 {
			runBatch(r, batch)
			batch = nil
		}
	}
	n := len(origSyms)
	var choose func(start int, cur []sym)
	emit := func(cur []sym) {
		// methods need their type present
		has := map[string]bool{}
		for _, s := range cur {
			has[s.id] = true
		}
		for _, s := range cur {
			if (s.id == "m1" || s.id == "pm1" || s.id == "minit") && !has["T1"] {
				return
			}
			if s.id == "gm" && !has["G1"] {
				return
			}
		}
		var keys []struct{ key, kind string }
		for _, s := range cur {
			for _, k := range s.names {
				keys = append(keys, struct{ key, kind string }{k, s.kind})
			}
		}
		// layouts: all originals in one file / every declaration in its own file; a test build adds the overlay's _test.go file
		type variant struct{ newSym, split, isTest bool }
		variants := []variant{{false, false, false}, {true, true, true}, {true, false, false}, {false, true, false}}
		maxActs := maxActs
		if len(cur) == maxOrig && topActs < maxActs {
			maxActs = topActs
			variants = variants[:2]
		}
		for vi, v := range variants {
			submit(prepare(cur, nil, v.newSym, v.split, v.isTest))
			for i, k1 := range keys {
				for _, a1 := range actsByKind[k1.kind] {
					submit(prepare(cur, []action{{k1.key, a1}}, v.newSym, v.split, v.isTest))
					if maxActs < 2 || (topActs < 2 && vi >= 2) {
						// quick tier: pairs of actions in two of the four layout variants
						continue
					}
					for _, k2 := range keys[i+1:] {
						for _, a2 := range actsByKind[k2.kind] {
							submit(prepare(cur, []action{{k1.key, a1}, {k2.key, a2}}, v.newSym, v.split, v.isTest))
						}
					}
				}
			}
		}
		if len(r.Samples) < 4 && len(cur) == maxOrig {
			ids := ""
			for _, s := range cur {
				ids += s.id + " "
			}
			r.Samples = append(r.Samples, "original {"+strings.TrimSpace(ids)+"} x every overlay action on <= "+fmt.Sprint(maxActs)+" of its names, x {one file, one file per declaration} x {with, without a brand-new overlay symbol} x {normal, test build}")
		}
	}
	choose = func(start int, cur []sym) {
		if len(cur) > 0 {
			emit(cur)
		}
		if len(cur) == maxOrig {
			return
		}
		for i := start; i < n; i++ {
			choose(i+1, append(append([]sym{}, cur...), origSyms[i]))
		}
	}
	choose(0, nil)
	if len(batch) > 0 {
		runBatch(r, batch)
	}
	runImportSubst(r)
	runTestVariants(r)
	return r
}

// runTestVariants: which overlay files take part in a plain build, in a build for the internal tests and in a
// build of the external test package (import path with the _test suffix).
func runTestVariants(r *Result) {
	fsFiles := map[string]string{
		"src/vt/p/ov.go":        "package p\n\nfunc FromPlain() int { return 1 }\n",
		"src/vt/p/ov_test.go":   "package p\n\nfunc FromInternalTest() int { return 2 }\n",
		"src/vt/p/ov_x_test.go": "package p_test\n\nfunc FromExternalTest() int { return 3 }\n",
	}
	restore := natives.VerifSetFS(fsFiles)
	defer restore()
	cases := []struct {
		name, path string
		isTest     bool
		orig       string
		want       string
	}{
		{"plain", "vt/p", false, "package p\n\nfunc Orig() int { return 0 }\n", "FromPlain,Orig"},
		{"internal-test", "vt/p", true, "package p\n\nfunc Orig() int { return 0 }\n", "FromInternalTest,FromPlain,Orig"},
		{"external-test", "vt/p_test", true, "package p_test\n\nfunc OrigX() int { return 0 }\n", "FromExternalTest,OrigX"},
	}
	for _, c := range cases {
		id := "C12/testvariant/" + c.name
		fset := token.NewFileSet()
		var merged []*ast.File
		func() {
			defer func() {
				if e := recover(); e != nil {
					r.add(id, fmt.Sprintf("merge panics: %v", e))
					merged = nil
				}
			}()
			var err error
			merged, _, err = gbuild.VerifParseAndAugment(c.path, map[string]string{"orig.go": c.orig}, c.isTest, fset)
			if err != nil {
				r.add(id, "merge fails: "+err.Error())
				merged = nil
			}
		}()
		if merged == nil {
			continue
		}
		r.count(true)
		got := facts(fset, merged, nil)
		var names []string
		for k := range got.keys {
			names = append(names, k)
		}
		sort.Strings(names)
		if strings.Join(names, ",") != c.want {
			r.add(id, fmt.Sprintf("declarations of the merged package: %s, want %s", strings.Join(names, ","), c.want))
		}
	}
}

// runImportSubst enumerates (import path of the package) x (form of a "sync" import in the original) x
// (overlay with / without an override): for the documented list of packages the import must be redirected to
// nosync under the name the code uses; everywhere else it must stay as written.
func runImportSubst(r *Result) {
	listed := []string{"crypto/rand", "encoding/gob", "encoding/json", "expvar", "go/token", "log", "math/big", "math/rand", "regexp", "time"}
	unlisted := []string{"vp/q", "sync/atomic", "strings", "time/tzdata", "math", "encoding/xml", "log/syslog", "regexp/syntax", "go/ast", "rand"}
	forms := []struct{ spec, use, wantListed string }{
		{`"sync"`, "sync", `sync "github.com/gopherjs/gopherjs/nosync"`},
		{`s "sync"`, "s", `s "github.com/gopherjs/gopherjs/nosync"`},
		{`sync "sync"`, "sync", `sync "github.com/gopherjs/gopherjs/nosync"`},
	}
	isListed := map[string]bool{}
	for _, p := range listed {
		isListed[p] = true
	}
	// what the overlay directory of the package holds
	overlays := []struct {
		name  string
		files map[string]string
	}{
		{"helper", map[string]string{"ov.go": "package p\n\nfunc helper() int { return 1 }\n"}},
		{"none", nil},
		{"empty", map[string]string{"ov.go": "package p\n"}},
		{"testonly", map[string]string{"ov_test.go": "package p\n\nfunc helper() int { return 1 }\n"}},
		{"incjsonly", map[string]string{"x.inc.js": "// js\n"}},
	}
	for _, ov := range overlays {
		var jobs []importJob
		fsFiles := map[string]string{"src/placeholder/p.go": "package placeholder\n"}
		for _, ip := range append(append([]string{}, listed...), unlisted...) {
			for fi := range forms {
				jobs = append(jobs, importJob{ip, fi, false, ov.name})
				if ov.name == "helper" {
					jobs = append(jobs, importJob{ip, fi, true, ov.name})
				}
			}
			for n, src := range ov.files {
				fsFiles["src/"+ip+"/"+n] = src
			}
		}
		runImportJobs(r, fsFiles, jobs, forms, isListed)
	}
}

type importJob struct {
	path     string
	form     int
	override bool
	overlay  string
}

func runImportJobs(r *Result, fsFiles map[string]string, jobs []importJob, forms []struct{ spec, use, wantListed string }, isListed map[string]bool) {
	restore := natives.VerifSetFS(fsFiles)
	defer restore()
	for _, j := range jobs {
		f := forms[j.form]
		id := fmt.Sprintf("C12/imports/pkg=%s/form=%s/overlay=%s/override=%v", j.path, strings.ReplaceAll(f.spec, `"`, ""), j.overlay, j.override)
		orig := "package p\n\nimport " + f.spec + "\nimport \"unicode/utf8\"\n\nvar mu " + f.use + ".Mutex\n\nfunc helper() int { return utf8.RuneLen('x') }\n\nfunc other() int { return 2 }\n"
		if !j.override {
			orig = strings.Replace(orig, "func helper() int { return utf8.RuneLen('x') }", "func helper2() int { return utf8.RuneLen('x') }", 1)
		}
		fset := token.NewFileSet()
		var merged []*ast.File
		func() {
			defer func() {
				if e := recover(); e != nil {
					r.add(id, fmt.Sprintf("merge panics: %v", e))
					merged = nil
				}
			}()
			var err error
			merged, _, err = gbuild.VerifParseAndAugment(j.path, map[string]string{"orig.go": orig}, false, fset)
			if err != nil {
				r.add(id, "merge fails: "+err.Error())
				merged = nil
			}
		}()
		if merged == nil {
			continue
		}
		r.count(true)
		got := facts(fset, merged[len(merged)-1:], nil)
		want := f.spec
		if isListed[j.path] {
			want = f.wantListed
		}
		var problems []string
		if !got.imports[want] {
			problems = append(problems, "the sync import of the original should read "+want)
		}
		for im := range got.imports {
			if im != want && im != `"unicode/utf8"` {
				problems = append(problems, "unexpected import "+im)
			}
		}
		if j.override == got.imports[`"unicode/utf8"`] {
			problems = append(problems, fmt.Sprintf("unicode/utf8 import present=%v although its only user was overridden=%v", got.imports[`"unicode/utf8"`], j.override))
		}
		if len(problems) > 0 {
			var b bytes.Buffer
			printer.Fprint(&b, fset, merged[len(merged)-1])
			sort.Strings(problems)
			r.add(id, strings.Join(problems, "; ")+"\n--- original ---\n"+orig+"\n--- merged original ---\n"+b.String())
		}
	}
}
