// Package overlayx is the C12 explorer: every pair (original declarations, overlay
// declarations with directives) over a shape alphabet is merged by the REAL overlay
// machinery (verif hook mirroring parseAndAugment) and compared with an independent
// declaration-level model of the documented rules; the result must type-check.
package overlayx

import (
	"bytes"
	"fmt"
	"go/ast"
	"go/constant"
	"go/importer"
	"go/parser"
	"go/printer"
	"go/token"
	"go/types"
	"runtime"
	"sort"
	"strings"
	"sync"

	gbuild "github.com/gopherjs/gopherjs/build"
)

// sym is one original top-level declaration (possibly declaring several names).
type sym struct {
	id      string
	text    string
	names   []string // declared keys: "f1", "T1.m1", "T1", "v1" ... (method keys as Recv.Name)
	kind    string   // func | method | type | var | const
	recv    string   // receiver type name for methods
	imports []string // import lines this declaration needs
}

var origSyms = []sym{
	{id: "f1", text: "// f1 doc\nfunc f1() int { return 1 }", names: []string{"f1"}, kind: "func"},
	{id: "f2", text: "func f2(a, b int) (int, error) { return utf8.RuneLen(rune(a + b)), nil }", names: []string{"f2"}, kind: "func", imports: []string{`"unicode/utf8"`}},
	{id: "T1", text: "type T1 struct{ a int }", names: []string{"T1"}, kind: "type"},
	{id: "m1", text: "func (t T1) m1() int { return 2 }", names: []string{"T1.m1"}, kind: "method", recv: "T1"},
	{id: "pm1", text: "func (t *T1) pm1() int { return 3 }", names: []string{"T1.pm1"}, kind: "method", recv: "T1"},
	{id: "T23", text: "type (\n\tT2 int\n\tT3 string\n)", names: []string{"T2", "T3"}, kind: "type"},
	{id: "G1", text: "type G1[X any] struct{ x X }", names: []string{"G1"}, kind: "type"},
	{id: "gm", text: "func (g *G1[X]) gm() int { return 4 }", names: []string{"G1.gm"}, kind: "method", recv: "G1"},
	{id: "v1", text: "var v1 = 10", names: []string{"v1"}, kind: "var"},
	{id: "v23", text: "var v2, v3 = 20, bits.Len(30)", names: []string{"v2", "v3"}, kind: "var", imports: []string{`"math/bits"`}},
	{id: "v45", text: "var v4, v5 = two()", names: []string{"v4", "v5"}, kind: "var"},
	{id: "v67", text: "var (\n\tv6, v7 int\n\tv8 = \"s\" // line comment\n)", names: []string{"v6", "v7", "v8"}, kind: "var"},
	{id: "c1", text: "const c1 = 5", names: []string{"c1"}, kind: "const"},
	{id: "k", text: "const (\n\tk0 = iota\n\tk1\n\tk2\n)", names: []string{"k0", "k1", "k2"}, kind: "const"},
	{id: "m", text: "const (\n\tm0 = iota * 10\n\tm1\n\tm2 = \"x\"\n)", names: []string{"m0", "m1", "m2"}, kind: "const"},
}

// fixed part of the original package (never overridden)
const origBase = "func two() (int, int) { return 1, 2 }\n\nvar keepUsed = unsafe.Sizeof(0)\n"

// action on one name in the overlay
type action struct {
	key  string // name key
	kind string // override | keep | purge | sig | purgespec
}

func overlayText(s sym, key, act string) (string, bool) {
	name := key
	if i := strings.IndexByte(key, '.'); i >= 0 {
		name = key[i+1:]
	}
	recvOf := func(star bool) string {
		r := s.recv
		if s.id == "gm" {
			r = "G1[X]"
		}
		if star || s.id == "pm1" || s.id == "gm" {
			return "(t *" + r + ") "
		}
		return "(t " + r + ") "
	}
	switch s.kind {
	case "func":
		switch act {
		case "override":
			return "func " + name + "() string { return \"ov\" }", true
		case "keep":
			if s.id == "f2" {
				return "//gopherjs:keep-original\nfunc f2(a, b int) (int, error) { return _gopherjs_original_f2(a, b) }", true
			}
			return "//gopherjs:keep-original\nfunc " + name + "() int { return _gopherjs_original_" + name + "() + 1 }", true
		case "purge":
			return "//gopherjs:purge\nfunc " + name + "()", true
		case "sig":
			if s.id == "f2" {
				return "//gopherjs:override-signature\nfunc f2(a, b int8) (int, error)", true
			}
			return "//gopherjs:override-signature\nfunc " + name + "() int", true
		}
	case "method":
		switch act {
		case "override":
			return "func " + recvOf(false) + name + "() string { return \"ov\" }", true
		case "keep":
			return "//gopherjs:keep-original\nfunc " + recvOf(false) + name + "() int { return t._gopherjs_original_" + name + "() + 1 }", true
		case "purge":
			return "//gopherjs:purge\nfunc " + recvOf(false) + name + "()", true
		case "sig":
			return "//gopherjs:override-signature\nfunc " + recvOf(false) + name + "() int", true
		}
	case "type":
		switch act {
		case "override":
			if name == "G1" {
				return "type G1[X any] struct{ y X }", true
			}
			return "type " + name + " struct{ z int }", true
		case "purge":
			if name == "G1" {
				return "//gopherjs:purge\ntype G1[X any] struct{}", true
			}
			return "//gopherjs:purge\ntype " + name + " struct{}", true
		case "purgespec":
			return "type (\n\t//gopherjs:purge\n\t" + name + " struct{}\n\tExtra" + name + " int\n)", true
		}
	case "var":
		switch act {
		case "override":
			return "var " + name + " = \"ov\"", true
		case "purge":
			return "//gopherjs:purge\nvar " + name + " int", true
		}
	case "const":
		switch act {
		case "override":
			return "const " + name + " = 100", true
		case "purge":
			return "//gopherjs:purge\nconst " + name + " = 0", true
		}
	}
	return "", false
}

var actsByKind = map[string][]string{
	"func":   {"override", "keep", "purge", "sig"},
	"method": {"override", "keep", "purge", "sig"},
	"type":   {"override", "purge", "purgespec"},
	"var":    {"override", "purge"},
	"const":  {"override", "purge"},
}

type Result struct {
	Pairs      int
	Nontrivial int
	Violations []string
	Samples    []string
	mu         sync.Mutex
}

var imp types.Importer
var impMu sync.Mutex

type lockedImporter struct{ i types.Importer }

func (l lockedImporter) Import(p string) (*types.Package, error) {
	impMu.Lock()
	defer impMu.Unlock()
	return l.i.Import(p)
}

func fileText(decls []string, imports []string, extra string) string {
	var b strings.Builder
	b.WriteString("package p\n\n")
	seen := map[string]bool{}
	for _, im := range imports {
		if !seen[im] {
			seen[im] = true
			b.WriteString("import " + im + "\n")
		}
	}
	b.WriteString("\n" + extra + "\n")
	for _, d := range decls {
		b.WriteString(d + "\n\n")
	}
	return b.String()
}

// declared keys of a set of files -> count; plus func signatures and var/const specs
type pkgFacts struct {
	keys   map[string]int
	sigs   map[string]string
	consts map[string]string
	order  []string
	imports map[string]bool
}

func facts(fset *token.FileSet, files []*ast.File, info *types.Info) pkgFacts {
	f := pkgFacts{keys: map[string]int{}, sigs: map[string]string{}, consts: map[string]string{}, imports: map[string]bool{}}
	for _, file := range files {
		for _, is := range file.Imports {
			n := ""
			if is.Name != nil {
				n = is.Name.Name + " "
			}
			f.imports[n+is.Path.Value] = true
		}
		for _, d := range file.Decls {
			switch d := d.(type) {
			case *ast.FuncDecl:
				k := d.Name.Name
				if d.Recv != nil && len(d.Recv.List) == 1 {
					t := d.Recv.List[0].Type
					if s, ok := t.(*ast.StarExpr); ok {
						t = s.X
					}
					if ix, ok := t.(*ast.IndexExpr); ok {
						t = ix.X
					}
					if id, ok := t.(*ast.Ident); ok {
						k = id.Name + "." + k
					}
				}
				f.keys[k]++
				var sb bytes.Buffer
				printer.Fprint(&sb, fset, d.Type)
				f.sigs[k] = sb.String()
				f.order = append(f.order, k)
			case *ast.GenDecl:
				for _, s := range d.Specs {
					switch s := s.(type) {
					case *ast.TypeSpec:
						f.keys[s.Name.Name]++
						f.order = append(f.order, s.Name.Name)
					case *ast.ValueSpec:
						for _, n := range s.Names {
							if n.Name == "_" {
								continue
							}
							f.keys[n.Name]++
							f.order = append(f.order, n.Name)
							if info != nil {
								if c, ok := info.Defs[n].(*types.Const); ok && c != nil && c.Val() != nil && c.Val().Kind() != constant.Unknown && c.Type() != nil {
									f.consts[n.Name] = c.Val().ExactString() + ":" + c.Type().String()
								}
							}
						}
					}
				}
			}
		}
	}
	return f
}

func check(fset *token.FileSet, files []*ast.File) (*types.Info, error) {
	info := &types.Info{Defs: map[*ast.Ident]types.Object{}}
	conf := types.Config{Importer: imp}
	_, err := conf.Check("p", fset, files, info)
	return info, err
}

// evalPair runs one (original symbols, overlay actions) pair.
func evalPair(r *Result, syms []sym, acts []action, newSym bool) {
	var oDecls, vDecls, oImports []string
	byKey := map[string]sym{}
	for _, s := range syms {
		oDecls = append(oDecls, s.text)
		oImports = append(oImports, s.imports...)
		for _, k := range s.names {
			byKey[k] = s
		}
	}
	oImports = append(oImports, `"unsafe"`)
	id := ""
	for _, s := range syms {
		id += s.id + "+"
	}
	id = "C12/orig=" + strings.TrimSuffix(id, "+") + "/ov="
	for _, a := range acts {
		t, ok := overlayText(byKey[a.key], a.key, a.kind)
		if !ok {
			return
		}
		vDecls = append(vDecls, t)
		id += a.key + ":" + a.kind + ","
	}
	if newSym {
		vDecls = append(vDecls, "func brandNew() int { return bits.Len(7) }")
		id += "new,"
	}
	id = strings.TrimSuffix(id, ",")
	origSrc := fileText(oDecls, oImports, origBase)
	var ovImports []string
	if newSym {
		ovImports = append(ovImports, `"math/bits"`)
	}
	ovSrc := fileText(vDecls, ovImports, "")

	fset := token.NewFileSet()
	of, err := parser.ParseFile(fset, "orig.go", origSrc, parser.ParseComments)
	if err != nil {
		r.add(id, "generator bug: original does not parse: "+err.Error())
		return
	}
	vf, err := parser.ParseFile(fset, "overlay.go", ovSrc, parser.ParseComments)
	if err != nil {
		r.add(id, "generator bug: overlay does not parse: "+err.Error()+"\n"+ovSrc)
		return
	}
	// reference facts of the original alone
	rfset := token.NewFileSet()
	rof, _ := parser.ParseFile(rfset, "orig.go", origSrc, parser.ParseComments)
	rinfo, rerr := check(rfset, []*ast.File{rof})
	if rerr != nil {
		r.add(id, "generator bug: original alone does not type-check: "+rerr.Error())
		return
	}
	origFacts := facts(rfset, []*ast.File{rof}, rinfo)
	rvf, _ := parser.ParseFile(token.NewFileSet(), "overlay.go", ovSrc, parser.ParseComments)
	ovFacts := facts(token.NewFileSet(), []*ast.File{rvf}, nil)

	var merged []*ast.File
	func() {
		defer func() {
			if e := recover(); e != nil {
				r.add(id, fmt.Sprintf("merge panics: %v", e))
			}
		}()
		merged = gbuild.VerifAugment("p", []*ast.File{vf}, []*ast.File{of})
	}()
	if merged == nil {
		return
	}
	// print and re-parse
	pfset := token.NewFileSet()
	var pfiles []*ast.File
	var texts []string
	for i, f := range merged {
		var b bytes.Buffer
		if err := printer.Fprint(&b, fset, f); err != nil {
			r.add(id, "merged file cannot be printed: "+err.Error())
			return
		}
		texts = append(texts, b.String())
		pf, err := parser.ParseFile(pfset, fmt.Sprintf("m%d.go", i), b.String(), parser.ParseComments)
		if err != nil {
			r.add(id, "merged file does not parse: "+err.Error()+"\n"+b.String())
			return
		}
		pfiles = append(pfiles, pf)
	}
	minfo, merr := check(pfset, pfiles)
	got := facts(pfset, pfiles, minfo)

	// ---- the model ----
	want := map[string]int{}
	wantSig := map[string]string{}
	purgedTypes := map[string]bool{}
	actOf := map[string]string{}
	for _, a := range acts {
		actOf[a.key] = a.kind
		if (a.kind == "purge" || a.kind == "purgespec") && byKey[a.key].kind == "type" {
			purgedTypes[a.key] = true
		}
	}
	for k := range origFacts.keys {
		want[k] = 1
		wantSig[k] = origFacts.sigs[k]
	}
	for k, a := range actOf {
		switch a {
		case "override":
			want[k] = 1 // replaced by the overlay declaration
			wantSig[k] = ovFacts.sigs[k]
		case "keep":
			want[k] = 1
			wantSig[k] = ovFacts.sigs[k]
			ok := keepName(k)
			want[ok] = 1
			wantSig[ok] = origFacts.sigs[k]
		case "purge", "purgespec":
			delete(want, k)
			delete(wantSig, k)
		case "sig":
			want[k] = 1 // original body under the overlay's signature
			wantSig[k] = ovFacts.sigs[k]
		}
	}
	for k := range origFacts.keys {
		if i := strings.IndexByte(k, '.'); i >= 0 && purgedTypes[k[:i]] {
			// methods of a purged type go with it (unless the overlay re-declares them)
			if _, has := actOf[k]; !has {
				delete(want, k)
				delete(wantSig, k)
			}
		}
	}
	for k, a := range actOf {
		if a == "purgespec" {
			want["Extra"+k] = 1
		}
	}
	if newSym {
		want["brandNew"] = 1
		wantSig["brandNew"] = ovFacts.sigs["brandNew"]
	}
	// a purged type with remaining overlay methods would be inconsistent input: skip such pairs
	for k, a := range actOf {
		if i := strings.IndexByte(k, '.'); i >= 0 && purgedTypes[k[:i]] && a != "purge" {
			return
		}
	}
	r.count(len(acts) > 0)
	var problems []string
	for k, n := range want {
		if got.keys[k] != n {
			problems = append(problems, fmt.Sprintf("%s declared %d times, want %d", k, got.keys[k], n))
		}
	}
	for k, n := range got.keys {
		if want[k] == 0 {
			problems = append(problems, fmt.Sprintf("unexpected declaration %s (x%d)", k, n))
		}
	}
	for k, s := range wantSig {
		if s != "" && got.sigs[k] != "" && got.sigs[k] != s {
			problems = append(problems, fmt.Sprintf("signature of %s is %q, want %q", k, got.sigs[k], s))
		}
	}
	if merr != nil {
		problems = append(problems, "merged package does not type-check: "+merr.Error())
	} else {
		// untouched constants keep their values
		for k, v := range origFacts.consts {
			if _, touched := actOf[k]; touched {
				continue
			}
			if got.consts[k] != v {
				problems = append(problems, fmt.Sprintf("untouched constant %s changed from %s to %s", k, v, got.consts[k]))
			}
		}
	}
	// relative order of untouched original declarations is preserved
	var wo, go_ []string
	for _, k := range origFacts.order {
		if _, touched := actOf[k]; !touched && want[k] == 1 {
			wo = append(wo, k)
		}
	}
	inWo := map[string]bool{}
	for _, k := range wo {
		inWo[k] = true
	}
	for _, k := range got.order {
		if inWo[k] {
			go_ = append(go_, k)
		}
	}
	if strings.Join(wo, ",") != strings.Join(go_, ",") {
		problems = append(problems, fmt.Sprintf("order of untouched declarations changed: %v -> %v", wo, go_))
	}
	// blank and directive-bearing imports stay
	if !got.imports[`"unsafe"`] {
		problems = append(problems, "the unsafe import (used by kept code) was dropped")
	}
	if len(problems) > 0 {
		sort.Strings(problems)
		r.add(id, strings.Join(problems, "; ")+"\n--- original ---\n"+origSrc+"\n--- overlay ---\n"+ovSrc+"\n--- merged ---\n"+strings.Join(texts, "\n//----\n"))
	}
}

func keepName(k string) string {
	if i := strings.IndexByte(k, '.'); i >= 0 {
		return k[:i+1] + "_gopherjs_original_" + k[i+1:]
	}
	return "_gopherjs_original_" + k
}

func (r *Result) add(id, what string) {
	r.mu.Lock()
	r.Violations = append(r.Violations, id+"\x00"+what)
	r.mu.Unlock()
}

func (r *Result) count(nontrivial bool) {
	r.mu.Lock()
	r.Pairs++
	if nontrivial {
		r.Nontrivial++
	}
	r.mu.Unlock()
}

// Run enumerates all pairs with up to maxOrig original declarations and up to maxActs overlay actions.
func Run(maxOrig, maxActs int) *Result {
	imp = lockedImporter{importer.ForCompiler(token.NewFileSet(), "source", nil)}
	// warm the importer
	imp.Import("unicode/utf8")
	imp.Import("math/bits")
	imp.Import("unsafe")
	r := &Result{}
	type job struct {
		syms   []sym
		acts   []action
		newSym bool
	}
	jobs := make(chan job, 1024)
	var wg sync.WaitGroup
	for w := 0; w < runtime.NumCPU(); w++ {
		wg.Add(1)
		go func() {
			defer wg.Done()
			for j := range jobs {
				evalPair(r, j.syms, j.acts, j.newSym)
			}
		}()
	}
	n := len(origSyms)
	var choose func(start int, cur []sym)
	emit := func(cur []sym) {
		// methods need their type present
		has := map[string]bool{}
		for _, s := range cur {
			has[s.id] = true
		}
		for _, s := range cur {
			if (s.id == "m1" || s.id == "pm1") && !has["T1"] {
				return
			}
			if s.id == "gm" && !has["G1"] {
				return
			}
		}
		var keys []struct{ key, kind string }
		for _, s := range cur {
			for _, k := range s.names {
				keys = append(keys, struct{ key, kind string }{k, s.kind})
			}
		}
		for _, newSym := range []bool{false, true} {
			jobs <- job{cur, nil, newSym}
			for i, k1 := range keys {
				for _, a1 := range actsByKind[k1.kind] {
					jobs <- job{cur, []action{{k1.key, a1}}, newSym}
					if maxActs < 2 {
						continue
					}
					for _, k2 := range keys[i+1:] {
						for _, a2 := range actsByKind[k2.kind] {
							jobs <- job{cur, []action{{k1.key, a1}, {k2.key, a2}}, newSym}
						}
					}
				}
			}
		}
		if len(r.Samples) < 4 && len(cur) == maxOrig {
			ids := ""
			for _, s := range cur {
				ids += s.id + " "
			}
			r.Samples = append(r.Samples, "original {"+strings.TrimSpace(ids)+"} x every overlay action on <= "+fmt.Sprint(maxActs)+" of its names, with and without a brand-new overlay symbol")
		}
	}
	choose = func(start int, cur []sym) {
		if len(cur) > 0 {
			emit(cur)
		}
		if len(cur) == maxOrig {
			return
		}
		for i := start; i < n; i++ {
			choose(i+1, append(append([]sym{}, cur...), origSyms[i]))
		}
	}
	choose(0, nil)
	close(jobs)
	wg.Wait()
	return r
}
