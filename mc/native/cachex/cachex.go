// Package cachex is the C20 explorer (runs inside a worker process whose
// XDG_CACHE_HOME points to a scratch directory, because the cache root is
// fixed at package initialisation).
package cachex

import (
	"bytes"
	"fmt"
	"go/ast"
	"go/parser"
	"go/printer"
	"go/token"
	"go/types"
	"os"
	"path/filepath"
	"reflect"
	"sort"
	"strings"
	"time"

	"github.com/gopherjs/gopherjs/build/cache"
	"github.com/gopherjs/gopherjs/compiler"
	"github.com/gopherjs/gopherjs/compiler/sources"
)

type Result struct {
	Evaluations int
	Nontrivial  int
	Violations  []string
	Samples     []string
	Counts      map[string]int
}

func (r *Result) viol(id, what string) {
	r.Violations = append(r.Violations, id+" "+what)
}

// ---- corpus ----

// Corpus returns import-free Go files that together contain every AST node kind
// registered by the serializer, comments in every position, and directives.
func Corpus() map[string][]string {
	return map[string][]string{
		"kitchen": {kitchen1, kitchen2},
		"generic": {generic1},
		"linkname": {linkname1},
		"linedirectives": {lineDirectives1, "package main\n\nfunc plain() int { return 1 }\n"},
	}
}

const kitchen1 = `// Package doc comment.
package main

// free-floating comment before the first declaration

import "unsafe"

const (
	A = iota // line comment on A
	B
	C
	// D has a doc comment
	D = "d"
)

var (
	x, y = 1, 2
	z    [3]int
	p    *int
	sz   = unsafe.Sizeof(x)
)

type (
	S struct {
		a, b int ` + "`json:\"a\"`" + `
		*E
		_ [0]func()
	}
	E struct{ e int }
	I interface {
		M(int) (string, error)
		E2
	}
	E2 interface{ N() }
	F  func(a int, rest ...string) (r int)
	M  map[string][]chan<- int
	CH <-chan chan int
	AR [2][]*S
)

func (s *S) M(n int) (string, error) { return "", nil }
func (s S) N()                       {}

func f(a int, rest ...string) (r int) {
	defer func() { r++ }()
	go func(c chan int) { c <- 1 }(make(chan int, 1))
L:
	for i := 0; i < 3; i++ {
		switch {
		case i == 0:
			continue L
		case i == 1:
			fallthrough
		default:
			break L
		}
	}
	var i interface{} = a
	switch v := i.(type) {
	case int, int8:
		_ = v
	case nil:
	}
	c := make(chan int, 1)
	select {
	case c <- 1:
	case v, ok := <-c:
		_, _ = v, ok
	default:
	}
	for k, v := range map[string]int{"a": 1} {
		_, _ = k, v
	}
	for range z {
	}
	sl := z[:]
	_ = sl[1:2:3]
	_ = &S{a: 1, E: &E{2}}
	_ = []int{1, 2}[0]
	_ = [...]string{0: "a", 2: "c"}
	_ = func() {}
	_ = i.(int)
	_ = -a + ^a - +a*a/1%2&3|4^5&^6<<1>>1
	_ = a == 1 && a != 2 || !(a < 3) || a <= 4 || a > 5 || a >= 6
	x++
	y--
	x += 2
	p = &x
	*p = 3
	if a := a + 1; a > 0 {
		goto END
	} else if a < 0 {
		return 1
	} else {
		panic("x")
	}
END:
	{
		;
	}
	var local struct{ q complex128 }
	local.q = 1 + 2i
	_ = 'r'
	_ = 1.5e3
	_ = 0x1F
	_ = ` + "`raw`" + `
	return
}
`

const kitchen2 = `package main

/* block comment
   over lines */

//gopherjs:keep-original
func keep() {}

// trailing free comment at the end of the file

func main() {
	println(f(1, "a", "b"), A, B, C, D, sz) // call
	var e E2 = S{}
	e.N()
	keep()
}

// last comment
`

const generic1 = `package main

type Number interface {
	~int | ~int8 | float64
}

type Pair[K comparable, V any] struct {
	k K
	v V
}

func (p Pair[K, V]) Key() K { return p.k }

func Map[T, U any](xs []T, f func(T) U) []U {
	var r []U
	for _, x := range xs {
		r = append(r, f(x))
	}
	return r
}

func Sum[T Number](xs ...T) (s T) {
	for _, x := range xs {
		s += x
	}
	return
}

func main() {
	p := Pair[string, int]{"a", 1}
	println(p.Key(), Sum(1, 2, 3), len(Map[int, string]([]int{1}, func(int) string { return "" })))
	type local[T any] struct{ t T }
	_ = local[int]{1}
}
`

const linkname1 = `package main

import _ "unsafe"

func impl(x int) int { return x + 1 }

func other(x int) int

func main() {
	println(other(1))
}

//go:linkname other main.impl
`

// directivePositions: one file per place a comment can be attached to or float at; the go:linkname
// directive (the one kind of comment that changes the compiled code) is put there.
var directivePositions = []string{"PKGDOC", "IMPORTDECLDOC", "IMPORTDOC", "IMPORTTRAIL", "FLOAT1", "FUNCDOC", "FUNCDOC2", "FUNCTRAIL", "TYPEDOC", "FIELDDOC", "FIELDTRAIL", "CONSTDOC", "CONSTTRAIL", "VARDOC", "LOCALDOC", "LOCALTRAIL", "STMTTRAIL", "BODYFLOAT", "LITFLOAT", "ENDFLOAT", "BLOCKFORM"}

const directiveTemplate = `<PKGDOC>package main

<IMPORTDECLDOC>import (
	<IMPORTDOC>_ "unsafe" <IMPORTTRAIL>
)

<FLOAT1>
func impl(x int) int { return x + 1 }

<FUNCDOC>func other(x int) int <FUNCTRAIL>

<TYPEDOC>type T struct {
	<FIELDDOC>a int <FIELDTRAIL>
}

const (
	<CONSTDOC>K = 1 <CONSTTRAIL>
)

<VARDOC>var g = func() int {
	<LITFLOAT>
	return K
}()

func main() {
	<LOCALDOC>var v = other(1) <LOCALTRAIL>
	v += g <STMTTRAIL>
	<BODYFLOAT>
	println(v, T{}.a)
}
<ENDFLOAT>`

// DirectiveFile renders the template with the directive at one position.
func DirectiveFile(pos string) string {
	const dir = "//go:linkname other main.impl"
	t := directiveTemplate
	for _, p := range directivePositions {
		rep := ""
		if p == pos || pos == "FUNCDOC2" && p == "FUNCDOC" {
			switch {
			case pos == "FUNCDOC2":
				rep = "// other is provided by impl.\n" + dir + "\n//go:noinline\n"
			case strings.HasSuffix(p, "TRAIL"):
				rep = dir
			case strings.HasSuffix(p, "FLOAT") || p == "FLOAT1":
				rep = dir + "\n"
			case p == "PKGDOC":
				rep = "// Package main.\n" + dir + "\n"
			default:
				rep = dir + "\n"
			}
		}
		if pos == "BLOCKFORM" && p == "FUNCDOC" {
			rep = "/* not a directive in this form */\n" + dir + "\n"
		}
		t = strings.ReplaceAll(t, "<"+p+">", rep)
	}
	return t
}

const lineDirectives1 = `// Code generated from grammar.y. DO NOT EDIT.
package main

//line grammar.y:40
func Parse(x int) int {
	y := x + 1
//line grammar.y:57
	return y * 2
}

//line /abs/lexer.l:7:3
var table = [...]int{1, 2, 3}

var tail = len(table)

func main() { println(Parse(tail), plain()) }
`

// ParseSources parses the given file texts into a Sources value.
func ParseSources(importPath string, texts []string) (*sources.Sources, error) {
	fset := token.NewFileSet()
	s := &sources.Sources{ImportPath: importPath, Dir: "/virtual/" + importPath, FileSet: fset}
	for i, t := range texts {
		f, err := parser.ParseFile(fset, fmt.Sprintf("/virtual/%s/f%d.go", importPath, i), t, parser.ParseComments)
		if err != nil {
			return nil, err
		}
		s.Files = append(s.Files, f)
	}
	return s, nil
}

func dumpSources(s *sources.Sources) string {
	var b strings.Builder
	fmt.Fprintf(&b, "importPath=%s dir=%s files=%d js=%d\n", s.ImportPath, s.Dir, len(s.Files), len(s.JSFiles))
	for _, f := range s.Files {
		var pb bytes.Buffer
		(&printer.Config{Mode: printer.UseSpaces | printer.TabIndent, Tabwidth: 8}).Fprint(&pb, s.FileSet, f)
		b.WriteString(pb.String())
		b.WriteString("\n-- positions --\n")
		ast.Inspect(f, func(n ast.Node) bool {
			if n != nil {
				fmt.Fprintf(&b, "%T@%v-%v ", n, s.FileSet.Position(n.Pos()), s.FileSet.Position(n.End()))
			}
			return true
		})
		fmt.Fprintf(&b, "\nimports=%d comments=%d\n", len(f.Imports), len(f.Comments))
		for _, cg := range f.Comments {
			fmt.Fprintf(&b, "comment@%v %q\n", s.FileSet.Position(cg.Pos()), cg.Text())
		}
	}
	for _, j := range s.JSFiles {
		fmt.Fprintf(&b, "js %s %v %q\n", j.Path, j.ModTime.UTC(), j.Content)
	}
	return b.String()
}

// Dump is what equality of cached packages means for the property: the declaration code the
// real compile pipeline produces for them (an error text if they do not compile).
func Dump(s *sources.Sources) string {
	c, err := compileSources(s, false)
	if err != nil {
		return "compile error: " + err.Error()
	}
	return c
}

func compileSources(s *sources.Sources, minify bool) (string, error) {
	tc := types.NewContext()
	imp := func(path, srcDir string) (*sources.Sources, error) {
		return nil, fmt.Errorf("import %q not available in the C20 corpus", path)
	}
	if err := compiler.PrepareAllSources([]*sources.Sources{s}, imp, tc); err != nil {
		return "", err
	}
	a, err := compiler.Compile(s, tc, minify)
	if err != nil {
		return "", err
	}
	var b strings.Builder
	// the positions the source map is built from: where the file set says every declaration and statement is
	for _, f := range s.Files {
		ast.Inspect(f, func(n ast.Node) bool {
			switch n.(type) {
			case ast.Decl, ast.Stmt:
				pos := s.FileSet.Position(n.Pos())
				fmt.Fprintf(&b, "%T@%s:%d:%d ", n, pos.Filename, pos.Line, pos.Column)
			}
			return true
		})
	}
	b.WriteString("\n")
	for _, d := range a.Declarations {
		v := reflect.ValueOf(*d)
		t := v.Type()
		for i := 0; i < t.NumField(); i++ {
			f := v.Field(i)
			switch f.Kind() {
			case reflect.String:
				fmt.Fprintf(&b, "%s=%q ", t.Field(i).Name, f.String())
			case reflect.Slice:
				if f.Type().Elem().Kind() == reflect.Uint8 {
					fmt.Fprintf(&b, "%s=%q ", t.Field(i).Name, f.Bytes())
				} else if f.Type().Elem().Kind() == reflect.String {
					fmt.Fprintf(&b, "%s=%q ", t.Field(i).Name, f.Interface())
				}
			case reflect.Bool:
				fmt.Fprintf(&b, "%s=%v ", t.Field(i).Name, f.Bool())
			}
		}
		b.WriteString("\n")
	}
	fmt.Fprintf(&b, "linknames=%v\n", a.GoLinknames)
	return b.String(), nil
}

func newCache() *cache.BuildCache {
	return &cache.BuildCache{GOOS: "js", GOARCH: "ecmascript", GOROOT: "/goroot", GOPATH: "/gopath", BuildTags: []string{"t"}, Version: "v1"}
}

// Transparency: Store, Load into a fresh Sources; structural equality and identical compilation.
func Transparency(r *Result) {
	corpus := Corpus()
	for _, p := range directivePositions {
		corpus["directive-"+p] = []string{DirectiveFile(p)}
	}
	names := []string{}
	for n := range corpus {
		names = append(names, n)
	}
	sort.Strings(names)
	for _, name := range names {
		texts := corpus[name]
		for _, minify := range []bool{false, true} {
			id := fmt.Sprintf("C20/transparent/%s/minify=%v", name, minify)
			r.Evaluations++
			orig, err := ParseSources("corp/"+name, texts)
			if err != nil {
				r.viol(id, "corpus does not parse (generator bug): "+err.Error())
				continue
			}
			bc := newCache()
			now := time.Now()
			if !bc.Store(orig, orig.ImportPath, now) {
				r.viol(id, "Store failed")
				continue
			}
			restored := &sources.Sources{}
			if !bc.Load(restored, orig.ImportPath, now.Add(-time.Hour)) {
				r.viol(id, "Load after Store is a miss")
				continue
			}
			// re-parse for the reference side (Store must not have modified orig, but keep sides independent)
			ref, _ := ParseSources("corp/"+name, texts)
			if a, b := dumpSources(ref), dumpSources(restored); a != b {
				// informational only: the property is about the compiled output (checked below)
				r.Counts["ast_dump_differs"]++
			} else {
				r.Counts["ast_dump_identical"]++
			}
			if a, b := dumpSources(ref), dumpSources(orig); a != b {
				r.viol(id+"/mutated", "Store modified the sources it was given: "+firstDiff(a, b))
			}
			ca, ea := compileSources(ref, minify)
			cb, eb := compileSources(restored, minify)
			switch {
			case ea != nil && strings.HasPrefix(name, "directive-"):
				// a directive in a place where the compiler rejects it: the restored package must be rejected the same way
				if eb == nil || eb.Error() != ea.Error() {
					r.viol(id+"/compile", fmt.Sprintf("fresh package is rejected (%v), package restored from the cache: %v", ea, eb))
				} else {
					r.Nontrivial++
				}
			case ea != nil:
				r.viol(id+"/compile-ref", "corpus does not compile (generator bug): "+ea.Error())
			case eb != nil:
				r.viol(id+"/compile", "package restored from the cache does not compile: "+eb.Error())
			case ca != cb:
				r.viol(id+"/compile", "package restored from the cache compiles to different JavaScript: "+firstDiff(ca, cb))
			default:
				r.Nontrivial++
				if len(r.Samples) < 2 {
					r.Samples = append(r.Samples, fmt.Sprintf("%s: %d bytes of declaration code identical after cache round trip", id, len(ca)))
				}
			}
		}
	}
}

func firstDiff(a, b string) string {
	n := len(a)
	if len(b) < n {
		n = len(b)
	}
	i := 0
	for i < n && a[i] == b[i] {
		i++
	}
	lo := i - 60
	if lo < 0 {
		lo = 0
	}
	ha, hb := i+60, i+60
	if ha > len(a) {
		ha = len(a)
	}
	if hb > len(b) {
		hb = len(b)
	}
	return fmt.Sprintf("at byte %d: want %q got %q", i, a[lo:ha], b[lo:hb])
}

// blob is a trivial Cacheable used for the key / staleness products.
type blob struct{ S string }

func (b *blob) Write(encode func(any) error) error { return encode(b.S) }
func (b *blob) Read(decode func(any) error) error  { return decode(&b.S) }

// Isolation: exhaustive small products over configuration fields, import paths, times, tested package.
func Isolation(r *Result) {
	type field struct{ a, b string }
	fields := []field{{"js", "linux"}, {"ecmascript", "wasm"}, {"/goroot", "/goroot2"}, {"/gopath", "/gopath:/x"}, {"", ""}, {"v1", "v2"}}
	tagSets := [][]string{{"a", "b"}, {"a,b"}, {"a b"}, {"b", "a"}, nil, {}, {"a"}, {"a", "b", ""}}
	mk := func(m int, tags []string) *cache.BuildCache {
		pick := func(i int) string {
			if m&(1<<i) != 0 {
				return fields[i].b
			}
			return fields[i].a
		}
		return &cache.BuildCache{GOOS: pick(0), GOARCH: pick(1), GOROOT: pick(2), GOPATH: pick(3), BuildTags: tags, Version: pick(5)}
	}
	now := time.Now()
	type cfg struct {
		m    int
		tags int
	}
	var cfgs []cfg
	for m := 0; m < 64; m++ {
		if m&(1<<4) != 0 {
			continue
		}
		for t := range tagSets {
			cfgs = append(cfgs, cfg{m, t})
		}
	}
	same := func(a, b cfg) bool {
		if a.m != b.m {
			return false
		}
		// nil and empty tag lists are the same build configuration
		ta, tb := tagSets[a.tags], tagSets[b.tags]
		if len(ta) == 0 && len(tb) == 0 {
			return true
		}
		return a.tags == b.tags
	}
	// (1) store under one configuration only, load under every other one: must miss
	for i, c1 := range cfgs {
		if i%7 != 0 { // every 7th configuration as the storing one keeps the product at ~25k loads
			continue
		}
		cache.Clear()
		b1 := mk(c1.m, tagSets[c1.tags])
		if !b1.Store(&blob{fmt.Sprint("cfg", i)}, "p", now) {
			r.viol(fmt.Sprintf("C20/isolation/config/store=%d", i), "Store failed")
			continue
		}
		for j, c2 := range cfgs {
			r.Evaluations++
			var got blob
			hit := mk(c2.m, tagSets[c2.tags]).Load(&got, "p", now)
			switch {
			case i == j:
				// the very same configuration must hit with its own content
				if !hit || got.S != fmt.Sprint("cfg", i) {
					r.viol(fmt.Sprintf("C20/isolation/config/same=%d.%d", c1.m, c1.tags), fmt.Sprintf("stored and loaded under %#v: hit=%v content=%q", *b1, hit, got.S))
				}
				r.Nontrivial++
			case !same(c1, c2):
				if hit {
					r.viol(fmt.Sprintf("C20/isolation/config/store=%d.%d/load=%d.%d", c1.m, c1.tags, c2.m, c2.tags), fmt.Sprintf("stored under %#v, loaded under %#v: HIT with content %q", *b1, *mk(c2.m, tagSets[c2.tags]), got.S))
				}
				r.Nontrivial++
			default:
				// equal configurations written differently (nil vs empty tag list): a miss only costs time
			}
		}
	}
	// (2) everything stored side by side: each configuration reads back its own content
	cache.Clear()
	for i, c := range cfgs {
		mk(c.m, tagSets[c.tags]).Store(&blob{fmt.Sprint("own", i)}, "p", now)
	}
	for i, c := range cfgs {
		r.Evaluations++
		var got blob
		hit := mk(c.m, tagSets[c.tags]).Load(&got, "p", now)
		ok := false
		for j, c2 := range cfgs {
			if same(c, c2) && got.S == fmt.Sprint("own", j) {
				ok = true
			}
		}
		if !hit || !ok {
			r.viol(fmt.Sprintf("C20/isolation/sidebyside/%d.%d", c.m, c.tags), fmt.Sprintf("configuration %d reads hit=%v content=%q", i, hit, got.S))
		}
	}
	// (3) import paths
	paths := []string{"p", "p/sub", "p_test", "q", "P", "p.sub", "a/b", "a", "package/p", "p/sub/sub"}
	bc := newCache()
	for i, p1 := range paths {
		cache.Clear()
		bc.Store(&blob{"path" + p1}, p1, now)
		for _, p2 := range paths {
			r.Evaluations++
			var got blob
			hit := bc.Load(&got, p2, now)
			want := p1 == p2
			if hit != want {
				r.viol(fmt.Sprintf("C20/isolation/path/store=%s/load=%s", strings.ReplaceAll(p1, "/", "_"), strings.ReplaceAll(p2, "/", "_")), fmt.Sprintf("stored for import path %q, loading %q: hit=%v", p1, p2, hit))
			}
		}
		_ = i
	}
	// (4) staleness: hit iff the sources are not newer than the build
	base := time.Unix(1700000000, 500)
	offs := []time.Duration{-time.Second, -1, 0, 1, time.Second}
	for _, ob := range offs {
		for _, os_ := range offs {
			r.Evaluations++
			cache.Clear()
			bt, st := base.Add(ob), base.Add(os_)
			bc.Store(&blob{"t"}, "p", bt)
			var got blob
			hit := bc.Load(&got, "p", st)
			want := !st.After(bt)
			if hit != want {
				r.viol(fmt.Sprintf("C20/stale/build=%v/src=%v", ob, os_), fmt.Sprintf("buildTime=base%+v srcModTime=base%+v: hit=%v want %v", ob, os_, hit, want))
			}
		}
	}
	// (5) the package under test is never cached
	for _, tested := range []string{"", "p", "q", "p_test", "a/e2e_test", "a/b"} {
		for _, ip := range []string{"p", "p_test", "q", "q_test", "pp", "p_test_test", "a/e2e_test", "a/e2e_test_test", "a/e2e", "a/b", "a/b_test", "b", "a"} {
			r.Evaluations++
			cache.Clear()
			plain := newCache()
			tb := newCache()
			tb.TestedPackage = tested
			isTested := tested != "" && (ip == tested || ip == tested+"_test")
			stored := tb.Store(&blob{"x"}, ip, now)
			if stored == isTested {
				r.viol(fmt.Sprintf("C20/tested/tested=%s/path=%s/store", strings.ReplaceAll(tested, "/", "_"), strings.ReplaceAll(ip, "/", "_")), fmt.Sprintf("Store returned %v", stored))
			}
			// an entry stored by an ordinary build must not be served for the package under test
			plain.Store(&blob{"y"}, ip, now)
			var got blob
			if hit := tb.Load(&got, ip, now); hit == isTested {
				r.viol(fmt.Sprintf("C20/tested/tested=%s/path=%s/load", strings.ReplaceAll(tested, "/", "_"), strings.ReplaceAll(ip, "/", "_")), fmt.Sprintf("Load returned %v", hit))
			}
		}
	}
}

// UsedConfigs: a BuildCache value that has already been used is copied or edited, one field at a time:
// the new configuration must not see the old one's entries (the key may not be remembered in the value).
func UsedConfigs(r *Result) {
	now := time.Now()
	edits := []struct {
		name string
		f    func(b *cache.BuildCache)
	}{
		{"GOOS", func(b *cache.BuildCache) { b.GOOS = "linux" }}, {"GOARCH", func(b *cache.BuildCache) { b.GOARCH = "wasm" }},
		{"GOROOT", func(b *cache.BuildCache) { b.GOROOT = "/other" }}, {"GOPATH", func(b *cache.BuildCache) { b.GOPATH = "/other" }},
		{"BuildTags", func(b *cache.BuildCache) { b.BuildTags = []string{"t", "u"} }}, {"BuildTags-inplace", func(b *cache.BuildCache) { b.BuildTags[0] = "z" }},
		{"Version", func(b *cache.BuildCache) { b.Version = "v2" }},
	}
	for _, e := range edits {
		for _, firstUse := range []string{"store", "load", "both"} {
			for _, how := range []string{"copy", "inplace", "pointer-copy"} {
				r.Evaluations++
				cache.Clear()
				used := newCache()
				if firstUse != "store" {
					var tmp blob
					used.Load(&tmp, "p", now)
				}
				if firstUse != "load" {
					used.Store(&blob{"old configuration"}, "p", now)
				} else {
					newCache().Store(&blob{"old configuration"}, "p", now)
				}
				var target *cache.BuildCache
				switch how {
				case "copy":
					c := *used
					c.BuildTags = append([]string{}, used.BuildTags...)
					target = &c
				case "pointer-copy":
					c := new(cache.BuildCache)
					*c = *used
					c.BuildTags = append([]string{}, used.BuildTags...)
					target = c
				default:
					target = used
				}
				e.f(target)
				var got blob
				if target.Load(&got, "p", now) {
					r.viol(fmt.Sprintf("C20/isolation/used/%s/%s/%s", e.name, firstUse, how), fmt.Sprintf("a configuration value used for %s, then %s with %s changed, reads the old configuration's entry %q", firstUse, how, e.name, got.S))
				} else {
					r.Nontrivial++
				}
			}
		}
	}
}

// FileTimes: the decision "stale or not" depends on the build time recorded when the entry was stored and on the
// time of the sources, never on the time stamps of the cache file itself (copies, restores and touch change those).
func FileTimes(r *Result, root string) {
	base := time.Now().Add(-time.Hour).Truncate(time.Second)
	for _, mt := range []time.Duration{-24 * time.Hour, -10 * time.Second, 0, 10 * time.Second, 30 * time.Minute, 24 * time.Hour} {
		for _, src := range []time.Duration{-5 * time.Second, 0, 5 * time.Second, 20 * time.Minute} {
			r.Evaluations++
			cache.Clear()
			bc := newCache()
			if !bc.Store(&blob{"built at base"}, "p", base) {
				r.viol("C20/filetimes/store", "Store failed")
				return
			}
			p, err := entryPath(root)
			if err != nil {
				r.viol("C20/filetimes/entry", err.Error())
				return
			}
			os.Chtimes(p, base.Add(mt), base.Add(mt))
			var got blob
			hit := bc.Load(&got, "p", base.Add(src))
			want := src <= 0
			if hit != want || (hit && got.S != "built at base") {
				r.viol(fmt.Sprintf("C20/filetimes/mtime=%v/src=%v", mt, src), fmt.Sprintf("entry built at T, cache file time set to T%+v, sources modified at T%+v: hit=%v want %v", mt, src, hit, want))
			} else {
				r.Nontrivial++
			}
		}
	}
	cache.Clear()
}

// entryPath finds the single cache file below root.
func entryPath(root string) (string, error) {
	var found []string
	filepath.Walk(root, func(p string, info os.FileInfo, err error) error {
		if err == nil && !info.IsDir() {
			found = append(found, p)
		}
		return nil
	})
	if len(found) != 1 {
		return "", fmt.Errorf("expected exactly one cache file, found %v", found)
	}
	return found[0], nil
}

// Damage: every truncation and every single-byte corruption of a stored entry.
func Damage(r *Result, root string, stride int) {
	for _, name := range []string{"kitchen", "generic"} {
		cache.Clear()
		orig, _ := ParseSources("corp/"+name, Corpus()[name])
		bc := newCache()
		now := time.Now()
		if !bc.Store(orig, orig.ImportPath, now) {
			r.viol("C20/damage/"+name, "Store failed")
			continue
		}
		p, err := entryPath(root)
		if err != nil {
			r.viol("C20/damage/"+name, err.Error())
			continue
		}
		good, _ := os.ReadFile(p)
		wantRef, _ := ParseSources("corp/"+name, Corpus()[name])
		want := Dump(wantRef)
		classify := func(id string, data []byte) {
			r.Evaluations++
			os.WriteFile(p, data, 0o644)
			var res string
			func() {
				defer func() {
					if e := recover(); e != nil {
						res = fmt.Sprintf("PANIC escapes Load: %v", e)
					}
				}()
				got := &sources.Sources{}
				if !bc.Load(got, orig.ImportPath, now.Add(-time.Hour)) {
					res = "miss"
					return
				}
				defer func() {
					if e := recover(); e != nil {
						res = fmt.Sprintf("hit with a package that cannot even be inspected: %v", e)
					}
				}()
				if Dump(got) == want {
					res = "hit-identical"
				} else {
					res = "hit with DIFFERENT or PARTIAL contents"
				}
			}()
			r.Counts[res[:3]]++
			switch res {
			case "miss":
				r.Nontrivial++
			case "hit-identical":
			default:
				r.viol(id, res)
			}
		}
		for l := 0; l < len(good); l++ {
			classify(fmt.Sprintf("C20/damage/%s/truncate=%d", name, l), good[:l])
			if l%64 == 0 {
				// power-loss shape: a prefix followed by a zero-filled tail up to the next 4096 boundary
				padded := append(append([]byte{}, good[:l]...), make([]byte, (4096-l%4096)%4096)...)
				classify(fmt.Sprintf("C20/damage/%s/zerotail=%d", name, l), padded)
			}
		}
		for off := 0; off < len(good); off += stride {
			for _, mask := range []byte{0x01, 0x80, 0xff} {
				d := append([]byte{}, good...)
				d[off] ^= mask
				classify(fmt.Sprintf("C20/damage/%s/flip=%d/mask=%02x", name, off, mask), d)
			}
		}
		// garbage appended / entry replaced by another package's entry
		classify(fmt.Sprintf("C20/damage/%s/appended", name), append(append([]byte{}, good...), 1, 2, 3))
		classify(fmt.Sprintf("C20/damage/%s/empty", name), nil)
		os.WriteFile(p, good, 0o644)
		if len(r.Samples) < 4 {
			r.Samples = append(r.Samples, fmt.Sprintf("damage of a %d-byte entry (%s): every truncation length and byte flips at stride %d", len(good), name, stride))
		}
	}
}

// LargeDamage: entries whose decompressed size crosses typical buffer sizes (64 KiB, 1 MiB, several MiB), with
// incompressible and compressible content; damage at spread positions, in the 8-byte trailer and at the end.
func LargeDamage(r *Result, root string, thorough bool) {
	sizes := []int{65535, 65536 + 17, 1<<20 - 1, 1<<20 + 1, 3 << 20}
	if thorough {
		sizes = append(sizes, 6<<20, 1<<20, 2<<20+5)
	}
	for _, size := range sizes {
		for _, kind := range []string{"noise", "text"} {
			cache.Clear()
			buf := make([]byte, size)
			x := uint32(12345)
			for i := range buf {
				if kind == "noise" {
					x = x*1664525 + 1013904223
					buf[i] = byte(x >> 24)
				} else {
					buf[i] = "the quick brown fox jumps over the lazy dog\n"[i%44]
				}
			}
			content := string(buf)
			bc := newCache()
			now := time.Now()
			name := fmt.Sprintf("%s-%d", kind, size)
			if !bc.Store(&blob{content}, "big", now) {
				r.viol("C20/largedamage/"+name, "Store failed")
				continue
			}
			p, err := entryPath(root)
			if err != nil {
				r.viol("C20/largedamage/"+name, err.Error())
				continue
			}
			good, _ := os.ReadFile(p)
			classify := func(id string, data []byte) {
				r.Evaluations++
				os.WriteFile(p, data, 0o644)
				var got blob
				res := "miss"
				func() {
					defer func() {
						if e := recover(); e != nil {
							res = fmt.Sprintf("PANIC escapes Load: %v", e)
						}
					}()
					if bc.Load(&got, "big", now.Add(-time.Hour)) {
						if got.S == content {
							res = "hit-identical"
						} else {
							res = fmt.Sprintf("hit with DIFFERENT contents (%d bytes, stored %d)", len(got.S), len(content))
						}
					}
				}()
				r.Counts[res[:3]]++
				switch res {
				case "miss":
					r.Nontrivial++
				case "hit-identical":
					// allowed only when the damage did not touch anything that is checked (e.g. a header field gzip ignores)
				default:
					r.viol(id, res)
				}
			}
			n := len(good)
			var offs []int
			for k := 0; k < 24; k++ {
				offs = append(offs, 10+k*(n-30)/24)
			}
			for k := 1; k <= 12; k++ {
				offs = append(offs, n-k) // the gzip trailer (CRC32, ISIZE) and the end of the deflate stream
			}
			for _, off := range offs {
				for _, mask := range []byte{0x01, 0x80} {
					d := append([]byte{}, good...)
					d[off] ^= mask
					classify(fmt.Sprintf("C20/largedamage/%s/flip=%d/mask=%02x", name, off, mask), d)
				}
			}
			for _, cut := range []int{1, 2, 3, 4, 5, 7, 8, 9, 12, 16, 100, n / 2, n - 20} {
				classify(fmt.Sprintf("C20/largedamage/%s/cut=%d", name, cut), good[:n-cut])
			}
			classify(fmt.Sprintf("C20/largedamage/%s/intact", name), good)
		}
	}
	cache.Clear()
}

// RunAll executes the in-process layers. root is the cache root (XDG_CACHE_HOME/gopherjs/build_cache).
func RunAll(root string, thorough bool) Result {
	r := Result{Counts: map[string]int{}}
	Transparency(&r)
	Isolation(&r)
	stride := 3
	if thorough {
		stride = 1
	}
	UsedConfigs(&r)
	FileTimes(&r, root)
	Damage(&r, root, stride)
	LargeDamage(&r, root, thorough)
	return r
}
