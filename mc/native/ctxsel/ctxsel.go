// Package ctxsel is the C18 explorer: every //go:build expression of depth <= 2 over a
// tag vocabulary x every file-name suffix x every subset of user tags is materialised as a
// file of one package directory; the real build context selects files; an independent
// evaluator of the documented rule decides what must be selected.
package ctxsel

import (
	"fmt"
	"go/build/constraint"
	"os"
	"os/exec"
	"path/filepath"
	"sort"
	"strings"
	"sync"

	gbuild "github.com/gopherjs/gopherjs/build"
)

var vocab = []string{"js", "ecmascript", "wasm", "linux", "unix", "gc", "gccgo", "cgo", "gopherjs", "netgo", "purego", "math_big_pure_go",
	"go1.1", "go1.19", "go1.20", "go1.21", "go1.23", "t1", "t2", "undefinedtag", "ignore", "amd64", "windows", "boringcrypto"}

var suffixes = []string{"", "_js", "_wasm", "_ecmascript", "_linux", "_js_wasm", "_js_ecmascript", "_linux_amd64", "_linux_ecmascript", "_windows", "_amd64", "_js_amd64", "_unix", "_gopherjs", "_wasm_js"}

// Known GOOS / GOARCH lists of the go/build documentation (file-name rule).
var knownOS = map[string]bool{"aix": true, "android": true, "darwin": true, "dragonfly": true, "freebsd": true, "hurd": true, "illumos": true, "ios": true, "js": true, "linux": true, "nacl": true, "netbsd": true, "openbsd": true, "plan9": true, "solaris": true, "wasip1": true, "windows": true, "zos": true}
var knownArch = map[string]bool{"386": true, "amd64": true, "amd64p32": true, "arm": true, "armbe": true, "arm64": true, "arm64be": true, "loong64": true, "mips": true, "mipsle": true, "mips64": true, "mips64le": true, "mips64p32": true, "mips64p32le": true, "ppc": true, "ppc64": true, "ppc64le": true, "riscv": true, "riscv64": true, "s390": true, "s390x": true, "sparc": true, "sparc64": true, "wasm": true}
var unixOS = map[string]bool{"aix": true, "android": true, "darwin": true, "dragonfly": true, "freebsd": true, "hurd": true, "illumos": true, "ios": true, "linux": true, "netbsd": true, "openbsd": true, "solaris": true}

// SupportedGoMinor is the Go release GopherJS documents support for (doc/compatibility.md, README).
const SupportedGoMinor = 20

// tagTrue is the documented rule: GOOS=js, GOARCH=ecmascript, compiler gc, always-on tags,
// release tags go1.1..go1.<supported>, plus command-line tags.
func tagTrue(tag string, goos, goarch string, user map[string]bool) bool {
	switch tag {
	case goos, goarch, "gc", "gopherjs", "netgo", "purego", "math_big_pure_go":
		return true
	case "unix":
		return unixOS[goos]
	}
	if strings.HasPrefix(tag, "go1.") {
		var n int
		if _, err := fmt.Sscanf(tag, "go1.%d", &n); err == nil && n >= 1 && n <= SupportedGoMinor {
			return true
		}
	}
	return user[tag]
}

// nameOK is the go/build file-name rule (*_GOOS, *_GOARCH, *_GOOS_GOARCH) with the tag rule above.
func nameOK(name string, goos, goarch string, user map[string]bool) bool {
	name = strings.TrimSuffix(name, ".go")
	i := strings.Index(name, "_")
	if i < 0 {
		return true
	}
	name = name[i:]
	l := strings.Split(name, "_")
	if n := len(l); n > 0 && l[n-1] == "test" {
		l = l[:n-1]
	}
	n := len(l)
	if n >= 2 && knownOS[l[n-2]] && knownArch[l[n-1]] {
		return tagTrue(l[n-1], goos, goarch, user) && tagTrue(l[n-2], goos, goarch, user)
	}
	if n >= 1 && (knownOS[l[n-1]] || knownArch[l[n-1]]) {
		return tagTrue(l[n-1], goos, goarch, user)
	}
	return true
}

type fileCase struct {
	name   string
	expr   string // "" = no constraint
	legacy bool
	cgo    bool
}

func exprs(depth int) []string {
	var lits []string
	for _, v := range vocab {
		lits = append(lits, v, "!"+v)
	}
	res := append([]string{}, lits...)
	if depth >= 2 {
		for _, a := range lits {
			for _, b := range lits {
				res = append(res, a+" && "+b, a+" || "+b)
			}
		}
	}
	return res
}

type Result struct {
	Decisions  int
	Files      int
	Imports    int
	Selected   int
	Violations []string
	Samples    []string
}

func userSets() [][]string {
	base := []string{"t1", "t2", "linux"}
	var res [][]string
	for m := 0; m < 8; m++ {
		var s []string
		for i, t := range base {
			if m&(1<<i) != 0 {
				s = append(s, t)
			}
		}
		res = append(res, s)
	}
	// always-on tags given again on the command line, duplicates: the result must not change
	res = append(res, []string{"gopherjs"}, []string{"t1", "gopherjs"}, []string{"netgo", "t2"}, []string{"purego"}, []string{"math_big_pure_go", "t1"}, []string{"t1", "t1"}, []string{"gc"})
	return res
}

// hostEnv is one setting of the host environment variables the build context may look at.
type hostEnv struct {
	name string
	set  map[string]string // value "\x00" = unset
}

// hostEnvs: the variables are unset, set but empty (the go tool treats that as unset), or set to the defaults;
// the host's cgo setting must never matter.
var hostEnvs = []hostEnv{
	{"default", map[string]string{"GOOS": "\x00", "GOARCH": "\x00", "CGO_ENABLED": "0"}},
	{"cgo1", map[string]string{"GOOS": "\x00", "GOARCH": "\x00", "CGO_ENABLED": "1"}},
	{"cgounset", map[string]string{"GOOS": "\x00", "GOARCH": "\x00", "CGO_ENABLED": "\x00"}},
	{"emptyosarch", map[string]string{"GOOS": "", "GOARCH": "", "CGO_ENABLED": "0"}},
	{"emptyarch", map[string]string{"GOOS": "\x00", "GOARCH": "", "CGO_ENABLED": "0"}},
	{"explicit", map[string]string{"GOOS": "js", "GOARCH": "ecmascript", "CGO_ENABLED": "0"}},
}

func (h hostEnv) apply() (restore func()) {
	old := map[string]*string{}
	for k, v := range h.set {
		if o, ok := os.LookupEnv(k); ok {
			oo := o
			old[k] = &oo
		} else {
			old[k] = nil
		}
		if v == "\x00" {
			os.Unsetenv(k)
		} else {
			os.Setenv(k, v)
		}
	}
	return func() {
		for k, o := range old {
			if o == nil {
				os.Unsetenv(k)
			} else {
				os.Setenv(k, *o)
			}
		}
	}
}

// Run materialises the files below dir and checks every (file, user tag set) decision.
func Run(work string, thorough bool) (Result, error) {
	var r Result
	dir := filepath.Join(work, "c18pkg")
	if err := os.MkdirAll(dir, 0o755); err != nil {
		return r, err
	}
	os.WriteFile(filepath.Join(work, "go.mod"), []byte("module c18mod\n\ngo 1.20\n"), 0o644)
	var files []fileCase
	n := 0
	add := func(suffix, expr string, legacy, cgo bool) {
		n++
		files = append(files, fileCase{name: fmt.Sprintf("f%05d%s.go", n, suffix), expr: expr, legacy: legacy, cgo: cgo})
	}
	depth2 := exprs(2)
	for _, e := range depth2 {
		add("", e, false, false)
	}
	d1 := exprs(1)
	for _, s := range suffixes {
		add(s, "", false, false)
		for _, e := range d1 {
			add(s, e, false, false)
		}
	}
	for _, e := range d1 {
		add("", e, true, false) // legacy "// +build" spelling
	}
	if thorough {
		// depth 3 over a reduced vocabulary
		red := []string{"js", "wasm", "gopherjs", "go1.20", "go1.21", "t1", "linux", "cgo"}
		var lits []string
		for _, v := range red {
			lits = append(lits, v, "!"+v)
		}
		for _, a := range lits {
			for _, b := range lits {
				for _, c := range lits {
					add("", "("+a+" && "+b+") || "+c, false, false)
					add("", a+" && ("+b+" || "+c+")", false, false)
					add("", "!("+a+" || "+b+") && "+c, false, false)
				}
			}
		}
		for _, s := range suffixes {
			for _, e := range depth2[:600] {
				add(s, e, false, false)
			}
		}
	}
	// every release tag, positive and negated (only go1.1 .. go1.<supported> are satisfied)
	for rel := 1; rel <= 30; rel++ {
		add("", fmt.Sprintf("go1.%d", rel), false, false)
		add("", fmt.Sprintf("!go1.%d", rel), false, false)
		add("", fmt.Sprintf("go1.%d && !go1.%d", rel, rel+1), false, false)
	}
	add("", "cgo", false, false)
	add("", "!cgo", false, false)
	add("_js", "!cgo", false, false)
	add("", "", false, true)    // imports "C"
	add("", "cgo", false, true) // imports "C" and requires cgo
	add("_js", "", false, true) // imports "C"
	add("_test", "", false, false)
	add("_js_test", "js", false, false)
	for _, f := range files {
		var b strings.Builder
		if f.expr != "" {
			if f.legacy {
				x, err := constraint.Parse("//go:build " + f.expr)
				if err != nil {
					return r, err
				}
				lines, err := constraint.PlusBuildLines(x)
				if err != nil {
					return r, err
				}
				b.WriteString(strings.Join(lines, "\n") + "\n\n")
			} else {
				b.WriteString("//go:build " + f.expr + "\n\n")
			}
		}
		b.WriteString("package c18pkg\n")
		if f.cgo {
			b.WriteString("\nimport \"C\"\n")
		}
		if err := os.WriteFile(filepath.Join(dir, f.name), []byte(b.String()), 0o644); err != nil {
			return r, err
		}
	}
	// hidden files and .inc.js files
	os.WriteFile(filepath.Join(dir, "_hidden.go"), []byte("package c18pkg\n"), 0o644)
	os.WriteFile(filepath.Join(dir, ".dot.go"), []byte("package c18pkg\n"), 0o644)
	os.WriteFile(filepath.Join(dir, "always.go"), []byte("package c18pkg\n"), 0o644)
	os.WriteFile(filepath.Join(dir, "a.inc.js"), []byte("/* a */\n"), 0o644)
	os.WriteFile(filepath.Join(dir, "b_linux.inc.js"), []byte("/* b */\n"), 0o644)
	os.WriteFile(filepath.Join(dir, "notinc.js"), []byte("/* c */\n"), 0o644)
	for _, n := range []string{"jquery.min.inc.js", "shim.v1.2.inc.js", "helper_test.inc.js", "polyfill-es2015.inc.js", "c_wasm.inc.js", "UPPER.inc.js"} {
		os.WriteFile(filepath.Join(dir, n), []byte("/* "+n+" */\n"), 0o644)
	}
	os.WriteFile(filepath.Join(dir, "_hidden.inc.js"), []byte("/* hidden */\n"), 0o644)
	os.WriteFile(filepath.Join(dir, ".dotted.inc.js"), []byte("/* dotted */\n"), 0o644)
	os.WriteFile(filepath.Join(dir, "x.inc.jsx"), []byte("/* not */\n"), 0o644)
	os.WriteFile(filepath.Join(dir, "inc.js"), []byte("/* not */\n"), 0o644)
	os.MkdirAll(filepath.Join(dir, "adir.inc.js"), 0o755)
	// symbolic links to files outside the package directory count like the files they point to
	os.MkdirAll(filepath.Join(work, "shared"), 0o755)
	os.WriteFile(filepath.Join(work, "shared", "polyfill.js"), []byte("/* shared */\n"), 0o644)
	os.WriteFile(filepath.Join(work, "shared", "linked.txt"), []byte("package c18pkg\n"), 0o644)
	os.Symlink(filepath.Join(work, "shared", "polyfill.js"), filepath.Join(dir, "linked.inc.js"))
	os.Symlink(filepath.Join(work, "shared", "linked.txt"), filepath.Join(dir, "linkedsrc.go"))
	wantJS := "UPPER.inc.js,a.inc.js,b_linux.inc.js,c_wasm.inc.js,helper_test.inc.js,jquery.min.inc.js,linked.inc.js,polyfill-es2015.inc.js,shim.v1.2.inc.js"
	r.Files = len(files) + 3
	cwd, _ := os.Getwd()
	os.Chdir(dir)
	defer os.Chdir(cwd)
	type config struct {
		us  []string
		env hostEnv
	}
	var configs []config
	for _, us := range userSets() {
		configs = append(configs, config{us, hostEnvs[0]})
	}
	for _, he := range hostEnvs[1:] {
		configs = append(configs, config{nil, he}, config{[]string{"t1", "linux"}, he})
	}
	for _, cf := range configs {
		us := cf.us
		restore := cf.env.apply()
		user := map[string]bool{}
		for _, t := range us {
			user[t] = true
		}
		xctx := gbuild.NewBuildContext("", us)
		pkg, err := xctx.Import(".", dir, 0)
		restore()
		r.Imports++
		if err != nil {
			return r, fmt.Errorf("Import failed for tags %v: %w", us, err)
		}
		got := map[string]bool{}
		for _, f := range pkg.GoFiles {
			got[f] = true
		}
		r.Selected += len(pkg.GoFiles)
		testFiles := map[string]bool{}
		for _, f := range append(append([]string{}, pkg.TestGoFiles...), pkg.XTestGoFiles...) {
			testFiles[f] = true
		}
		tagset := strings.Join(us, ",")
		if cf.env.name != "default" {
			tagset += "/env=" + cf.env.name
		}
		for _, f := range files {
			r.Decisions++
			want := nameOK(f.name, "js", "ecmascript", user)
			if want && f.expr != "" {
				x, err := constraint.Parse("//go:build " + f.expr)
				if err != nil {
					return r, err
				}
				want = x.Eval(func(tag string) bool { return tagTrue(tag, "js", "ecmascript", user) })
			}
			if f.cgo {
				want = false // cgo files are never used
			}
			isTest := strings.HasSuffix(f.name, "_test.go")
			have := got[f.name]
			if isTest {
				have = testFiles[f.name]
				if got[f.name] {
					r.Violations = append(r.Violations, fmt.Sprintf("C18/file=%s/tags=%s a _test.go file takes part in the regular build", f.name, tagset))
				}
			}
			if have != want {
				r.Violations = append(r.Violations, fmt.Sprintf("C18/expr=%s/suffix=%s/tags=%s/legacy=%v/cgo=%v file %s: selected=%v, documented rule says %v", strings.ReplaceAll(f.expr, " ", ""), suffixOf(f.name), tagset, f.legacy, f.cgo, f.name, have, want))
			}
			if len(r.Samples) < 6 && f.expr != "" && r.Decisions%977 == 0 {
				r.Samples = append(r.Samples, fmt.Sprintf("%s [//go:build %s] tags={%s} -> selected=%v", f.name, f.expr, tagset, have))
			}
		}
		if !got["linkedsrc.go"] {
			r.Violations = append(r.Violations, "C18/symlink/tags="+tagset+" a source file that is a symbolic link must be selected like a regular file")
		}
		if got["_hidden.go"] || got[".dot.go"] || !got["always.go"] {
			r.Violations = append(r.Violations, "C18/hidden/tags="+tagset+" files starting with _ or . must be ignored and plain files selected")
		}
		var js []string
		for _, j := range pkg.JSFiles {
			js = append(js, filepath.Base(j.Path))
		}
		sort.Strings(js)
		if strings.Join(js, ",") != wantJS {
			r.Violations = append(r.Violations, "C18/incjs/tags="+tagset+" .inc.js files of the package directory must all be included (and nothing else): got "+strings.Join(js, ",")+" want "+wantJS)
		}
	}
	return r, nil
}

func suffixOf(name string) string {
	name = strings.TrimSuffix(name, ".go")
	if i := strings.Index(name, "_"); i >= 0 {
		return name[i:]
	}
	return "none"
}

// StdResult holds the standard-library clause.
type StdResult struct {
	Packages, Files int
	Violations      []string
}

// RunStd compares, for real GOROOT packages, the files selected by the build context with
// the documented rule under js/wasm.
func RunStd(pkgs []string) (StdResult, error) {
	var r StdResult
	xctx := gbuild.NewBuildContext("", nil)
	goroot := xctx.Env().GOROOT
	for _, p := range pkgs {
		pkg, err := xctx.Import(p, "", 0)
		if err != nil {
			// packages that do not exist for js/wasm are simply skipped
			continue
		}
		r.Packages++
		dir := filepath.Join(goroot, "src", p)
		ents, err := os.ReadDir(dir)
		if err != nil {
			return r, err
		}
		got := map[string]bool{}
		for _, f := range pkg.GoFiles {
			got[f] = true
		}
		for _, e := range ents {
			name := e.Name()
			if e.IsDir() || !strings.HasSuffix(name, ".go") || strings.HasSuffix(name, "_test.go") || strings.HasPrefix(name, "_") || strings.HasPrefix(name, ".") {
				continue
			}
			src, err := os.ReadFile(filepath.Join(dir, name))
			if err != nil {
				return r, err
			}
			r.Files++
			want := nameOK(name, "js", "wasm", nil)
			if want {
				if x := findConstraint(string(src)); x != nil {
					want = x.Eval(func(tag string) bool { return tagTrue(tag, "js", "wasm", nil) })
				}
			}
			if strings.Contains(string(src), "\nimport \"C\"") {
				want = false
			}
			if excludedByTweak(p, name) {
				want = false
			}
			if got[name] != want {
				r.Violations = append(r.Violations, fmt.Sprintf("C18/std/pkg=%s/file=%s selected=%v, js/wasm rule says %v", p, name, got[name], want))
			}
		}
	}
	return r, nil
}

// Documented package-specific tweaks (build/context.go applyPostloadTweaks): sources fully replaced by natives.
func excludedByTweak(pkg, name string) bool {
	switch pkg {
	case "runtime", "runtime/pprof", "syscall/js":
		return true
	case "sync":
		return name == "pool.go"
	}
	return false
}

func findConstraint(src string) constraint.Expr {
	for _, line := range strings.Split(src, "\n") {
		t := strings.TrimSpace(line)
		if strings.HasPrefix(t, "package ") {
			return nil
		}
		if constraint.IsGoBuild(t) {
			if x, err := constraint.Parse(t); err == nil {
				return x
			}
		}
	}
	return nil
}

// E2EResult holds the end-to-end clause: the real command-line tool builds a package whose files
// register themselves at run time.
type E2EResult struct {
	Runs, Files, Decisions int
	Violations             []string
}

// RunE2E builds the gopherjs command from repo, then for every (tag string, host environment) builds one
// program with it and compares the files that registered themselves under Node with the documented rule.
func RunE2E(work, repo string) (E2EResult, error) {
	var r E2EResult
	bin := filepath.Join(work, "gopherjs-cli")
	cmd := exec.Command("go", "build", "-o", bin, ".")
	cmd.Dir = repo
	if out, err := cmd.CombinedOutput(); err != nil {
		return r, fmt.Errorf("building the gopherjs command: %v\n%s", err, out)
	}
	// the second module path starts with the name of a top-level directory of the standard library: its
	// packages are user packages all the same
	for mi, mod := range []string{"c18e2e", "unicode/xdemo"} {
		dir := filepath.Join(work, fmt.Sprintf("e2e%d", mi))
		os.MkdirAll(dir, 0o755)
		os.WriteFile(filepath.Join(dir, "go.mod"), []byte("module "+mod+"\n\ngo 1.20\n"), 0o644)
		os.WriteFile(filepath.Join(dir, "main.go"), []byte(`package main

import (
	"unicode/utf8"

	"`+mod+`/helper"
	_ "`+mod+`/polyfill"
	_ "`+mod+`/shim"
)

var names []string

func init() {
	if utf8.RuneLen('x') != helper.One() {
		panic("helper")
	}
}

func reg(s string) { names = append(names, s) }

func main() {
	for i := 1; i < len(names); i++ {
		for j := i; j > 0 && names[j] < names[j-1]; j-- {
			names[j], names[j-1] = names[j-1], names[j]
		}
	}
	for _, n := range names {
		println("file:" + n)
	}
}
`), 0o644)
		var files []fileCase
		n := 0
		add := func(suffix, expr string, cgo bool) {
			n++
			files = append(files, fileCase{name: fmt.Sprintf("e%04d%s.go", n, suffix), expr: expr, cgo: cgo})
		}
		for _, s := range suffixes {
			add(s, "", false)
		}
		for _, v := range vocab {
			add("", v, false)
			add("", "!"+v, false)
		}
		for rel := 1; rel <= 30; rel++ {
			add("", fmt.Sprintf("go1.%d", rel), false)
			add("", fmt.Sprintf("!go1.%d", rel), false)
		}
		// tags made of every character class a tag may hold
		for _, t := range dottedTags {
			add("", t, false)
			add("", "!"+t, false)
		}
		add("", "rel && !rel.2", false)
		add("", "t1 && t2", false)
		add("", "t1 || netgo", false)
		add("_js", "!cgo && gopherjs", false)
		add("", "", true)
		add("_test", "", false)
		for _, f := range files {
			var b strings.Builder
			if f.expr != "" {
				b.WriteString("//go:build " + f.expr + "\n\n")
			}
			b.WriteString("package main\n")
			if f.cgo {
				b.WriteString("\nimport \"C\"\n")
			}
			b.WriteString("\nfunc init() { reg(\"" + f.name + "\") }\n")
			os.WriteFile(filepath.Join(dir, f.name), []byte(b.String()), 0o644)
		}
		incs := []string{"a.inc.js", "b_linux.inc.js", "jquery.min.inc.js", "helper_test.inc.js"}
		for _, n := range incs {
			os.WriteFile(filepath.Join(dir, n), []byte("console.log(\"inc:"+n+"\");\n"), 0o644)
		}
		os.WriteFile(filepath.Join(dir, "_hidden.inc.js"), []byte("console.log(\"inc:_hidden.inc.js\");\n"), 0o644)
		// packages of the same module: one that is used, one imported for its side effects that holds nothing but
		// a package clause and a .inc.js file, one whose declarations are all unused
		var subFiles []fileCase
		for _, c := range []fileCase{{name: "h_plain.go"}, {name: "h_wasm.go"}, {name: "h_js.go"}, {name: "h_js_wasm.go"}, {name: "h_ecmascript.go"}, {name: "h_js_ecmascript.go"}, {name: "h_linux.go"},
			{name: "x1.go", expr: "wasm"}, {name: "x2.go", expr: "js && wasm"}, {name: "x3.go", expr: "!wasm"}, {name: "x4.go", expr: "ecmascript"}, {name: "x5.go", expr: "gopherjs"}, {name: "x6.go", expr: "rel.2"}, {name: "x7.go", expr: "!rel.2"}, {name: "x8.go", expr: "js && !ecmascript"}} {
			subFiles = append(subFiles, c)
		}
		os.MkdirAll(filepath.Join(dir, "helper"), 0o755)
		os.MkdirAll(filepath.Join(dir, "polyfill"), 0o755)
		os.MkdirAll(filepath.Join(dir, "shim"), 0o755)
		os.WriteFile(filepath.Join(dir, "helper", "helper.go"), []byte("package helper\n\nfunc One() int { return 1 }\n"), 0o644)
		for _, f := range subFiles {
			src := ""
			if f.expr != "" {
				src = "//go:build " + f.expr + "\n\n"
			}
			src += "package helper\n\nfunc init() { println(\"file:helper/" + f.name + "\") }\n"
			os.WriteFile(filepath.Join(dir, "helper", f.name), []byte(src), 0o644)
		}
		os.WriteFile(filepath.Join(dir, "polyfill", "doc.go"), []byte("package polyfill\n"), 0o644)
		os.WriteFile(filepath.Join(dir, "shim", "shim.go"), []byte("package shim\n\nfunc Unused() int { return 1 }\n"), 0o644)
		subIncs := []string{"helper/helper.inc.js", "polyfill/polyfill.inc.js", "shim/shim.inc.js"}
		for _, n := range subIncs {
			os.WriteFile(filepath.Join(dir, n), []byte("console.log(\"inc:"+n+"\");\n"), 0o644)
		}
		os.WriteFile(filepath.Join(dir, "polyfill", "_draft.inc.js"), []byte("console.log(\"inc:polyfill/_draft.inc.js\");\n"), 0o644)
		r.Files += len(files) + len(subFiles)
		type run struct {
			tags string
			env  hostEnv
		}
		runs := []run{
			{"", hostEnvs[0]}, {"t1", hostEnvs[0]}, {"t1 t2", hostEnvs[0]}, {"  t2   linux ", hostEnvs[0]}, {"gopherjs t1", hostEnvs[0]}, {"netgo", hostEnvs[0]},
			{"t1", hostEnvs[1]}, {"", hostEnvs[3]}, {"t2", hostEnvs[4]}, {"", hostEnvs[5]},
			{"rel.2 extra", hostEnvs[0]}, {"rel 2 a_b x.y.z v2.0_beta", hostEnvs[0]},
		}
		if mi > 0 {
			runs = []run{{"", hostEnvs[0]}, {"t1 rel.2", hostEnvs[0]}}
		}
		// the runs are independent builds: several at a time
		var wg sync.WaitGroup
		var mu sync.Mutex
		var firstErr error
		outer := &r
		sem := make(chan struct{}, 6)
		for ri, rn := range runs {
			ri, rn := ri, rn
			wg.Add(1)
			sem <- struct{}{}
			go func() {
				defer wg.Done()
				defer func() { <-sem }()
				var r E2EResult
				defer func() {
					mu.Lock()
					outer.Runs += r.Runs
					outer.Decisions += r.Decisions
					outer.Violations = append(outer.Violations, r.Violations...)
					mu.Unlock()
				}()
				r.Runs++
				id := fmt.Sprintf("C18/e2e/tags=%s/env=%s", strings.Join(strings.Fields(rn.tags), ","), rn.env.name)
				if mi > 0 {
					id = fmt.Sprintf("C18/e2e/module=%s/tags=%s/env=%s", mod, strings.Join(strings.Fields(rn.tags), ","), rn.env.name)
				}
				out := filepath.Join(work, fmt.Sprintf("e2e_out%d_%d.js", mi, ri))
				args := []string{"build", "-o", out}
				if rn.tags != "" {
					args = append(args, "--tags", rn.tags)
				}
				args = append(args, ".")
				c := exec.Command(bin, args...)
				c.Dir = dir
				env := []string{}
				for _, kv := range os.Environ() {
					k := kv[:strings.IndexByte(kv, '=')]
					if _, managed := rn.env.set[k]; !managed {
						env = append(env, kv)
					}
				}
				for k, v := range rn.env.set {
					if v != "\x00" {
						env = append(env, k+"="+v)
					}
				}
				c.Env = append(env, "GOPHERJS_SKIP_VERSION_CHECK=true")
				if o, err := c.CombinedOutput(); err != nil {
					r.Violations = append(r.Violations, id+"/build the command-line tool fails to build the package: "+strings.TrimSpace(string(o)))
					return
				}
				o, err := exec.Command("node", out).CombinedOutput()
				if err != nil {
					r.Violations = append(r.Violations, id+"/run the program fails under Node: "+strings.TrimSpace(string(o)))
					return
				}
				got := map[string]bool{}
				for _, l := range strings.Split(string(o), "\n") {
					if strings.HasPrefix(l, "file:") || strings.HasPrefix(l, "inc:") {
						got[strings.TrimSpace(l)] = true
					}
				}
				user := map[string]bool{}
				for _, t := range strings.Fields(rn.tags) {
					user[t] = true
				}
				for _, f := range files {
					r.Decisions++
					want := nameOK(f.name, "js", "ecmascript", user)
					if want && f.expr != "" {
						x, err := constraint.Parse("//go:build " + f.expr)
						if err != nil {
							mu.Lock()
							firstErr = err
							mu.Unlock()
							return
						}
						want = x.Eval(func(tag string) bool { return tagTrue(tag, "js", "ecmascript", user) })
					}
					if f.cgo || strings.HasSuffix(f.name, "_test.go") {
						want = false
					}
					if got["file:"+f.name] != want {
						r.Violations = append(r.Violations, fmt.Sprintf("%s/file=%s[%s] took part in the program: %v, documented rule says %v", id, f.name, strings.ReplaceAll(f.expr, " ", ""), got["file:"+f.name], want))
					}
				}
				for _, f := range subFiles {
					r.Decisions++
					want := nameOK(f.name, "js", "ecmascript", user)
					if want && f.expr != "" {
						x, err := constraint.Parse("//go:build " + f.expr)
						if err != nil {
							mu.Lock()
							firstErr = err
							mu.Unlock()
							return
						}
						want = x.Eval(func(tag string) bool { return tagTrue(tag, "js", "ecmascript", user) })
					}
					if got["file:helper/"+f.name] != want {
						r.Violations = append(r.Violations, fmt.Sprintf("%s/file=helper/%s[%s] took part in the program: %v, documented rule says %v", id, f.name, strings.ReplaceAll(f.expr, " ", ""), got["file:helper/"+f.name], want))
					}
				}
				for _, n := range subIncs {
					if !got["inc:"+n] {
						r.Violations = append(r.Violations, id+"/inc="+n+" the .inc.js file of an imported package is not part of the program")
					}
				}
				if got["inc:polyfill/_draft.inc.js"] {
					r.Violations = append(r.Violations, id+"/inc=polyfill/_draft.inc.js a hidden .inc.js file is part of the program")
				}
				for _, n := range incs {
					if !got["inc:"+n] {
						r.Violations = append(r.Violations, id+"/inc="+n+" the .inc.js file of the package directory is not part of the program")
					}
				}
				if got["inc:_hidden.inc.js"] {
					r.Violations = append(r.Violations, id+"/inc=_hidden.inc.js a hidden .inc.js file is part of the program")
				}
			}()
		}
		wg.Wait()
		if firstErr != nil {
			return r, firstErr
		}
		sort.Strings(r.Violations)
	}
	return r, nil
}

// dottedTags: user tags holding every character class the build-constraint syntax allows in a tag.
var dottedTags = []string{"rel.2", "rel", "2", "a_b", "x.y.z", "v2.0_beta", "extra"}
