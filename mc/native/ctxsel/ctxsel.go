// Package ctxsel is the C18 explorer: every //go:build expression of depth <= 2 over a
// tag vocabulary x every file-name suffix x every subset of user tags is materialised as a
// file of one package directory; the real build context selects files; an independent
// evaluator of the documented rule decides what must be selected.
package ctxsel

import (
	"fmt"
	"go/build/constraint"
	"os"
	"path/filepath"
	"sort"
	"strings"

	gbuild "github.com/gopherjs/gopherjs/build"
)

var vocab = []string{"js", "ecmascript", "wasm", "linux", "unix", "gc", "gccgo", "cgo", "gopherjs", "netgo", "purego", "math_big_pure_go",
	"go1.1", "go1.19", "go1.20", "go1.21", "go1.23", "t1", "t2", "undefinedtag", "ignore", "amd64", "windows", "boringcrypto"}

var suffixes = []string{"", "_js", "_wasm", "_ecmascript", "_linux", "_js_wasm", "_js_ecmascript", "_linux_amd64", "_linux_ecmascript", "_windows", "_amd64", "_js_amd64", "_unix", "_gopherjs", "_wasm_js"}

// Known GOOS / GOARCH lists of the go/build documentation (file-name rule).
var knownOS = map[string]bool{"aix": true, "android": true, "darwin": true, "dragonfly": true, "freebsd": true, "hurd": true, "illumos": true, "ios": true, "js": true, "linux": true, "nacl": true, "netbsd": true, "openbsd": true, "plan9": true, "solaris": true, "wasip1": true, "windows": true, "zos": true}
var knownArch = map[string]bool{"386": true, "amd64": true, "amd64p32": true, "arm": true, "armbe": true, "arm64": true, "arm64be": true, "loong64": true, "mips": true, "mipsle": true, "mips64": true, "mips64le": true, "mips64p32": true, "mips64p32le": true, "ppc": true, "ppc64": true, "ppc64le": true, "riscv": true, "riscv64": true, "s390": true, "s390x": true, "sparc": true, "sparc64": true, "wasm": true}
var unixOS = map[string]bool{"aix": true, "android": true, "darwin": true, "dragonfly": true, "freebsd": true, "hurd": true, "illumos": true, "ios": true, "linux": true, "netbsd": true, "openbsd": true, "solaris": true}

// SupportedGoMinor is the Go release GopherJS documents support for (doc/compatibility.md, README).
const SupportedGoMinor = 20

// tagTrue is the documented rule: GOOS=js, GOARCH=ecmascript, compiler gc, always-on tags,
// release tags go1.1..go1.<supported>, plus command-line tags.
func tagTrue(tag string, goos, goarch string, user map[string]bool) bool {
	switch tag {
	case goos, goarch, "gc", "gopherjs", "netgo", "purego", "math_big_pure_go":
		return true
	case "unix":
		return unixOS[goos]
	}
	if strings.HasPrefix(tag, "go1.") {
		var n int
		if _, err := fmt.Sscanf(tag, "go1.%d", &n); err == nil && n >= 1 && n <= SupportedGoMinor {
			return true
		}
	}
	return user[tag]
}

// nameOK is the go/build file-name rule (*_GOOS, *_GOARCH, *_GOOS_GOARCH) with the tag rule above.
func nameOK(name string, goos, goarch string, user map[string]bool) bool {
	name = strings.TrimSuffix(name, ".go")
	i := strings.Index(name, "_")
	if i < 0 {
		return true
	}
	name = name[i:]
	l := strings.Split(name, "_")
	if n := len(l); n > 0 && l[n-1] == "test" {
		l = l[:n-1]
	}
	n := len(l)
	if n >= 2 && knownOS[l[n-2]] && knownArch[l[n-1]] {
		return tagTrue(l[n-1], goos, goarch, user) && tagTrue(l[n-2], goos, goarch, user)
	}
	if n >= 1 && (knownOS[l[n-1]] || knownArch[l[n-1]]) {
		return tagTrue(l[n-1], goos, goarch, user)
	}
	return true
}

type fileCase struct {
	name   string
	expr   string // "" = no constraint
	legacy bool
	cgo    bool
}

func exprs(depth int) []string {
	var lits []string
	for _, v := range vocab {
		lits = append(lits, v, "!"+v)
	}
	res := append([]string{}, lits...)
	if depth >= 2 {
		for _, a := range lits {
			for _, b := range lits {
				res = append(res, a+" && "+b, a+" || "+b)
			}
		}
	}
	return res
}

type Result struct {
	Decisions  int
	Files      int
	Imports    int
	Selected   int
	Violations []string
	Samples    []string
}

func userSets() [][]string {
	base := []string{"t1", "t2", "linux"}
	var res [][]string
	for m := 0; m < 8; m++ {
		var s []string
		for i, t := range base {
			if m&(1<<i) != 0 {
				s = append(s, t)
			}
		}
		res = append(res, s)
	}
	return res
}

// Run materialises the files below dir and checks every (file, user tag set) decision.
func Run(work string, thorough bool) (Result, error) {
	var r Result
	dir := filepath.Join(work, "c18pkg")
	if err := os.MkdirAll(dir, 0o755); err != nil {
		return r, err
	}
	os.WriteFile(filepath.Join(work, "go.mod"), []byte("module c18mod\n\ngo 1.20\n"), 0o644)
	var files []fileCase
	n := 0
	add := func(suffix, expr string, legacy, cgo bool) {
		n++
		files = append(files, fileCase{name: fmt.Sprintf("f%05d%s.go", n, suffix), expr: expr, legacy: legacy, cgo: cgo})
	}
	depth2 := exprs(2)
	for _, e := range depth2 {
		add("", e, false, false)
	}
	d1 := exprs(1)
	for _, s := range suffixes {
		add(s, "", false, false)
		for _, e := range d1 {
			add(s, e, false, false)
		}
	}
	for _, e := range d1 {
		add("", e, true, false) // legacy "// +build" spelling
	}
	if thorough {
		// depth 3 over a reduced vocabulary
		red := []string{"js", "wasm", "gopherjs", "go1.20", "go1.21", "t1", "linux", "cgo"}
		var lits []string
		for _, v := range red {
			lits = append(lits, v, "!"+v)
		}
		for _, a := range lits {
			for _, b := range lits {
				for _, c := range lits {
					add("", "("+a+" && "+b+") || "+c, false, false)
					add("", a+" && ("+b+" || "+c+")", false, false)
					add("", "!("+a+" || "+b+") && "+c, false, false)
				}
			}
		}
		for _, s := range suffixes {
			for _, e := range depth2[:600] {
				add(s, e, false, false)
			}
		}
	}
	add("", "", false, true)     // imports "C"
	add("", "cgo", false, true)  // imports "C" and requires cgo
	add("_js", "", false, true)  // imports "C"
	add("_test", "", false, false)
	add("_js_test", "js", false, false)
	for _, f := range files {
		var b strings.Builder
		if f.expr != "" {
			if f.legacy {
				x, err := constraint.Parse("//go:build " + f.expr)
				if err != nil {
					return r, err
				}
				lines, err := constraint.PlusBuildLines(x)
				if err != nil {
					return r, err
				}
				b.WriteString(strings.Join(lines, "\n") + "\n\n")
			} else {
				b.WriteString("//go:build " + f.expr + "\n\n")
			}
		}
		b.WriteString("package c18pkg\n")
		if f.cgo {
			b.WriteString("\nimport \"C\"\n")
		}
		if err := os.WriteFile(filepath.Join(dir, f.name), []byte(b.String()), 0o644); err != nil {
			return r, err
		}
	}
	// hidden files and .inc.js files
	os.WriteFile(filepath.Join(dir, "_hidden.go"), []byte("package c18pkg\n"), 0o644)
	os.WriteFile(filepath.Join(dir, ".dot.go"), []byte("package c18pkg\n"), 0o644)
	os.WriteFile(filepath.Join(dir, "always.go"), []byte("package c18pkg\n"), 0o644)
	os.WriteFile(filepath.Join(dir, "a.inc.js"), []byte("/* a */\n"), 0o644)
	os.WriteFile(filepath.Join(dir, "b_linux.inc.js"), []byte("/* b */\n"), 0o644)
	os.WriteFile(filepath.Join(dir, "notinc.js"), []byte("/* c */\n"), 0o644)
	r.Files = len(files) + 3
	cwd, _ := os.Getwd()
	os.Chdir(dir)
	defer os.Chdir(cwd)
	for _, us := range userSets() {
		user := map[string]bool{}
		for _, t := range us {
			user[t] = true
		}
		xctx := gbuild.NewBuildContext("", us)
		pkg, err := xctx.Import(".", dir, 0)
		r.Imports++
		if err != nil {
			return r, fmt.Errorf("Import failed for tags %v: %w", us, err)
		}
		got := map[string]bool{}
		for _, f := range pkg.GoFiles {
			got[f] = true
		}
		r.Selected += len(pkg.GoFiles)
		testFiles := map[string]bool{}
		for _, f := range append(append([]string{}, pkg.TestGoFiles...), pkg.XTestGoFiles...) {
			testFiles[f] = true
		}
		tagset := strings.Join(us, ",")
		for _, f := range files {
			r.Decisions++
			want := nameOK(f.name, "js", "ecmascript", user)
			if want && f.expr != "" {
				x, err := constraint.Parse("//go:build " + f.expr)
				if err != nil {
					return r, err
				}
				want = x.Eval(func(tag string) bool { return tagTrue(tag, "js", "ecmascript", user) })
			}
			if f.cgo {
				want = false // cgo files are never used
			}
			isTest := strings.HasSuffix(f.name, "_test.go")
			have := got[f.name]
			if isTest {
				have = testFiles[f.name]
				if got[f.name] {
					r.Violations = append(r.Violations, fmt.Sprintf("C18/file=%s/tags=%s a _test.go file takes part in the regular build", f.name, tagset))
				}
			}
			if have != want {
				r.Violations = append(r.Violations, fmt.Sprintf("C18/expr=%s/suffix=%s/tags=%s/legacy=%v/cgo=%v file %s: selected=%v, documented rule says %v", strings.ReplaceAll(f.expr, " ", ""), suffixOf(f.name), tagset, f.legacy, f.cgo, f.name, have, want))
			}
			if len(r.Samples) < 6 && f.expr != "" && r.Decisions%977 == 0 {
				r.Samples = append(r.Samples, fmt.Sprintf("%s [//go:build %s] tags={%s} -> selected=%v", f.name, f.expr, tagset, have))
			}
		}
		if got["_hidden.go"] || got[".dot.go"] || !got["always.go"] {
			r.Violations = append(r.Violations, "C18/hidden/tags="+tagset+" files starting with _ or . must be ignored and plain files selected")
		}
		var js []string
		for _, j := range pkg.JSFiles {
			js = append(js, filepath.Base(j.Path))
		}
		sort.Strings(js)
		if strings.Join(js, ",") != "a.inc.js,b_linux.inc.js" {
			r.Violations = append(r.Violations, "C18/incjs/tags="+tagset+" .inc.js files of the package directory must all be included, got "+strings.Join(js, ","))
		}
	}
	return r, nil
}

func suffixOf(name string) string {
	name = strings.TrimSuffix(name, ".go")
	if i := strings.Index(name, "_"); i >= 0 {
		return name[i:]
	}
	return "none"
}

// StdResult holds the standard-library clause.
type StdResult struct {
	Packages, Files int
	Violations      []string
}

// RunStd compares, for real GOROOT packages, the files selected by the build context with
// the documented rule under js/wasm.
func RunStd(pkgs []string) (StdResult, error) {
	var r StdResult
	xctx := gbuild.NewBuildContext("", nil)
	goroot := xctx.Env().GOROOT
	for _, p := range pkgs {
		pkg, err := xctx.Import(p, "", 0)
		if err != nil {
			// packages that do not exist for js/wasm are simply skipped
			continue
		}
		r.Packages++
		dir := filepath.Join(goroot, "src", p)
		ents, err := os.ReadDir(dir)
		if err != nil {
			return r, err
		}
		got := map[string]bool{}
		for _, f := range pkg.GoFiles {
			got[f] = true
		}
		for _, e := range ents {
			name := e.Name()
			if e.IsDir() || !strings.HasSuffix(name, ".go") || strings.HasSuffix(name, "_test.go") || strings.HasPrefix(name, "_") || strings.HasPrefix(name, ".") {
				continue
			}
			src, err := os.ReadFile(filepath.Join(dir, name))
			if err != nil {
				return r, err
			}
			r.Files++
			want := nameOK(name, "js", "wasm", nil)
			if want {
				if x := findConstraint(string(src)); x != nil {
					want = x.Eval(func(tag string) bool { return tagTrue(tag, "js", "wasm", nil) })
				}
			}
			if strings.Contains(string(src), "\nimport \"C\"") {
				want = false
			}
			if excludedByTweak(p, name) {
				want = false
			}
			if got[name] != want {
				r.Violations = append(r.Violations, fmt.Sprintf("C18/std/pkg=%s/file=%s selected=%v, js/wasm rule says %v", p, name, got[name], want))
			}
		}
	}
	return r, nil
}

// Documented package-specific tweaks (build/context.go applyPostloadTweaks): sources fully replaced by natives.
func excludedByTweak(pkg, name string) bool {
	switch pkg {
	case "runtime", "runtime/pprof", "syscall/js":
		return true
	case "sync":
		return name == "pool.go"
	}
	return false
}

func findConstraint(src string) constraint.Expr {
	for _, line := range strings.Split(src, "\n") {
		t := strings.TrimSpace(line)
		if strings.HasPrefix(t, "package ") {
			return nil
		}
		if constraint.IsGoBuild(t) {
			if x, err := constraint.Parse(t); err == nil {
				return x
			}
		}
	}
	return nil
}
