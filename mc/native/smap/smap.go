// Package smap is the C19 explorer.
// Layer 1: every stream of <= L items over a small item alphabet x every chunking of the byte
// stream into Write calls that does not cut a hint, through the REAL sourcemapx.Filter
// (obtained with compiler.DefaultFilter) with REAL hint bytes (verif hooks).
package smap

import (
	"bytes"
	"fmt"
	"go/token"
	"strings"

	"github.com/gopherjs/gopherjs/compiler"
	"github.com/neelance/sourcemap"
)

type item struct {
	name  string
	bytes []byte
	hint  bool
	pos   token.Pos // for hints
}

type Result struct {
	Streams, Runs   int
	ExhaustiveChunk int // streams for which all chunkings were run
	Violations      []string
	Samples         []string
}

type mapping struct {
	genLine, genCol int
	file            string
	line, col       int
	name            string
}

func runFilter(fset *token.FileSet, chunks [][]byte, mapping bool) (out []byte, n int, maps []string, err error) {
	defer func() {
		if r := recover(); r != nil {
			err = fmt.Errorf("panic: %v", r)
		}
	}()
	var buf bytes.Buffer
	f := compiler.DefaultFilter(&buf)
	f.FileSet = fset
	if mapping {
		f.EnableMapping("out.js", "/goroot", "/gopath", false)
	}
	for _, c := range chunks {
		k, e := f.Write(c)
		n += k
		if e != nil {
			return buf.Bytes(), n, nil, e
		}
	}
	if mapping {
		var mb bytes.Buffer
		if e := f.WriteMappingTo(&mb); e != nil {
			return buf.Bytes(), n, nil, e
		}
		m, e := sourcemap.ReadFrom(&mb)
		if e != nil {
			return buf.Bytes(), n, nil, e
		}
		for _, dm := range m.DecodedMappings() {
			if dm.OriginalFile == "" {
				continue
			}
			maps = append(maps, fmt.Sprintf("%d:%d->%s:%d:%d:%s", dm.GeneratedLine, dm.GeneratedColumn, dm.OriginalFile, dm.OriginalLine, dm.OriginalColumn, dm.OriginalName))
		}
	}
	return buf.Bytes(), n, maps, nil
}

// Run explores streams of up to maxItems items.
func Run(maxItems int, maxCutsExhaustive int) Result {
	var r Result
	fset := token.NewFileSet()
	src := "package p\n\nfunc f() {\n\tx := 1\n\t_ = x\n}\n"
	file := fset.AddFile("/gopath/src/p/x.go", -1, len(src))
	file.SetLinesForContent([]byte(src))
	p1 := file.Pos(strings.Index(src, "x := 1"))
	p2 := file.Pos(strings.Index(src, "_ = x"))
	items := []item{
		{name: "ab", bytes: []byte("ab")},
		{name: "nl", bytes: []byte("\n")},
		{name: "a-nl-b", bytes: []byte("a\nb")},
		{name: "str", bytes: []byte("\"s\\ts\"")},
		{name: "utf8", bytes: []byte("é")},
		{name: "pos1", bytes: compiler.VerifPosHint(p1), hint: true, pos: p1},
		{name: "pos2", bytes: compiler.VerifPosHint(p2), hint: true, pos: p2},
		{name: "nopos", bytes: compiler.VerifPosHint(token.NoPos), hint: true, pos: token.NoPos},
		{name: "ident", bytes: compiler.VerifIdentHint("a", "orig", p2), hint: true, pos: p2},
	}
	idx := make([]int, maxItems)
	var rec func(depth, n int)
	check := func(n int) {
		r.Streams++
		var stream []byte
		var cuts []int // allowed cut positions (byte offsets strictly inside the stream, not inside a hint)
		var want []byte
		var wantMaps []string
		line, col := 1, 0
		names := make([]string, n)
		for i := 0; i < n; i++ {
			it := items[idx[i]]
			names[i] = it.name
			start := len(stream)
			stream = append(stream, it.bytes...)
			if it.hint {
				if start > 0 {
					cuts = append(cuts, start)
				}
				if it.pos.IsValid() {
					p := fset.Position(it.pos)
					nm := ""
					if it.name == "ident" {
						nm = "orig"
					}
					wantMaps = append(wantMaps, fmt.Sprintf("%d:%d->%s:%d:%d:%s", line, col, "/p/x.go", p.Line, p.Column, nm))
				}
				// a hint without a position may yield a segment that maps to no source; such segments name
				// no file and are not compared
			} else {
				for k := 0; k < len(it.bytes); k++ {
					if start+k > 0 {
						cuts = append(cuts, start+k)
					}
					if it.bytes[k] == '\n' {
						line++
						col = 0
					} else {
						col++
					}
				}
				want = append(want, it.bytes...)
			}
		}
		id := strings.Join(names, ",")
		// chunkings
		var cutSets [][]int
		if len(cuts) <= maxCutsExhaustive {
			r.ExhaustiveChunk++
			for m := 0; m < 1<<len(cuts); m++ {
				var cs []int
				for b := 0; b < len(cuts); b++ {
					if m&(1<<b) != 0 {
						cs = append(cs, cuts[b])
					}
				}
				cutSets = append(cutSets, cs)
			}
		} else {
			cutSets = append(cutSets, nil)
			for a := 0; a < len(cuts); a++ {
				cutSets = append(cutSets, []int{cuts[a]})
				for b := a + 1; b < len(cuts); b++ {
					cutSets = append(cutSets, []int{cuts[a], cuts[b]})
				}
			}
			cutSets = append(cutSets, cuts)
		}
		for _, withMap := range []bool{true, false} {
			for _, cs := range cutSets {
				var chunks [][]byte
				prev := 0
				for _, c := range cs {
					chunks = append(chunks, stream[prev:c])
					prev = c
				}
				chunks = append(chunks, stream[prev:])
				r.Runs++
				out, nn, maps, err := runFilter(fset, chunks, withMap)
				bad := ""
				switch {
				case err != nil:
					bad = "error/panic: " + err.Error()
				case !bytes.Equal(out, want):
					bad = fmt.Sprintf("output %q, want the stream without hints %q", out, want)
				case nn != len(stream):
					bad = fmt.Sprintf("Write returned n=%d in total, input length %d", nn, len(stream))
				case bytes.IndexByte(out, '\b') >= 0:
					bad = "hint byte in the output"
				case withMap && strings.Join(maps, " ") != strings.Join(wantMaps, " "):
					bad = fmt.Sprintf("mappings %v, want %v", maps, wantMaps)
				}
				if bad != "" {
					if len(r.Violations) < 50 {
						r.Violations = append(r.Violations, fmt.Sprintf("C19/stream/items=%s/cuts=%v/map=%v %s", id, cs, withMap, bad))
					} else {
						r.Violations = append(r.Violations, "")
					}
				}
			}
		}
		if len(r.Samples) < 5 && n == maxItems && r.Streams%1500 == 7 {
			r.Samples = append(r.Samples, fmt.Sprintf("stream [%s] (%d bytes) x %d chunkings -> mappings %v", id, len(stream), len(cutSets), wantMaps))
		}
	}
	rec = func(depth, n int) {
		if depth == n {
			check(n)
			return
		}
		for i := range items {
			idx[depth] = i
			rec(depth+1, n)
		}
	}
	for n := 1; n <= maxItems; n++ {
		rec(0, n)
	}
	return r
}
