// Package jsx is the Go side of engine E3: a pool of long-lived Node
// processes running /verif/js/runner.js (JSON lines protocol).
package jsx

import (
	"bufio"
	"encoding/json"
	"fmt"
	"io"
	"os"
	"os/exec"
	"path/filepath"
	"runtime"
	"sync"
	"time"
)

// VerifRoot is the /verif checkout the scripts are taken from.
func VerifRoot() string {
	if r := os.Getenv("VERIF_ROOT"); r != "" {
		return r
	}
	return "/verif"
}

type Req struct {
	ID         int            `json:"id"`
	Script     string         `json:"script"`
	Choices    []int          `json:"choices,omitempty"`
	Globals    map[string]any `json:"globals,omitempty"`
	MaxTimers  int            `json:"maxTimers,omitempty"`
	FifoTimers bool           `json:"fifoTimers,omitempty"`
	KeepStack  bool           `json:"keepStack,omitempty"`
	ContextScript string      `json:"contextScript,omitempty"` // a script evaluated inside the context before the program
	Probe      bool           `json:"probe,omitempty"` // install verifProbe(n): records n and the JS stack as out entry ["p", "n|stack"]
}

type Point struct {
	K string `json:"k"`
	N int    `json:"n"`
	C int    `json:"c"`
}

type Resp struct {
	ID       int         `json:"id"`
	Out      [][2]string `json:"out"`
	End      string      `json:"end"`
	Points   []Point     `json:"points"`
	Diverged *string     `json:"diverged"`
	Error    string      `json:"error"`
}

type proc struct {
	cmd *exec.Cmd
	in  io.WriteCloser
	out *bufio.Reader
}

type Pool struct {
	mu      sync.Mutex
	idle    []*proc
	sem     chan struct{}
	Script  string
	Timeout time.Duration
}

func New(n int) *Pool {
	if n <= 0 {
		n = runtime.NumCPU()
	}
	return &Pool{sem: make(chan struct{}, n), Script: filepath.Join(VerifRoot(), "js", "runner.js"), Timeout: 120 * time.Second}
}

func (p *Pool) get() (*proc, error) {
	p.mu.Lock()
	if k := len(p.idle); k > 0 {
		w := p.idle[k-1]
		p.idle = p.idle[:k-1]
		p.mu.Unlock()
		return w, nil
	}
	p.mu.Unlock()
	cmd := exec.Command("node", "--stack-size=4000", "--max-old-space-size=3072", p.Script)
	cmd.Stderr = os.Stderr
	in, _ := cmd.StdinPipe()
	outp, _ := cmd.StdoutPipe()
	if err := cmd.Start(); err != nil {
		return nil, err
	}
	return &proc{cmd: cmd, in: in, out: bufio.NewReaderSize(outp, 1<<20)}, nil
}

// Run executes one request.
func (p *Pool) Run(req Req) (Resp, error) { return p.RunTimeout(req, p.Timeout) }

// RunTimeout executes one request with its own deadline.
func (p *Pool) RunTimeout(req Req, timeout time.Duration) (Resp, error) {
	p.sem <- struct{}{}
	defer func() { <-p.sem }()
	w, err := p.get()
	if err != nil {
		return Resp{}, err
	}
	b, _ := json.Marshal(req)
	b = append(b, '\n')
	type rr struct {
		r   Resp
		err error
	}
	ch := make(chan rr, 1)
	go func() {
		if _, err := w.in.Write(b); err != nil {
			ch <- rr{err: err}
			return
		}
		line, err := w.out.ReadBytes('\n')
		if err != nil {
			ch <- rr{err: fmt.Errorf("node died: %v", err)}
			return
		}
		var r Resp
		if err := json.Unmarshal(line, &r); err != nil {
			ch <- rr{err: err}
			return
		}
		ch <- rr{r: r}
	}()
	select {
	case r := <-ch:
		if r.err != nil {
			w.cmd.Process.Kill()
			w.cmd.Wait()
			return Resp{}, r.err
		}
		p.mu.Lock()
		p.idle = append(p.idle, w)
		p.mu.Unlock()
		if r.r.Error != "" {
			return r.r, fmt.Errorf("runner error: %s", r.r.Error)
		}
		return r.r, nil
	case <-time.After(timeout):
		w.cmd.Process.Kill()
		w.cmd.Wait()
		return Resp{End: "timeout"}, nil
	}
}

func (p *Pool) Close() {
	p.mu.Lock()
	defer p.mu.Unlock()
	for _, w := range p.idle {
		w.in.Close()
		w.cmd.Process.Kill()
		w.cmd.Wait()
	}
	p.idle = nil
}
