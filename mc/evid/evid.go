// Package evid writes evidence files, replay artefacts and handles the
// known-findings file.
package evid

import (
	"bufio"
	"encoding/json"
	"fmt"
	"os"
	"path/filepath"
	"regexp"
	"sort"
	"strconv"
	"strings"
	"sync"
	"time"
)

func Root() string {
	if r := os.Getenv("VERIF_ROOT"); r != "" {
		return r
	}
	return "/verif"
}

// OutRoot is where evidence, replays and built binaries go: VERIF_OUT when a check is run
// against a scratch tree (tools/seedpar.sh), else the /verif checkout itself.
func OutRoot() string {
	if r := os.Getenv("VERIF_OUT"); r != "" {
		return r
	}
	return Root()
}

type Evidence struct {
	PropertyID  string         `json:"property_id"`
	Tier        string         `json:"tier"`
	Seed        int            `json:"seed"`
	Level       string         `json:"level"`
	Coverage    map[string]any `json:"coverage"`
	Assumptions []string       `json:"assumptions"`
	WallS       float64        `json:"wall_s"`
	Violations  int            `json:"violations"`
	KnownFindings []string     `json:"known_findings_seen,omitempty"`
}

func Seed() int {
	n, _ := strconv.Atoi(os.Getenv("VERIF_SEED"))
	return n
}

func (e *Evidence) Write(start time.Time) error {
	e.WallS = time.Since(start).Seconds()
	e.Seed = Seed()
	dir := filepath.Join(OutRoot(), "evidence")
	os.MkdirAll(dir, 0o755)
	b, err := json.MarshalIndent(e, "", " ")
	if err != nil {
		return err
	}
	return os.WriteFile(filepath.Join(dir, e.PropertyID+".json"), append(b, '\n'), 0o644)
}

// Finding is one line of known_findings.txt.
type Finding struct {
	Kind string // finding | fixed
	Prop string
	Case string // case id or prefix ending in '*'
	Text string
}

func LoadFindings() []Finding {
	f, err := os.Open(filepath.Join(Root(), "known_findings.txt"))
	if err != nil {
		return nil
	}
	defer f.Close()
	var res []Finding
	sc := bufio.NewScanner(f)
	sc.Buffer(make([]byte, 1<<20), 1<<20)
	for sc.Scan() {
		l := strings.TrimSpace(sc.Text())
		if l == "" || strings.HasPrefix(l, "#") {
			continue
		}
		var fd Finding
		switch {
		case strings.HasPrefix(l, "finding:"):
			fd.Kind = "finding"
			l = strings.TrimSpace(strings.TrimPrefix(l, "finding:"))
		case strings.HasPrefix(l, "fixed:"):
			fd.Kind = "fixed"
			l = strings.TrimSpace(strings.TrimPrefix(l, "fixed:"))
		default:
			continue
		}
		for _, tok := range strings.Fields(l) {
			if strings.HasPrefix(tok, "property=") && fd.Prop == "" {
				fd.Prop = strings.TrimPrefix(tok, "property=")
			} else if strings.HasPrefix(tok, "case=") && fd.Case == "" {
				fd.Case = strings.TrimPrefix(tok, "case=")
			}
		}
		fd.Text = l
		res = append(res, fd)
	}
	return res
}

// Reporter collects violations for one property run.
type Reporter struct {
	Groups   map[string]int // violation group -> count
	Prop     string
	mu       sync.Mutex
	findings []Finding
	Viol     int
	Known    map[string]bool
	nreplay  int
}

func NewReporter(prop string) *Reporter {
	return &Reporter{Prop: prop, findings: LoadFindings(), Known: map[string]bool{}}
}

func (r *Reporter) matchKnown(caseID string) *Finding {
	// the build variant (@min, @allalive, ...) is not part of the identity of a finding
	if i := strings.IndexByte(caseID, '@'); i >= 0 {
		caseID = caseID[:i]
	}
	for i := range r.findings {
		f := &r.findings[i]
		if f.Kind != "finding" || f.Prop != r.Prop || f.Case == "" {
			continue
		}
		if globMatch(f.Case, caseID) {
			return f
		}
	}
	return nil
}

// globMatch: '*' matches any run of characters.
func globMatch(pat, s string) bool {
	if !strings.Contains(pat, "*") {
		return pat == s
	}
	parts := strings.Split(pat, "*")
	if !strings.HasPrefix(s, parts[0]) {
		return false
	}
	s = s[len(parts[0]):]
	for i := 1; i < len(parts)-1; i++ {
		j := strings.Index(s, parts[i])
		if j < 0 {
			return false
		}
		s = s[j+len(parts[i]):]
	}
	return strings.HasSuffix(s, parts[len(parts)-1])
}

// Violation reports a failing case. files are written into the replay dir.
// Returns true if it is a new (unlisted) violation.
func (r *Reporter) Violation(caseID, what string, files map[string]string) bool {
	r.mu.Lock()
	defer r.mu.Unlock()
	if f := r.matchKnown(caseID); f != nil {
		key := f.Case
		if !r.Known[key] {
			r.Known[key] = true
			fmt.Printf("KNOWN-FINDING: property=%s %s\n", r.Prop, strings.TrimSpace(strings.Replace(f.Text, "property="+r.Prop, "", 1)))
		}
		return false
	}
	r.Viol++
	g := Group(caseID)
	if r.Groups == nil {
		r.Groups = map[string]int{}
	}
	r.Groups[g]++
	if r.Groups[g] > 1 || r.nreplay >= 40 {
		return true
	}
	r.nreplay++
	dir := filepath.Join(OutRoot(), "replays", r.Prop, fmt.Sprintf("%03d", r.nreplay))
	os.RemoveAll(dir)
	os.MkdirAll(dir, 0o755)
	meta := map[string]string{"property": r.Prop, "case": caseID, "what": what}
	b, _ := json.MarshalIndent(meta, "", " ")
	os.WriteFile(filepath.Join(dir, "case.json"), b, 0o644)
	for name, content := range files {
		p := filepath.Join(dir, name)
		os.MkdirAll(filepath.Dir(p), 0o755)
		os.WriteFile(p, []byte(content), 0o644)
	}
	fmt.Printf("VIOLATION property=%s replay=%s case=%s %s\n", r.Prop, dir, caseID, oneLine(what))
	return true
}

var reRow = regexp.MustCompile(`/[A-Za-z0-9]+=[^/@]*`)

// Group strips the row/value selectors (/x=..., /i=..., /c=...) from a case id.
func Group(caseID string) string { return reRow.ReplaceAllString(caseID, "") }

// Summary prints the violation groups with counts.
func (r *Reporter) Summary() {
	r.mu.Lock()
	defer r.mu.Unlock()
	var gs []string
	for g := range r.Groups {
		gs = append(gs, g)
	}
	sort.Strings(gs)
	for _, g := range gs {
		fmt.Printf("  violation-group %s cases=%d\n", g, r.Groups[g])
	}
}

func (r *Reporter) KnownList() []string {
	var l []string
	for k := range r.Known {
		l = append(l, k)
	}
	return l
}

func oneLine(s string) string {
	s = strings.ReplaceAll(s, "\n", " | ")
	if len(s) > 300 {
		s = s[:300] + "..."
	}
	return s
}
