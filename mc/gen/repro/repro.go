// Package repro holds the C17 multi-file program: many closures with several escaping
// variables, generic instances calling each other, anonymous types, function literals,
// linknames and an imported two-file package, spread over four files of package main.
package repro

import (
	"strings"

	"verif/mc/diffrun"
)

const f1 = `package main

import (
	"MOD/dep"
	_ "unsafe"
)

var regOrder string

func reg(s string) Int { regOrder += s + ";"; return Int(len(regOrder)) }

var a1 = reg("a1") + b2
var a2 = func() Int { x, y, z := Int(1), Int(2), Int(3); f := func() Int { x++; y += x; z += y; return x + y + z }; return f() + f() }()

//go:linkname hidden MOD/dep.hidden
func hidden(x Int) Int

//go:linkname hidden2 MOD/dep.hidden2
func hidden2(x Int) Int

func main() {
	println("C17/run", itoa(int64(a1+a2+b1+b2+c1+d1)), regOrder, itoa(int64(useGenerics()+closures()+anon()+hidden(1)+hidden2(2)+dep.Sum())))
}
`

const f2 = `package main

var b1 = reg("b1")
var b2 = reg("b2") + c1

type Pair[A, B any] struct {
	a A
	b B
}

func (p Pair[A, B]) swap() Pair[B, A] { return Pair[B, A]{p.b, p.a} }

func mapper[T, U any](xs []T, f func(T) U) []U {
	var r []U
	for _, x := range xs {
		r = append(r, f(x))
	}
	return r
}

func chain[T any](x T) T { return ident(ident2(x)) }
func ident[T any](x T) T { return x }
func ident2[T any](x T) T { return ident(x) }

func useGenerics() Int {
	p := Pair[Int, string]{1, "s"}.swap().swap()
	q := Pair[string, Int]{"t", 2}.swap()
	r := Pair[Pair[Int, Int], string]{Pair[Int, Int]{3, 4}, "u"}
	ls := mapper([]Int{1, 2}, func(i Int) string { return itoa(int64(i)) })
	ms := mapper(ls, func(s string) Int { return Int(len(s)) })
	return p.a + q.a + r.a.b + ms[0] + chain(Int(5)) + Int(len(chain("x"))) + Int(chain(int8(6))) + Int(chain(uint64(7)))
}
`

const f3 = `package main

var c1 = reg("c1")

func closures() Int {
	alpha, beta, gamma, delta, epsilon := Int(1), Int(2), Int(3), Int(4), Int(5)
	var fs []func() Int
	for i := Int(0); i < 3; i++ {
		zeta, eta := i, i*2
		fs = append(fs, func() Int { alpha++; beta += zeta; gamma += eta; return alpha + beta + gamma + delta + epsilon + zeta + eta })
		fs = append(fs, func() Int { delta--; epsilon -= eta; return delta + epsilon })
	}
	t := Int(0)
	for _, f := range fs {
		t += f()
	}
	g := func(a, b Int) func() func() Int {
		return func() func() Int {
			c, d := a+b, a-b
			return func() Int { return a + b + c + d + t }
		}
	}
	return t + g(1, 2)()()
}

func init() { reg("init-f3") }
`

const f4 = `package main

var d1 = reg("d1")

func anon() Int {
	x := struct{ p, q Int }{1, 2}
	y := struct {
		r string
		s [2]Int
	}{"r", [2]Int{3, 4}}
	z := []struct{ k map[string]Int }{{map[string]Int{"a": 5}}}
	var i interface{} = x
	var j interface{} = y
	n := Int(0)
	switch v := i.(type) {
	case struct{ p, q Int }:
		n += v.p + v.q
	}
	if w, ok := j.(struct {
		r string
		s [2]Int
	}); ok {
		n += w.s[1]
	}
	fn := func(a struct{ u Int }) *struct{ u Int } { return &a }
	ch := make(chan struct{ c chan Int }, 1)
	ch <- struct{ c chan Int }{nil}
	return n + z[0].k["a"] + fn(struct{ u Int }{6}).u + Int(len(ch))
}

func init() { reg("init-f4") }
`

const depA = `package dep

type Int = INTALIAS

func hidden(x Int) Int  { return x + helperB(1) }
func hidden2(x Int) Int { return x * 2 }

var va = initOrder("va")

func Sum() Int { return va + vb + Int(len(order)) }
`

const depB = `package dep

var order string

func initOrder(s string) Int { order += s; return Int(len(order)) }

var vb = initOrder("vb")

func helperB(x Int) Int { return x + 10 }

func init() { initOrder("i") }
`

// Program returns the four-file program. Files are named so that no listing order is natural.
func Program() diffrun.Program {
	name := "c17_files"
	mod := diffrun.ModName(name)
	r := func(s string) string { return strings.ReplaceAll(s, "MOD", mod) }
	return diffrun.Program{Name: name, Files: map[string]string{
		"m_one.go":       r(f1),
		"b_two.go":       f2,
		"z_three.go":     f3,
		"a_four.go":      f4,
		"stub.s":         "// empty\n",
		"dep/x.go":       strings.ReplaceAll(depA, "type Int = INTALIAS\n", ""),
		"dep/a.go":       depB,
		"dep/int_js.go":  "//go:build js\n\npackage dep\n\ntype Int = int\n",
		"dep/int_ref.go": "//go:build !js\n\npackage dep\n\ntype Int = int32\n",
	}}
}

// MainFiles lists the Go files of package main (for explicit file-order builds).
func MainFiles() []string {
	return []string{"m_one.go", "b_two.go", "z_three.go", "a_four.go", "h_js.go", "h_common.go"}
}
