// Package repro holds the C17 multi-file program: many closures with several escaping
// variables, generic instances calling each other, anonymous types, function literals,
// linknames and an imported two-file package, spread over four files of package main.
package repro

import (
	"strings"

	"verif/mc/diffrun"
)

const f1 = `package main

import (
	"MOD/dep"
	_ "unsafe"
)

var regOrder string

func reg(s string) Int { regOrder += s + ";"; return Int(len(regOrder)) }

var a1 = reg("a1") + b2
var a2 = func() Int { x, y, z := Int(1), Int(2), Int(3); f := func() Int { x++; y += x; z += y; return x + y + z }; return f() + f() }()

//go:linkname hidden MOD/dep.hidden
func hidden(x Int) Int

//go:linkname hidden2 MOD/dep.hidden2
func hidden2(x Int) Int

func main() {
	println("C17/run", itoa(int64(a1+a2+b1+b2+c1+d1)), regOrder, itoa(int64(useGenerics()+closures()+anon()+hidden(1)+hidden2(2)+dep.Sum())))
}
`

const f2 = `package main

var b1 = reg("b1")
var b2 = reg("b2") + c1

type Pair[A, B any] struct {
	a A
	b B
}

func (p Pair[A, B]) swap() Pair[B, A] { return Pair[B, A]{p.b, p.a} }

func mapper[T, U any](xs []T, f func(T) U) []U {
	var r []U
	for _, x := range xs {
		r = append(r, f(x))
	}
	return r
}

func chain[T any](x T) T { return ident(ident2(x)) }
func ident[T any](x T) T { return x }
func ident2[T any](x T) T { return ident(x) }

func useGenerics() Int {
	p := Pair[Int, string]{1, "s"}.swap().swap()
	q := Pair[string, Int]{"t", 2}.swap()
	r := Pair[Pair[Int, Int], string]{Pair[Int, Int]{3, 4}, "u"}
	ls := mapper([]Int{1, 2}, func(i Int) string { return itoa(int64(i)) })
	ms := mapper(ls, func(s string) Int { return Int(len(s)) })
	return p.a + q.a + r.a.b + ms[0] + chain(Int(5)) + Int(len(chain("x"))) + Int(chain(int8(6))) + Int(chain(uint64(7)))
}
`

const f3 = `package main

var c1 = reg("c1")

func closures() Int {
	alpha, beta, gamma, delta, epsilon := Int(1), Int(2), Int(3), Int(4), Int(5)
	var fs []func() Int
	for i := Int(0); i < 3; i++ {
		zeta, eta := i, i*2
		fs = append(fs, func() Int { alpha++; beta += zeta; gamma += eta; return alpha + beta + gamma + delta + epsilon + zeta + eta })
		fs = append(fs, func() Int { delta--; epsilon -= eta; return delta + epsilon })
	}
	t := Int(0)
	for _, f := range fs {
		t += f()
	}
	g := func(a, b Int) func() func() Int {
		return func() func() Int {
			c, d := a+b, a-b
			return func() Int { return a + b + c + d + t }
		}
	}
	return t + g(1, 2)()()
}

func init() { reg("init-f3") }
`

const f4 = `package main

var d1 = reg("d1")

func anon() Int {
	x := struct{ p, q Int }{1, 2}
	y := struct {
		r string
		s [2]Int
	}{"r", [2]Int{3, 4}}
	z := []struct{ k map[string]Int }{{map[string]Int{"a": 5}}}
	var i interface{} = x
	var j interface{} = y
	n := Int(0)
	switch v := i.(type) {
	case struct{ p, q Int }:
		n += v.p + v.q
	}
	if w, ok := j.(struct {
		r string
		s [2]Int
	}); ok {
		n += w.s[1]
	}
	fn := func(a struct{ u Int }) *struct{ u Int } { return &a }
	ch := make(chan struct{ c chan Int }, 1)
	ch <- struct{ c chan Int }{nil}
	return n + z[0].k["a"] + fn(struct{ u Int }{6}).u + Int(len(ch))
}

func init() { reg("init-f4") }
`

const depA = `package dep

type Int = INTALIAS

func hidden(x Int) Int  { return x + helperB(1) }
func hidden2(x Int) Int { return x * 2 }

var va = initOrder("va")

func Sum() Int { return va + vb + Int(len(order)) }
`

const depB = `package dep

var order string

func initOrder(s string) Int { order += s; return Int(len(order)) }

var vb = initOrder("vb")

func helperB(x Int) Int { return x + 10 }

func init() { initOrder("i") }
`

// Program returns the four-file program. Files are named so that no listing order is natural.
func Program() diffrun.Program {
	name := "c17_files"
	mod := diffrun.ModName(name)
	r := func(s string) string { return strings.ReplaceAll(s, "MOD", mod) }
	return diffrun.Program{Name: name, Files: map[string]string{
		"m_one.go":       r(f1),
		"b_two.go":       f2,
		"z_three.go":     f3,
		"a_four.go":      f4,
		"stub.s":         "// empty\n",
		"dep/x.go":       strings.ReplaceAll(depA, "type Int = INTALIAS\n", ""),
		"dep/a.go":       depB,
		"dep/int_js.go":  "//go:build js\n\npackage dep\n\ntype Int = int\n",
		"dep/int_ref.go": "//go:build !js\n\npackage dep\n\ntype Int = int32\n",
	}}
}

// MainFiles lists the Go files of package main (for explicit file-order builds).
func MainFiles() []string {
	return []string{"m_one.go", "b_two.go", "z_three.go", "a_four.go", "h_js.go", "h_common.go"}
}

const orderMain = `package main

import (
	"math"
	"math/bits"
	"sync/atomic"
	"unicode"
	"unicode/utf8"

	"MOD/q"
	"MOD/r"
)

type shape interface{ area() Int }
type sq struct{ s Int }
type rc struct{ w, h Int }
type tri struct{ b, h Int }
type dot struct{}
type named Int
type text string

func (x sq) area() Int    { return x.s * x.s }
func (x rc) area() Int    { return x.w * x.h }
func (x *tri) area() Int  { return x.b * x.h / 2 }
func (dot) area() Int     { return 0 }
func (x named) area() Int { return Int(x) }

// closures in several clauses of a type switch inside a loop capture the clause variable
func typeSwitchClosures(vals []interface{}) Int {
	var fs []func() Int
	for _, it := range vals {
		switch v := it.(type) {
		case sq:
			fs = append(fs, func() Int { return v.area() + 1 })
		case rc:
			fs = append(fs, func() Int { return v.area() + 2 })
		case *tri:
			fs = append(fs, func() Int { return v.area() + 3 })
		case named:
			fs = append(fs, func() Int { return Int(v) + 4 })
		case text:
			fs = append(fs, func() Int { return Int(len(v)) + 5 })
		case Int:
			fs = append(fs, func() Int { return v + 6 })
		case string, bool:
			fs = append(fs, func() Int { if s, ok := v.(string); ok { return Int(len(s)) }; return 7 })
		default:
			fs = append(fs, func() Int { _ = v; return 8 })
		}
	}
	t := Int(0)
	for _, f := range fs {
		t = t*3 + f()
	}
	return t
}

// many escaping variables of different kinds captured at different depths
func escaping() Int {
	t := Int(0)
	for i := Int(0); i < 3; i++ {
		a, b, c, d := i, i+1, i+2, i+3
		p, q2 := &a, &b
		arr := [2]Int{c, d}
		st := rc{c, d}
		f := func() Int { *p += 1; *q2 += c; arr[0] += d; st.w++; return a + b + arr[0] + st.w }
		g := func() func() Int { e := a + d; return func() Int { e += b; return e + c } }
		t += f() + g()() + f()
	}
	return t
}

// anonymous types, each used once, in one function
func anonTypes() Int {
	a := struct{ x Int }{1}
	b := struct{ y string }{"b"}
	c := struct{ z [3]Int }{[3]Int{1, 2, 3}}
	d := struct{ w map[string]Int }{map[string]Int{"k": 4}}
	e := []struct{ v *Int }{{&a.x}}
	f := map[struct{ k1, k2 Int }]struct{ v1 string }{{1, 2}: {"v"}}
	g := func(struct{ in Int }) struct{ out Int } { return struct{ out Int }{9} }
	h := make(chan struct{ c Int }, 1)
	h <- struct{ c Int }{7}
	var i interface{} = struct{ q Int }{11}
	var j interface{ area() Int; other() } = nil
	_ = j
	n := a.x + Int(len(b.y)) + c.z[2] + d.w["k"] + *e[0].v + Int(len(f[struct{ k1, k2 Int }{1, 2}].v1)) + g(struct{ in Int }{}).out + (<-h).c
	if v, ok := i.(struct{ q Int }); ok {
		n += v.q
	}
	return n
}

func generic1[T any](x T) T            { return x }
func generic2[T, U any](x T, y U) (U, T) { return y, x }

type box[T any] struct{ v T }

func (b box[T]) get() T { return b.v }

func manyInstances() Int {
	n := generic1(Int(1)) + Int(generic1(int8(2))) + Int(generic1(int16(3))) + Int(generic1(uint8(4))) + Int(generic1(uint16(5))) + Int(generic1(uint32(6)))
	n += Int(len(generic1("s"))) + Int(generic1(float64(7))) + Int(generic1(float32(8))) + Int(real(generic1(complex(9, 0))))
	n += generic1(sq{2}).area() + generic1(rc{1, 2}).area() + Int(generic1(named(3)))
	s, i := generic2(Int(1), "a")
	f, b := generic2(true, 1.5)
	n += i + Int(len(s)) + Int(f)
	if b {
		n++
	}
	n += box[Int]{1}.get() + Int(box[int8]{2}.get()) + Int(len(box[string]{"x"}.get())) + box[sq]{sq{3}}.get().area() + box[box[Int]]{box[Int]{4}}.get().get()
	return n
}

// a blocking function with many locals, labels and a select
func blocking(c chan Int) Int {
	total, i, j, k, l, m := Int(0), Int(0), Int(0), Int(0), Int(0), Int(0)
outer:
	for i = 0; i < 3; i++ {
		for j = 0; j < 3; j++ {
			select {
			case v := <-c:
				total += v
			default:
				k++
			}
			if j == i {
				l += j
				continue outer
			}
			m++
		}
	}
	go func() { c <- total }()
	return <-c + k + l + m
}

var (
	v1 = q.Reg("v1") + v3
	v2 = q.Reg("v2")
	v3 = q.Reg("v3") + v5 + r.Val
	v4 = q.Reg("v4") + v1
	v5 = q.Reg("v5")
	cnt int32
)

func main() {
	tr := &tri{3, 4}
	vals := []interface{}{sq{2}, rc{2, 3}, tr, named(5), text("hey"), Int(6), "str", true, 3.5, sq{1}, rc{1, 1}}
	atomic.AddInt32(&cnt, 2)
	c := make(chan Int, 2)
	c <- 5
	n := typeSwitchClosures(vals) + escaping() + anonTypes() + manyInstances() + blocking(c) + v1 + v2 + v3 + v4 + v5
	n += Int(bits.Len(8)) + Int(math.Sqrt(16)) + Int(utf8.RuneLen('x')) + Int(cnt) + q.Twice(3) + r.Thrice(2)
	if unicode.IsUpper('A') {
		n++
	}
	println("C17/order", itoa(int64(n)), q.Order)
}
`

const orderQ = `package q

type Int = INTALIAS

var Order string

func Reg(s string) Int { Order += s + ";"; return Int(len(Order)) }

func Twice(x Int) Int { return helper(x) * 2 }

func helper(x Int) Int { return x }

func init() { Reg("q.init") }
`

const orderR = `package r

import "MOD/q"

var Val = q.Reg("r.Val")

func Thrice(x q.Int) q.Int { return q.Twice(x) + x }
`

// OrderProgram exercises compiler paths that keep their intermediate results in Go maps.
func OrderProgram() diffrun.Program {
	name := "c17_order"
	mod := diffrun.ModName(name)
	r := func(s string) string { return strings.ReplaceAll(s, "MOD", mod) }
	return diffrun.Program{Name: name, Files: map[string]string{
		"main.go":      r(orderMain),
		"q/q.go":       strings.ReplaceAll(orderQ, "type Int = INTALIAS\n", ""),
		"q/int_js.go":  "//go:build js\n\npackage q\n\ntype Int = int\n",
		"q/int_ref.go": "//go:build !js\n\npackage q\n\ntype Int = int32\n",
		"r/r.go":       r(orderR),
	}}
}

// LineProgram is a package whose files all claim, through //line directives, to come from the same
// generated source: nothing but their real names distinguishes them.
func LineProgram() diffrun.Program {
	files := map[string]string{}
	for i, n := range LineFiles() {
		body := "//line tables.tmpl:1\npackage main\n\n"
		v := string(rune('a' + i))
		body += "var " + v + "1 = reg(\"" + v + "1\")\n\nfunc init() { reg(\"init-" + v + "\") }\n\nfunc f" + v + "() Int { return " + v + "1 }\n"
		if i == 0 {
			body += "\nvar order string\n\nfunc reg(s string) Int { order += s + \";\"; return Int(len(order)) }\n\nfunc main() { println(\"C17/line\", order, itoa(int64(fa()+fb()+fc()+fd()))) }\n"
		}
		files[n] = body
	}
	return diffrun.Program{Name: "c17_line", Files: files}
}

// LineFiles lists the Go files of LineProgram's package main.
func LineFiles() []string { return []string{"t_one.go", "k_two.go", "w_three.go", "c_four.go"} }

// PackagesProgram: many packages whose relative order is not fixed by imports: generic code of one
// package instantiated from four packages that do not import each other, and a package that hands out
// values of types declared in nine packages its importer never imports.
func PackagesProgram() diffrun.Program {
	name := "c17_pkgs"
	mod := diffrun.ModName(name)
	r := func(s string) string { return strings.ReplaceAll(s, "MOD", mod) }
	files := map[string]string{
		"lib/lib.go": `package lib

type Box[T any] struct{ V T }

func (b Box[T]) Get() T { return b.V }

func Last[T any](xs ...T) T { return xs[len(xs)-1] }

func Twice[T any](x T) [2]T { return [2]T{x, x} }
`,
	}
	dirs := []struct{ name, typ, val string }{{"east", "int32", "1"}, {"west", "string", `"w"`}, {"north", "float64", "1.5"}, {"south", "bool", "true"}}
	imports, uses := "", ""
	for _, d := range dirs {
		files[d.name+"/"+d.name+".go"] = r("package " + d.name + "\n\nimport \"MOD/lib\"\n\ntype Local struct{ f " + d.typ + " }\n\nfunc Use() int {\n\tb := lib.Box[" + d.typ + "]{" + d.val + "}\n\t_ = b.Get()\n\t_ = lib.Last(" + d.val + ", " + d.val + ")\n\t_ = lib.Twice(Local{" + d.val + "})\n\t_ = lib.Box[Local]{}\n\treturn len(lib.Twice(b))\n}\n")
		imports += "\t\"MOD/" + d.name + "\"\n"
		uses += " + " + d.name + ".Use()"
	}
	midImports, midFuncs, mainUses := "", "", ""
	for i := 1; i <= 9; i++ {
		pn := "p" + string(rune('0'+i))
		files[pn+"/"+pn+".go"] = "package " + pn + "\n\ntype T struct{ N int }\n\nfunc (t T) Get() int { return t.N }\n"
		midImports += "\t\"MOD/" + pn + "\"\n"
		midFuncs += "func F" + string(rune('0'+i)) + "() " + pn + ".T { return " + pn + ".T{" + string(rune('0'+i)) + "} }\n"
		mainUses += " + mid.F" + string(rune('0'+i)) + "().Get()"
	}
	files["mid/mid.go"] = r("package mid\n\nimport (\n" + midImports + ")\n\n" + midFuncs)
	files["main.go"] = r("package main\n\nimport (\n" + imports + "\t\"MOD/mid\"\n)\n\nfunc main() {\n\tn := 0" + uses + mainUses + "\n\tvar x interface{} = mid.F3()\n\tif _, ok := x.(interface{ Get() int }); ok {\n\t\tn++\n\t}\n\tprintln(\"C17/pkgs\", itoa(int64(n)))\n}\n")
	return diffrun.Program{Name: name, Files: files}
}
