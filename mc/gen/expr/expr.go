// Package expr generates C01 grammar G2 (expression shapes: all nestings of two operators with
// both association shapes, unary operators, operands that are variables, constants, call results
// and selections of call results) and the handwritten G3/G4 program (assignment forms, evaluation
// order, conversions and constant folding).
package expr

import (
	"fmt"
	"strings"

	"verif/mc/diffrun"
)

type class struct {
	Name, Type string
	Ops        []string
	Unary      []string
	Grid       []string
	Show       string // expression template turning %s into a string
	IsInt      bool
}

var classes = []class{
	{"Int", "Int", []string{"+", "-", "*", "/", "%", "&", "|", "^", "&^", "<<", ">>"}, []string{"-", "^", "+"}, []string{"0", "1", "-1", "7", "-2147483648", "2147483647", "3"}, "itoa(int64(%s))", true},
	{"int8", "int8", []string{"+", "-", "*", "/", "%", "&", "|", "^", "<<", ">>"}, []string{"-", "^"}, []string{"0", "1", "-1", "127", "-128", "5"}, "itoa(int64(%s))", true},
	{"uint8", "uint8", []string{"+", "-", "*", "/", "%", "&", "|", "^", "&^", "<<", ">>"}, []string{"-", "^"}, []string{"0", "1", "255", "128", "3"}, "itoa(int64(%s))", true},
	{"int64", "int64", []string{"+", "-", "*", "/", "%", "&", "|", "^", "<<", ">>"}, []string{"-", "^"}, []string{"0", "1", "-1", "4294967296", "-9223372036854775808", "9223372036854775807", "3"}, "itoa(%s)", true},
	{"uint32", "uint32", []string{"+", "-", "*", "/", "%", "&", "|", "^", "<<", ">>"}, []string{"-", "^"}, []string{"0", "1", "4294967295", "2147483648", "3"}, "utoa(uint64(%s))", true},
	{"float64", "float64", []string{"+", "-", "*", "/"}, []string{"-", "+"}, []string{"0", "1.5", "-2.25", "1e300", "3"}, "ftoa(%s)", false},
	{"string", "string", []string{"+"}, nil, []string{`""`, `"a"`, `"bc"`}, "%s", false},
}

func isShift(op string) bool { return op == "<<" || op == ">>" }

// operand renders operand i (0..2) in one of the kinds var / const / call / field-of-call.
// At most the operand in position constPos is a constant (two constant operands would be folded -
// and overflow-checked - at compile time).
func operand(c class, i int, kind int, constPos int) string {
	v := string(rune('a' + i))
	small := []string{"1", "3", "7"}
	if c.Name == "string" {
		small = []string{`"k"`, `""`, `"xy"`}
	}
	if c.Name == "float64" {
		small = []string{"1.5", "3", "0.25"}
	}
	switch kind % 4 {
	case 1:
		if i == constPos {
			return c.Type + "(" + small[kind/4%len(small)] + ")"
		}
		return v
	case 2:
		return "id_" + c.Name + "(" + v + ")"
	case 3:
		return "mk_" + c.Name + "(" + v + ").f"
	}
	return v
}

// Program builds the expression-shape program for one class.
func Program(c class) diffrun.Program {
	var b strings.Builder
	w := func(f string, a ...any) { fmt.Fprintf(&b, f, a...) }
	T := c.Type
	w("package main\n\nvar calls int\n\ntype box_%s struct{ f %s }\n\nfunc id_%s(x %s) %s { calls++; return x }\nfunc mk_%s(x %s) box_%s { calls += 100; return box_%s{x} }\n\n", c.Name, T, c.Name, T, T, c.Name, T, c.Name, c.Name)
	type shape struct{ id, expr string }
	var shapes []shape
	kindN := 0
	shiftCount := func(e string) string {
		// shift counts must be unsigned and small enough to be interesting: mask to 0..70 via uint conversion of a bounded value
		return "(uint(" + e + ")&63)"
	}
	rhs := func(op, e string) string {
		if isShift(op) {
			if !c.IsInt {
				return e
			}
			return shiftCount(e)
		}
		return e
	}
	for _, op1 := range c.Ops {
		for _, op2 := range c.Ops {
			kindN++
			a, bb, cc := operand(c, 0, kindN, kindN%3), operand(c, 1, kindN/2, kindN%3), operand(c, 2, kindN/3, kindN%3)
			// left-assoc natural, right-grouped, redundant parens
			shapes = append(shapes, shape{fmt.Sprintf("%s.%s/l", opName(op1), opName(op2)), fmt.Sprintf("%s %s %s %s %s", a, op1, rhs(op1, bb), op2, rhs(op2, cc))})
			if isShift(op1) {
				shapes = append(shapes, shape{fmt.Sprintf("%s.%s/r", opName(op1), opName(op2)), fmt.Sprintf("%s %s %s", a, op1, shiftCount("("+bb+" "+op2+" "+rhs(op2, cc)+")"))})
			} else {
				shapes = append(shapes, shape{fmt.Sprintf("%s.%s/r", opName(op1), opName(op2)), fmt.Sprintf("%s %s (%s %s %s)", a, op1, bb, op2, rhs(op2, cc))})
			}
			shapes = append(shapes, shape{fmt.Sprintf("%s.%s/p", opName(op1), opName(op2)), fmt.Sprintf("((%s) %s (%s)) %s (%s)", a, op1, rhs(op1, bb), op2, rhs(op2, cc))})
		}
	}
	for _, u := range c.Unary {
		for _, op := range c.Ops {
			kindN++
			a, bb := operand(c, 0, kindN*2, -1), operand(c, 1, kindN/2*2, -1)
			shapes = append(shapes, shape{fmt.Sprintf("u%s.%s/outer", opName(u), opName(op)), fmt.Sprintf("%s(%s %s %s)", u, a, op, rhs(op, bb))})
			shapes = append(shapes, shape{fmt.Sprintf("u%s.%s/left", opName(u), opName(op)), fmt.Sprintf("%s%s %s %s", u, a, op, rhs(op, bb))})
			if !isShift(op) {
				shapes = append(shapes, shape{fmt.Sprintf("u%s.%s/right", opName(u), opName(op)), fmt.Sprintf("%s %s %s%s", a, op, u, bb)})
			}
		}
		for _, u2 := range c.Unary {
			a := operand(c, 0, kindN*2, -1)
			shapes = append(shapes, shape{fmt.Sprintf("u%s.u%s", opName(u), opName(u2)), fmt.Sprintf("%s(%s%s)", u, u2, a)})
			shapes = append(shapes, shape{fmt.Sprintf("u%s.u%s/np", opName(u), opName(u2)), fmt.Sprintf("%s %s%s", u, u2, a)})
		}
	}
	// comparisons of compound operands
	if c.Name != "string" {
		for _, cmp := range []string{"==", "!=", "<", "<=", ">", ">="} {
			shapes = append(shapes, shape{"cmp" + opName(cmp), fmt.Sprintf("b2%s(a+b %s c-a)", c.Name, cmp)})
			shapes = append(shapes, shape{"ncmp" + opName(cmp), fmt.Sprintf("b2%s(!(a %s b) || c %s a && !(b %s c))", c.Name, cmp, cmp, cmp)})
		}
		w("func b2%s(x bool) %s {\n\tif x {\n\t\treturn 1\n\t}\n\treturn 0\n}\n\n", c.Name, T)
	}
	for i, s := range shapes {
		w("func e%d(a, b, c %s) %s { return %s }\n", i, T, T, s.expr)
	}
	w("\nvar grid = []%s{%s}\n\nvar table = []struct {\n\tid string\n\tf  func(a, b, c %s) %s\n}{\n", T, strings.Join(c.Grid, ", "), T, T)
	for i, s := range shapes {
		w("\t{%q, e%d},\n", s.id, i)
	}
	w("}\n\nfunc eval(f func(a, b, c %s) %s, a, b, c %s) (res string) {\n\tc0 := calls\n\tdefer func() {\n\t\tif r := recover(); r != nil {\n\t\t\tres = \"P\"\n\t\t\tcalls = c0 // how many calls precede a run-time panic inside one expression is not specified\n\t\t}\n\t}()\n\treturn %s\n}\n", T, T, T, fmt.Sprintf(c.Show, "f(a, b, c)"))
	w("\nfunc main() {\n\tfor _, e := range table {\n\t\td := newDigest()\n\t\tcalls = 0\n\t\tfor _, a := range grid {\n\t\t\tfor _, b := range grid {\n\t\t\t\tfor _, c := range grid {\n\t\t\t\t\tr := eval(e.f, a, b, c)\n\t\t\t\t\td.str(r)\n\t\t\t\t\tif detailCase == e.id {\n\t\t\t\t\t\tprintln(\"C01/expr/%s/\"+e.id+\"/detail\", %s, %s, %s, r)\n\t\t\t\t\t}\n\t\t\t\t}\n\t\t\t}\n\t\t}\n\t\tprintln(\"C01/expr/%s/\"+e.id, d.String(), itoa(int64(calls)))\n\t}\n}\n", c.Name, fmt.Sprintf(c.Show, "a"), fmt.Sprintf(c.Show, "b"), fmt.Sprintf(c.Show, "c"), c.Name)
	return diffrun.Program{Name: "c01_expr_" + c.Name, Files: map[string]string{"main.go": b.String(), "detail.go": "package main\n\nvar detailCase = \"\"\n"}}
}

func opName(op string) string {
	return map[string]string{"+": "add", "-": "sub", "*": "mul", "/": "quo", "%": "rem", "&": "and", "|": "or", "^": "xor", "&^": "andnot", "<<": "shl", ">>": "shr", "==": "eq", "!=": "ne", "<": "lt", "<=": "le", ">": "gt", ">=": "ge"}[op]
}

// Programs returns the G2 programs.
func Programs() []diffrun.Program {
	var ps []diffrun.Program
	for _, c := range classes {
		p := Program(c)
		cc := c
		p.Detail = func(id string) *diffrun.Program {
			d := Program(cc)
			// id looks like C01/expr/<class>/<shape>
			parts := strings.SplitN(id, "/", 4)
			if len(parts) == 4 {
				d.Files["detail.go"] = fmt.Sprintf("package main\n\nvar detailCase = %q\n", parts[3])
			}
			return &d
		}
		ps = append(ps, p)
	}
	return ps
}
