package expr

import (
	"fmt"
	"strings"

	"verif/mc/diffrun"
)

// LvalueProgram enumerates (assignable operand shape) x (shape of the index / pointer operand inside it)
// x (assignment operator): every operand of the left-hand side must be evaluated exactly once, in order,
// whatever the statement is desugared into. Each case prints the calls made and the whole state.
func LvalueProgram() diffrun.Program {
	type lv struct{ name, text string } // %I, %J = index operand slots
	lvs := []lv{
		{"arr", "a[%I]"},
		{"slice", "sl[%I]"},
		{"map", "m[%I]"},
		{"field-of-index", "st[%I].f"},
		{"index-of-field-of-index", "st[%I].g[%J]"},
		{"arr-of-arr", "aa[%I][%J]"},
		{"slice-of-slice", "sls[%I][%J]"},
		{"deref-call", "*pp(%I)"},
		{"field-of-call", "ps(%I).f"},
		{"index-of-ptr-call", "pa(%I)[%J]"},
		{"map-of-named-key", "mk[MyKey(%I)]"},
	}
	type ix struct{ name, text string } // %T = tag, value is always 1
	ixs := []ix{
		{"call", `c("%T", 1)`},
		{"conv-call", `Int(c8("%T", 1))`},
		{"conv-conv-call", `Int(uint8(c("%T", 1)))`},
		{"named-conv-call", `Int(MyInt(c("%T", 1)))`},
		{"call-plus", `c("%T", 1) + zero`},
		{"neg-call", `-c("%T", -1)`},
		{"index-by-call", `idx[c("%T", 0)]`},
		{"deref-call", `*pi("%T")`},
		{"funclit", `func() Int { calls += "%T;"; return 1 }()`},
		{"method-call", `cn.next("%T")`},
		{"var", `one`},
		{"const", `1`},
		{"len-call", `Int(len(s1("%T")))`},
		{"paren-conv", `(Int)((c("%T", 1)))`},
	}
	ops := []struct{ name, text string }{
		{"assign", `= c("v", 5)`}, {"add", `+= c("v", 5)`}, {"inc", `++`}, {"dec", `--`}, {"shl", `<<= 2`}, {"or", `|= c("v", 8)`},
		{"andnot", `&^= 1`}, {"rem", `%= 3`}, {"mul", `*= c("v", 3)`}, {"sub-conv", `-= Int(c8("v", 2))`},
	}
	var b strings.Builder
	b.WriteString(`package main

var calls string

type MyInt Int
type MyKey Int
type cell struct {
	f Int
	g [3]Int
}
type counter struct{ n Int }

func (k *counter) next(tag string) Int { calls += tag + ";"; k.n++; return 1 }

var (
	a    [4]Int
	sl   []Int
	m    map[Int]Int
	mk   map[MyKey]Int
	st   [3]cell
	aa   [3][3]Int
	sls  [][]Int
	idx  = []Int{1, 1}
	one  = Int(1)
	zero = Int(0)
	cn   = &counter{}
	cell1 Int
)

func c(tag string, v Int) Int   { calls += tag + ";"; return v }
func c8(tag string, v int8) int8 { calls += tag + ";"; return v }
func pi(tag string) *Int        { calls += tag + ";"; return &one }
func s1(tag string) string      { calls += tag + ";"; return "x" }
func pp(i Int) *Int             { calls += "pp;"; return &a[i] }
func ps(i Int) *cell            { calls += "ps;"; return &st[i] }
func pa(i Int) *[3]Int          { calls += "pa;"; return &aa[i] }

func reset() {
	calls = ""
	a = [4]Int{10, 11, 12, 13}
	sl = []Int{20, 21, 22, 23}
	m = map[Int]Int{0: 30, 1: 31, 2: 32}
	mk = map[MyKey]Int{0: 40, 1: 41}
	st = [3]cell{{50, [3]Int{51, 52, 53}}, {60, [3]Int{61, 62, 63}}, {70, [3]Int{71, 72, 73}}}
	aa = [3][3]Int{{1, 2, 3}, {4, 5, 6}, {7, 8, 9}}
	sls = [][]Int{{1, 2, 3}, {4, 5, 6}}
	cn.n = 0
}

func lst(xs []Int) string {
	s := ""
	for _, x := range xs {
		s += itoa(int64(x)) + "."
	}
	return s
}

func state() string {
	s := lst(a[:]) + "|" + lst(sl) + "|" + itoa(int64(m[0])) + "." + itoa(int64(m[1])) + "." + itoa(int64(m[2])) + "." + itoa(int64(len(m))) + "|" + itoa(int64(mk[0])) + "." + itoa(int64(mk[1])) + "." + itoa(int64(len(mk))) + "|"
	for _, e := range st {
		s += itoa(int64(e.f)) + "." + lst(e.g[:])
	}
	s += "|"
	for _, r := range aa {
		s += lst(r[:])
	}
	s += "|" + lst(sls[0]) + lst(sls[1]) + "|" + itoa(int64(cn.n))
	return s
}

var table = []struct {
	id string
	f  func()
}{
`)
	for _, l := range lvs {
		for _, i := range ixs {
			for _, o := range ops {
				t := strings.ReplaceAll(l.text, "%I", strings.ReplaceAll(i.text, "%T", "i"))
				t = strings.ReplaceAll(t, "%J", strings.ReplaceAll(i.text, "%T", "j"))
				fmt.Fprintf(&b, "\t{%q, func() { %s %s }},\n", l.name+"/"+i.name+"/"+o.name, t, o.text)
			}
		}
	}
	b.WriteString(`}

func main() {
	for _, e := range table {
		reset()
		e.f()
		println("C01/lvalue/"+e.id, calls+" "+state())
	}
}
`)
	return diffrun.Program{Name: "c01_lvalues", Files: map[string]string{"main.go": b.String()}}
}

// LiteralProgram enumerates keyed composite literals of arrays and slices: every sequence of up to three
// elements, each positional or keyed with an index from a small set (in any order, with gaps), for several
// element types and for slice, sized array and [...] array literals; maps with constant and computed keys.
func LiteralProgram() diffrun.Program {
	keys := []int{-1, 0, 1, 2, 4} // -1 = positional
	type seq []int
	var seqs []seq
	var rec func(cur seq)
	rec = func(cur seq) {
		if len(cur) > 0 {
			// valid when no index is used twice
			used := map[int]bool{}
			next, ok := 0, true
			for _, k := range cur {
				i := next
				if k >= 0 {
					i = k
				}
				if used[i] || i > 5 {
					ok = false
					break
				}
				used[i] = true
				next = i + 1
			}
			if !ok {
				return
			}
			seqs = append(seqs, append(seq{}, cur...))
		}
		if len(cur) == 3 {
			return
		}
		for _, k := range keys {
			rec(append(cur, k))
		}
	}
	rec(nil)
	elemTypes := []struct{ name, typ, show string; vals [3]string }{
		{"Int", "Int", "itoa(int64(%s))", [3]string{"c(11)", "12", "c(13)"}},
		{"string", "string", "%s", [3]string{`"a"`, `s("b")`, `"c"`}},
		{"struct", "pt", "itoa(int64(%s.x))+\"/\"+itoa(int64(%s.y))", [3]string{"pt{1, 2}", "{x: c(3)}", "{5, 6}"}},
		{"uint8", "uint8", "itoa(int64(%s))", [3]string{"1", "uint8(c(2))", "3"}},
		{"ptr", "*pt", "itoa(int64(%s.x))", [3]string{"&pt{x: 7}", "{8, 9}", "{x: c(10)}"}},
	}
	var b strings.Builder
	b.WriteString(`package main

var calls Int

type pt struct{ x, y Int }

const k2 = 2

func c(v Int) Int       { calls++; return v }
func s(v string) string { calls++; return v }

func main() {
`)
	n := 0
	for _, et := range elemTypes {
		for _, kind := range []string{"[]", "[6]", "[...]"} {
			for _, sq := range seqs {
				n++
				var elems []string
				var idParts []string
				for i, k := range sq {
					e := et.vals[i]
					switch {
					case k == 2:
						e = "k2: " + e // a named constant as key
					case k == 4:
						e = "1 + 3: " + e // a constant expression as key
					case k >= 0:
						e = fmt.Sprintf("%d: %s", k, e)
					}
					elems = append(elems, e)
					if k < 0 {
						idParts = append(idParts, "p")
					} else {
						idParts = append(idParts, fmt.Sprint(k))
					}
				}
				id := fmt.Sprintf("C01/literal/%s/%s/%s", et.name, kind, strings.Join(idParts, ","))
				show := strings.ReplaceAll(et.show, "%s", "e")
				zero := ""
				if et.name == "ptr" {
					zero = "if e == nil { out += \"nil;\"; continue }\n\t\t\t"
				}
				fmt.Fprintf(&b, "\t{\n\t\tcalls = 0\n\t\tv := %s%s{%s}\n\t\tout := itoa(int64(len(v))) + \":\"\n\t\tfor _, e := range v {\n\t\t\t%sout += %s + \";\"\n\t\t}\n\t\tprintln(%q, out+itoa(int64(calls)))\n\t}\n", kind, et.typ, strings.Join(elems, ", "), zero, show, id)
			}
		}
	}
	// maps: constant, computed and duplicate-free keys in any order; nested literals with elided types
	b.WriteString(`	{
		m := map[string][]pt{"b": {{1, 2}, 2: {x: 3}}, s("a"): nil, "c" + "d": {1: {y: 4}}}
		mm := map[pt]map[Int]string{{1, 2}: {2: "x", c(1): "y"}, {y: 1}: nil}
		arr := [...][2]pt{2: {{1, 1}, {2, 2}}, 0: {1: {x: 9}}}
		println("C01/literal/nested", itoa(int64(len(m)))+itoa(int64(len(m["b"])))+itoa(int64(m["b"][2].x))+itoa(int64(len(m["cd"])))+itoa(int64(m["cd"][1].y))+itoa(int64(len(mm)))+mm[pt{1, 2}][1]+mm[pt{1, 2}][2]+itoa(int64(len(arr)))+itoa(int64(arr[2][1].x))+itoa(int64(arr[0][1].x))+itoa(int64(arr[1][0].x)))
	}
}
`)
	_ = n
	return diffrun.Program{Name: "c01_literals", Files: map[string]string{"main.go": b.String()}}
}
