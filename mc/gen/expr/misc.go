package expr

import "verif/mc/diffrun"

const miscSrc = `package main

func o(id, s string) { println("C01/misc/"+id, s) }

var calls string

func c(tag string, v Int) Int { calls += tag; return v }

type rec struct {
	width int64
	args  [3]Int
	sl    []Int
	s     string
	cx    complex128
	u     uint64
}

type stream struct{ pos Int }

func (s *stream) next() rec {
	s.pos++
	calls += "n"
	return rec{width: int64(s.pos) << 33, args: [3]Int{s.pos, s.pos * 10, s.pos * 100}, sl: []Int{s.pos, s.pos + 1}, s: "abc", cx: complex(float64(s.pos), 1), u: uint64(s.pos) << 40}
}

func two() (Int, bool)             { return 7, true }
func fwdIface() (interface{}, bool) { return two() }

type notFound struct{ k Int }

func (n notFound) Error() string { return "nf" }
func lookup() (notFound, Int)    { return notFound{1}, 2 }
func fwdErr() (error, Int)       { return lookup() }
func three() (Int, string, float64) { return 1, "s", 2.5 }
func fwd3() (interface{}, interface{}, interface{}) { return three() }

type MyInt Int
type MyStr string
type MyBytes []byte

func main() {
	// selections of call results used more than once by the generated code
	s := &stream{}
	calls = ""
	w := s.next().width + 1
	x := s.next().args[1]
	y := s.next().sl[1]
	z := s.next().s[2]
	q := s.next().cx * complex(2, 0)
	v := s.next().u >> 3
	d := s.next().width / 3
	o("call-field", itoa(w)+","+itoa(int64(x))+","+itoa(int64(y))+","+itoa(int64(z))+","+ftoa(real(q))+","+utoa(v)+","+itoa(d)+","+calls+itoa(int64(s.pos)))
	// forwarding of multi-value results with implicit conversions
	i1, ok := fwdIface()
	_, isInt := i1.(Int)
	e1, n1 := fwdErr()
	_, isNF := e1.(notFound)
	a3, b3, c3 := fwd3()
	_, t1 := a3.(Int)
	_, t2 := b3.(string)
	_, t3 := c3.(float64)
	o("forward-tuple", btoa(ok)+btoa(isInt)+btoa(isNF)+e1.Error()+itoa(int64(n1))+btoa(t1)+btoa(t2)+btoa(t3)+btoa(i1 == interface{}(Int(7))))
	// assignment forms on every addressable operand
	var a [3]Int
	sl := []Int{1, 2, 3}
	m := map[string]Int{"k": 1}
	st := struct{ f, g Int }{1, 2}
	p := &st
	pi := &a[1]
	xx, yy := Int(1), Int(2)
	xx, yy = yy, xx
	a[0], a[1], a[2] = 1, a[0]+2, a[1]+3
	sl[0], sl[1] = sl[1], sl[0]
	m["k"], m["j"] = m["j"]+5, m["k"]+6
	st.f, st.g = st.g, st.f
	p.f += 10
	p.g++
	*pi -= 4
	a[2] <<= 2
	sl[2] %= 2
	m["k"] *= 3
	m["z"]++
	xx |= 8
	yy &^= 2
	i, j := 0, 2
	i, a[i] = 1, 50
	j, sl[j] = 0, 60
	o("assign", itoa(int64(xx))+itoa(int64(yy))+","+itoa(int64(a[0]))+itoa(int64(a[1]))+itoa(int64(a[2]))+","+itoa(int64(sl[0]))+itoa(int64(sl[1]))+itoa(int64(sl[2]))+","+itoa(int64(m["k"]))+itoa(int64(m["j"]))+itoa(int64(m["z"]))+","+itoa(int64(st.f))+itoa(int64(st.g))+itoa(int64(i+j)))
	var b1, b2 interface{} = 1, "s"
	b1, b2 = b2, b1
	_, sw1 := b1.(string)
	var f64 float64
	var i64 int64
	f64, i64 = 1, 2
	f64, i64 = float64(i64), int64(f64)
	o("assign-iface", btoa(sw1)+ftoa(f64)+itoa(i64))
	// conversions
	str := "héllo, 世界\x80"
	bs := []byte(str)
	rs := []rune(str)
	ms := MyStr(str)
	mb := MyBytes(ms)
	bs[0] = 'H'
	o("conv-string", itoa(int64(len(bs)))+itoa(int64(len(rs)))+quote(string(bs[:2]))+quote(string(rs[1:3]))+quote(string(MyStr(mb[:1])))+quote(string(ms[:1]))+itoa(int64(rs[len(rs)-1]))+string(rune(MyInt(65)))+itoa(int64(len(string(rs)))))
	arrp := (*[2]Int)(sl[:2])
	arrv := [2]Int(sl[1:3])
	arrp[0] = 99
	o("conv-array", itoa(int64(sl[0]))+itoa(int64(arrv[0]))+itoa(int64(MyInt(arrp[1])+MyInt(arrv[1]))))
	// untyped constants at the limits, folding vs variables
	const big = 1 << 62
	const huge = 1 << 100
	var one Int = 1
	var one64 int64 = 1
	var fl = 0.1
	o("const", itoa(big>>60)+itoa(int64(huge>>98))+ftoa(huge)+itoa(int64(one<<31>>31))+itoa(one64<<62>>60)+btoa(0.1+0.2 == 0.3)+btoa(fl+0.2 == 0.3)+itoa(int64(int8(-128)))+itoa(int64(uint8(255)))+ftoa(1/3.0)+ftoa(float64(float32(0.1)))+itoa(int64('a'*2))+itoa(7/2)+ftoa(7/2.0)+itoa(-7/2)+itoa(-7%3)+itoa(int64(one*-7/2))+itoa(int64(-7%(one+2))))
	const typed int8 = 100
	var v8 int8 = 100
	o("const-fold", itoa(int64(typed/7*7))+itoa(int64(v8/7*7))+itoa(int64(typed>>1<<1))+itoa(int64(v8+v8))+itoa(int64(^typed))+itoa(int64(^v8))+itoa(int64(uint8(v8)<<1))+itoa(int64(uint16(typed)<<9)))
	// string building, comparison, switch
	acc := ""
	for k := 0; k < 3; k++ {
		acc += string(rune('a'+k)) + itoa(int64(k))
	}
	switch {
	case acc < "a0b1c3" && acc > "a0b1c1":
		acc += "!"
	}
	o("strings", acc+btoa("a" < "b")+btoa("" < "a")+btoa("ab" < "a")+itoa(int64(len(acc))))
	// len and cap of array-valued expressions that are not constant: the operand is evaluated
	calls = ""
	mkArr := func() [3]Int { calls += "m"; return [3]Int{1, 2, 3} }
	mkPtr := func() *[4]Int { calls += "p"; return &[4]Int{} }
	ach := make(chan [2]Int, 2)
	ach <- [2]Int{1, 2}
	ach <- [2]Int{3, 4}
	la := len(mkArr()) + cap(mkArr()) + len(mkPtr()) + cap(mkPtr()) + len(<-ach) + cap(<-ach) + len([2]Int{c("x", 1), 2}) + len(s.next().args) + cap([1][2]Int{{c("y", 1), 2}}[0])
	for range mkArr() {
		la++
	}
	o("len-array", itoa(int64(la))+calls+itoa(int64(len(ach))))
	// closures over loop variables, defers in loops
	var fs []func() Int
	for k := Int(0); k < 3; k++ {
		k := k
		defer func() { calls += itoa(int64(k)) }()
		fs = append(fs, func() Int { return k * k })
	}
	o("closures", itoa(int64(fs[0]()+fs[1]()+fs[2]())))
	// header variables of nested loops (one variable per loop instance), captured by closures and by pointers
	var gs []func() Int
	var ps []*Int
	for a := Int(0); a < 3; a++ {
		for b := a * 10; b < a*10+2; b++ {
			gs = append(gs, func() Int { return b })
			ps = append(ps, &b)
		}
	}
	nested := ""
	for k, g := range gs {
		nested += itoa(int64(g())) + "," + itoa(int64(*ps[k])) + ";"
	}
	var hs []func() Int
	for _, row := range [][]Int{{1, 2}, {3}} {
		for j, cell := range row {
			hs = append(hs, func() Int { return cell*100 + Int(j) })
		}
		for j := range row {
			hs = append(hs, func() Int { return Int(j) + 50 })
		}
	}
	for _, h := range hs {
		nested += itoa(int64(h())) + ";"
	}
	o("closures-nested-loops", nested)
}
`

const evalOrderSrc = `package main

var calls string

func c(tag string, v Int) Int { calls += tag + ";"; return v }

var g Int

func pf(tag string) *Int { calls += tag + ";"; return &g }

func main() {
	a := []Int{0, 0, 0}
	m := map[Int]Int{}
	calls = ""
	a[c("i", 1)] = c("v", 5)
	println("C01/evalorder/index-assign", calls)
	calls = ""
	*pf("p") = c("v", 6)
	println("C01/evalorder/deref-assign", calls)
	calls = ""
	m[c("k", 1)] = c("v", 7)
	println("C01/evalorder/map-assign", calls)
	calls = ""
	a[c("i0", 0)], a[c("i1", 1)] = c("v0", 1), c("v1", 2)
	println("C01/evalorder/tuple-assign", calls)
	calls = ""
	var st [2]struct{ f Int }
	st[c("i", 1)].f = c("v", 8)
	println("C01/evalorder/field-of-index-assign", calls)
	// tuple assignment from ONE multi-value expression: the operands on the left come first, too
	two := func(tag string) (Int, Int) { calls += tag + ";"; return 1, 2 }
	box := &struct{ f Int }{}
	pb := func(tag string) *struct{ f Int } { calls += tag + ";"; return box }
	var x Int
	calls = ""
	x, a[c("i", 1)] = two("call")
	println("C01/evalorder/tuple-call-index", calls, itoa(int64(x*10+a[1])))
	calls = ""
	a[c("i0", 0)], a[c("i1", 1)] = two("call")
	println("C01/evalorder/tuple-call-two-indices", calls)
	calls = ""
	x, *pf("p") = two("call")
	println("C01/evalorder/tuple-call-deref", calls)
	calls = ""
	x, pb("sel").f = two("call")
	println("C01/evalorder/tuple-call-selector", calls, itoa(int64(box.f)))
	calls = ""
	x, pb("sel").f = c("v0", 1), c("v1", 2)
	println("C01/evalorder/tuple-selector", calls)
	calls = ""
	var ok bool
	oks := []bool{false, false}
	x, oks[c("i", 1)] = m[c("k", 1)]
	println("C01/evalorder/tuple-commaok-map", calls, btoa(oks[1]))
	var iv interface{} = Int(3)
	calls = ""
	x, oks[c("i", 0)] = iv.(Int)
	println("C01/evalorder/tuple-commaok-assert", calls, btoa(oks[0]))
	ch := make(chan Int, 1)
	ch <- 5
	calls = ""
	x, oks[c("i", 1)] = <-ch
	println("C01/evalorder/tuple-commaok-recv", calls, itoa(int64(x)), btoa(ok))
}
`

// MiscProgram: handwritten G3/G4 probes.
func MiscProgram() diffrun.Program {
	return diffrun.Program{Name: "c01_misc", Files: map[string]string{"main.go": miscSrc}}
}

// EvalOrderProgram: calls in assignment targets vs calls on the right-hand side.
func EvalOrderProgram() diffrun.Program {
	return diffrun.Program{Name: "c01_evalorder", Files: map[string]string{"main.go": evalOrderSrc}}
}
