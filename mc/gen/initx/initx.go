// Package initx generates the C10 programs: import DAGs x per-package variable
// dependency patterns x init placements, linkname edges in both directions of the
// import graph, and the build-time rejection table.
package initx

import (
	"fmt"
	"sort"
	"strings"

	"verif/mc/diffrun"
	"verif/mc/gen/susp"
)

// patterns of package-level variables and inits spread over two files whose names sort
// against the declaration intent. PKG = package name, IMPORTVAL = expression using imports.
type pattern struct {
	name         string
	file1, file2 string // file1 is named z_*.go, file2 a_*.go
}

var patterns = []pattern{
	{"decl-order",
		`var V1 = trace.Reg("PKG.v1") + IMPORTVAL
var V2 = trace.Reg("PKG.v2")

func init() { trace.Reg("PKG.init-z1") }
func init() { trace.Reg("PKG.init-z2") }
`,
		`var V3 = trace.Reg("PKG.v3")
var v4 = trace.Reg("PKG.v4")

func init() { trace.Reg("PKG.init-a1") }
`},
	{"forward-func",
		`var V1 = V2 + trace.Reg("PKG.v1")
var V2 = f() + IMPORTVAL

func f() Int { return V3 + trace.Reg("PKG.f") }

func init() { trace.Reg("PKG.init-z") }
`,
		`var V3 = trace.Reg("PKG.v3")
var unusedButInitialised = trace.Reg("PKG.unused")
var unusedConv = Int(int8(trace.Reg("PKG.conv")))
var unusedIndex = [3]Int{1, 2, 3}[trace.Reg("PKG.idx")%3]

func init() { trace.Reg("PKG.init-a1") }
func init() { trace.Reg("PKG.init-a2") }
`},
	{"method-cross-file",
		`type T struct{}

func (T) m() Int { return V3 * 2 }

var V1 = T{}.m() + trace.Reg("PKG.v1")
var V2, V2b = trace.Reg("PKG.v2"), trace.Reg("PKG.v2b") + IMPORTVAL

func init() { trace.Reg("PKG.init-z") }
`,
		`var V3 = g()

func g() Int { return trace.Reg("PKG.g") + h() }
func h() Int { return V4 }

var V4 = trace.Reg("PKG.v4")
var _ = trace.Reg("PKG.blank")

func init() { trace.Reg("PKG.init-a") }
`},
	{"closure-and-multi",
		`var V1 = func() Int { return V3 + trace.Reg("PKG.v1-lit") }()
var V2x, V2y = two()

func two() (Int, Int) { return trace.Reg("PKG.two") + IMPORTVAL, V4 }

func init() { trace.Reg("PKG.init-z") }
`,
		`var V3 = trace.Reg("PKG.v3")
var V4 = trace.Reg("PKG.v4")
var V2 = V2x + V2y

func init() { V2 += trace.Reg("PKG.init-a") }
`},
}

const traceSrc = `package trace

var Order string

func Reg(s string) Int {
	Order += s + ";"
	return Int(len(s))
}
`

// dag: edges[i] lists the packages (by index > i) imported by package i; mainImports lists those imported by main.
type dag struct {
	edges       [3][]int
	mainImports []int
}

func allDags() []dag {
	var res []dag
	names := 3
	for mask := 0; mask < 8; mask++ { // a->b, a->c, b->c
		for mi := 1; mi < 8; mi++ {
			var d dag
			if mask&1 != 0 {
				d.edges[0] = append(d.edges[0], 1)
			}
			if mask&2 != 0 {
				d.edges[0] = append(d.edges[0], 2)
			}
			if mask&4 != 0 {
				d.edges[1] = append(d.edges[1], 2)
			}
			for i := 0; i < names; i++ {
				if mi&(1<<i) != 0 {
					d.mainImports = append(d.mainImports, i)
				}
			}
			// every package must be reachable from main
			reach := map[int]bool{}
			var visit func(i int)
			visit = func(i int) {
				if reach[i] {
					return
				}
				reach[i] = true
				for _, j := range d.edges[i] {
					visit(j)
				}
			}
			for _, i := range d.mainImports {
				visit(i)
			}
			if len(reach) == 3 {
				res = append(res, d)
			}
		}
	}
	return res
}

var pkgNames = []string{"pa", "pb", "pc"}

// Programs returns the init-order programs.
func Programs(thorough bool) []diffrun.Program {
	var ps []diffrun.Program
	dags := allDags()
	for di, d := range dags {
		for pi := range patterns {
			if !thorough && (di+pi)%3 != 0 {
				continue
			}
			ps = append(ps, build(di, d, pi))
		}
	}
	return ps
}

func build(di int, d dag, pi int) diffrun.Program {
	name := fmt.Sprintf("c10_d%02d_p%d", di, pi)
	mod := diffrun.ModName(name)
	files := map[string]string{}
	native := map[string]string{}
	add := func(path, content string) { files[path] = content; native[path] = content }
	// addPkgFiles registers the files of one package; the native copy gets order-reversing names.
	addPkgFiles := func(dir string, fs map[string]string) {
		var names []string
		for n := range fs {
			names = append(names, n)
		}
		sort.Strings(names)
		for i, n := range names {
			p := n
			if dir != "" {
				p = dir + "/" + n
			}
			files[p] = fs[n]
			// native: the file that sorts last gets the name that sorts first
			rn := fmt.Sprintf("r%02d_%s", len(names)-i, n)
			np := rn
			if dir != "" {
				np = dir + "/" + rn
			}
			native[np] = fs[n]
		}
	}
	add("trace/trace.go", traceSrc)
	add("trace/int_js.go", "//go:build js\n\npackage trace\n\ntype Int = int\n")
	add("trace/int_ref.go", "//go:build !js\n\npackage trace\n\ntype Int = int32\n")
	for i, pn := range pkgNames {
		pat := patterns[(pi+i)%len(patterns)]
		imports := []string{`"` + mod + `/trace"`}
		importVal := "0"
		for _, j := range d.edges[i] {
			imports = append(imports, `"`+mod+`/`+pkgNames[j]+`"`)
			importVal += " + " + pkgNames[j] + ".V1"
		}
		hdr := func(withImports bool, uses string) string {
			s := "package " + pn + "\n\nimport (\n\t\"" + mod + "/trace\"\n"
			if withImports {
				for _, im := range imports[1:] {
					s += "\t" + im + "\n"
				}
			}
			return s + ")\n\ntype Int = trace.Int\n\n"
		}
		f1 := strings.ReplaceAll(strings.ReplaceAll(pat.file1, "PKG", pn), "IMPORTVAL", importVal)
		f2 := strings.ReplaceAll(pat.file2, "PKG", pn)
		h2 := "package " + pn + "\n\nimport \"" + mod + "/trace\"\n\n"
		addPkgFiles(pn, map[string]string{"z_" + pn + ".go": hdr(true, importVal) + f1, "a_" + pn + ".go": h2 + f2, "m_types.go": "package " + pn + "\n\nvar M1 = V1 + 1\n"})
	}
	var mb strings.Builder
	mb.WriteString("package main\n\nimport (\n\t\"" + mod + "/trace\"\n")
	for _, i := range d.mainImports {
		mb.WriteString("\t\"" + mod + "/" + pkgNames[i] + "\"\n")
	}
	mb.WriteString(")\n\nvar mainV1 = trace.Reg(\"main.v1\") + mainV2\nvar mainV2 = trace.Reg(\"main.v2\")")
	for _, i := range d.mainImports {
		mb.WriteString(" + " + pkgNames[i] + ".V1")
	}
	// The order between packages that do not depend on each other is not fixed by the property:
	// the program prints the events of every package separately and checks the dependency edges itself.
	var edges []string
	for i := range pkgNames {
		for _, j := range d.edges[i] {
			edges = append(edges, fmt.Sprintf("{%q, %q}", pkgNames[i], pkgNames[j]))
		}
	}
	for _, i := range d.mainImports {
		edges = append(edges, fmt.Sprintf("{\"main\", %q}", pkgNames[i]))
	}
	mb.WriteString("\n\nfunc init() { trace.Reg(\"main.init-z\") }\n\nvar edges = [][2]string{" + strings.Join(edges, ", ") + "}\n")
	mb.WriteString(`
func events(pkg string) (evs string, first, last int) {
	first, last = -1, -1
	n := 0
	cur := ""
	for i := 0; i < len(trace.Order); i++ {
		if trace.Order[i] != ';' {
			cur += string(trace.Order[i])
			continue
		}
		if len(cur) > len(pkg) && cur[:len(pkg)+1] == pkg+"." {
			evs += cur + ";"
			if first < 0 {
				first = n
			}
			last = n
		}
		n++
		cur = ""
	}
	return
}

func main() {
	trace.Reg("main.main")
	id := "C10/order/` + name + `"
	for _, p := range []string{"pa", "pb", "pc", "main"} {
		evs, _, _ := events(p)
		println(id+"/pkg="+p, evs)
	}
	ok := "deps-respected"
	for _, e := range edges {
		_, first, _ := events(e[0])
		_, _, last := events(e[1])
		if !(last < first) {
			ok = "VIOLATED: " + e[0] + " started before " + e[1] + " finished"
		}
	}
	_, _, lastMain := events("main")
	total := 0
	for i := 0; i < len(trace.Order); i++ {
		if trace.Order[i] == ';' {
			total++
		}
	}
	if lastMain != total-1 {
		ok = "VIOLATED: main.main is not last"
	}
	println(id+"/deps", ok)
}
`)
	addPkgFiles("", map[string]string{"z_main.go": mb.String(), "a_main.go": "package main\n\nimport \"" + mod + "/trace\"\n\nvar mainA = trace.Reg(\"main.a\")\n\nfunc init() { trace.Reg(\"main.init-a\") }\n"})
	return diffrun.Program{Name: name, Files: files, NativeFiles: native, NoHelpers: true}
}

// PureChainProgram: packages without any variable or init function of their own (only functions, types and
// constants) between main and packages whose initialisation has effects; the latter are imported by nobody else.
func PureChainProgram() diffrun.Program {
	name := "c10_purechain"
	mod := diffrun.ModName(name)
	r := func(s string) string { return strings.ReplaceAll(s, "MOD", mod) }
	files := map[string]string{
		"trace/trace.go":   traceSrc,
		"trace/int_js.go":  "//go:build js\n\npackage trace\n\ntype Int = int\n",
		"trace/int_ref.go": "//go:build !js\n\npackage trace\n\ntype Int = int32\n",
		"effa/effa.go":     r("package effa\n\nimport \"MOD/trace\"\n\nvar Prefix = func() string { trace.Reg(\"effa.Prefix\"); return \"a:\" }()\n\nfunc init() { trace.Reg(\"effa.init\") }\n"),
		"effb/effb.go":     r("package effb\n\nimport \"MOD/trace\"\n\nvar Table = map[string]trace.Int{\"k\": trace.Reg(\"effb.Table\")}\n\nfunc init() { trace.Reg(\"effb.init\"); Table[\"i\"] = 1 }\n"),
		"effc/effc.go":     r("package effc\n\nimport \"MOD/trace\"\n\nfunc init() { trace.Reg(\"effc.init-only\") }\n"),
		"purea/purea.go":   r("package purea\n\nimport \"MOD/effa\"\n\nconst Version = 3\n\ntype Label string\n\nfunc Mk(s string) Label { return Label(effa.Prefix + s) }\n"),
		"pureb/pureb.go":   r("package pureb\n\nimport \"MOD/purec\"\n\nfunc Size() int { return purec.Size() + 1 }\n"),
		"purec/purec.go":   r("package purec\n\nimport (\n\t\"MOD/effb\"\n\t_ \"MOD/effc\"\n)\n\ntype T struct{}\n\nfunc Size() int { return len(effb.Table) }\n"),
		"main.go": r(`package main

import (
	"MOD/purea"
	"MOD/pureb"
	"MOD/trace"
)

var first = func() string { trace.Reg("main.first"); return string(purea.Mk("x")) }()

func init() { trace.Reg("main.init") }

func events(prefix string) string {
	out, cur := "", ""
	for i := 0; i < len(trace.Order); i++ {
		if trace.Order[i] != ';' {
			cur += string(trace.Order[i])
			continue
		}
		if len(cur) > len(prefix) && cur[:len(prefix)] == prefix {
			out += cur + ";"
		}
		cur = ""
	}
	return out
}

func main() {
	// the order between packages that do not depend on each other is not fixed: print each package's own events
	for _, p := range []string{"effa.", "effb.", "effc.", "main."} {
		println("C10/purechain/events/"+p, events(p))
	}
	// everything main depends on (also through packages that have nothing to initialise themselves) ran before main's first initialiser
	mainAt, n, cur := -1, 0, ""
	for i := 0; i < len(trace.Order); i++ {
		if trace.Order[i] != ';' {
			cur += string(trace.Order[i])
			continue
		}
		if cur == "main.first" {
			mainAt = n
		}
		n++
		cur = ""
	}
	println("C10/purechain/deps-first", mainAt, n)
	println("C10/purechain/values", first, pureb.Size(), purea.Version)
}
`),
	}
	return diffrun.Program{Name: name, Files: files, NoHelpers: true}
}

// ---- linknames in both directions ----

// LinknameProgram: function / value method / pointer method targets, along and against the import direction.
func LinknameProgram() diffrun.Program {
	name := "c10_linkname"
	mod := diffrun.ModName(name)
	r := func(s string) string { return strings.ReplaceAll(s, "MOD", mod) }
	mainSrc := `package main

import (
	"MOD/high"
	"MOD/low"
	_ "unsafe"
)

//go:linkname lowFunc MOD/low.hiddenFunc
func lowFunc(x low.Int) low.Int

//go:linkname lowMethod MOD/low.T.hiddenMethod
func lowMethod(t low.T, x low.Int) low.Int

//go:linkname lowPtrMethod MOD/low.(*T).hiddenPtrMethod
func lowPtrMethod(t *low.T, x low.Int) low.Int

func main() {
	t := low.T{K: 5}
	println("C10/linkname/along", lowFunc(1), lowMethod(t, 2), lowPtrMethod(&t, 3), t.K)
	println("C10/linkname/against", low.CallUp(4), low.CallUpMethod(6))
	println("C10/linkname/chain", high.Chain(7))
	// exported body-less functions are called by other packages through the package object
	println("C10/linkname/exported", high.ExportedViaLow(8), low.ExportedUp(9), high.CallExported(10))
	f := low.ExportedUp
	println("C10/linkname/exported-value", f(11))
}
`
	lowSrc := `package low

import _ "unsafe"

type T struct{ K Int }

func hiddenFunc(x Int) Int            { return x + 100 }
func (t T) hiddenMethod(x Int) Int    { return x + t.K + 200 }
func (t *T) hiddenPtrMethod(x Int) Int { t.K++; return x + t.K + 300 }

// against the import direction: low does not import high, but uses its implementation
//go:linkname upFunc MOD/high.upImpl
func upFunc(x Int) Int

//go:linkname upMethod MOD/high.H.upMethodImpl
func upMethod(h struct{ N Int }, x Int) Int

//go:linkname ExportedUp MOD/high.upImpl
func ExportedUp(x Int) Int

func CallUp(x Int) Int       { return upFunc(x) }
func CallUpMethod(x Int) Int { return upFunc(x) * 2 }
`
	highSrc := `package high

import (
	"MOD/low"
	_ "unsafe"
)

type Int = low.Int

type H struct{ N Int }

func upImpl(x Int) Int               { return x + 1000 }
func (h H) upMethodImpl(x Int) Int   { return x + h.N }

//go:linkname viaLow MOD/low.hiddenFunc
func viaLow(x Int) Int

//go:linkname ExportedViaLow MOD/low.hiddenFunc
func ExportedViaLow(x Int) Int

func CallExported(x Int) Int { return ExportedViaLow(x) + low.ExportedUp(x) }

func Chain(x Int) Int { return viaLow(x) + low.CallUp(x) }
`
	return diffrun.Program{Name: name, NoHelpers: true, Files: map[string]string{
		"main.go":         r(mainSrc),
		"stub.s":          "// empty\n",
		"low/low.go":      strings.Replace(r(lowSrc), "//go:linkname upMethod MOD/high.H.upMethodImpl\nfunc upMethod(h struct{ N Int }, x Int) Int\n\n", "", 1),
		"low/stub.s":      "// empty\n",
		"low/int_js.go":   "//go:build js\n\npackage low\n\ntype Int = int\n",
		"low/int_ref.go":  "//go:build !js\n\npackage low\n\ntype Int = int32\n",
		"high/high.go":    r(highSrc),
		"high/stub.s":     "// empty\n",
	}}
}

// Rejection is one build that must fail with an ordinary error.
type Rejection struct {
	Name  string
	Files map[string]string
	Why   string
}

// Rejections: unsupported uses of go:linkname documented in doc/pargma.md.
func Rejections() []Rejection {
	lib := "package lib\n\nfunc Impl(x int) int { return x }\n\nvar Var = 1\n"
	mk := func(name, why, mainSrc string) Rejection {
		return Rejection{Name: name, Why: why, Files: map[string]string{"main.go": mainSrc, "lib/lib.go": lib}}
	}
	return []Rejection{
		mk("on-variable", "the directive only works on functions or methods (variables are not supported)",
			"package main\n\nimport (\n\t_ \"MOD/lib\"\n\t_ \"unsafe\"\n)\n\n//go:linkname linked MOD/lib.Var\nvar linked int\n\nfunc main() { println(linked) }\n"),
		mk("without-unsafe", "the source file that uses the directive must also import unsafe",
			"package main\n\nimport _ \"MOD/lib\"\n\n//go:linkname linked MOD/lib.Impl\nfunc linked(x int) int\n\nfunc main() { println(linked(1)) }\n"),
		mk("provide-local-body", "the directive cannot be used to provide a local implementation to another package",
			"package main\n\nimport (\n\t_ \"MOD/lib\"\n\t_ \"unsafe\"\n)\n\n//go:linkname local MOD/lib.Missing\nfunc local(x int) int { return x + 1 }\n\nfunc main() { println(local(1)) }\n"),
	}
}

// SuspendingInitProgram: package-level initialisers and init functions that suspend (C02 seam);
// nothing may overtake them. Driven by js/c02.js with a single case.
func SuspendingInitProgram() diffrun.Program {
	name := "c10_suspinit"
	mod := diffrun.ModName(name)
	files := susp.VerifFiles()
	files["dep/dep.go"] = "package dep\n\nimport \"" + mod + "/verif\"\n\ntype Int = verif.Int\n\nvar D1 = verif.Y(1) + d2\nvar d2 = verif.TrI(\"d2=\", verif.Y(2))\n\nfunc init() { verif.Tr(\"dep.init\"); verif.Y(3); verif.Tr(\"dep.init.end\") }\n\nfunc init() { verif.TrI(\"dep.init2=\", D1) }\n"
	// a chain main -> mid -> leaf: only leaf suspends while it is initialised, mid has nothing blocking of its own
	files["leaf/leaf.go"] = "package leaf\n\nimport \"" + mod + "/verif\"\n\ntype Int = verif.Int\n\nvar L1 = verif.Y(10) + verif.TrI(\"leaf.L1=\", 1)\n\nfunc init() { verif.Tr(\"leaf.init\"); verif.Y(11); verif.Tr(\"leaf.init.end\") }\n"
	files["mid/mid.go"] = "package mid\n\nimport (\n\t\"" + mod + "/leaf\"\n\t\"" + mod + "/verif\"\n)\n\nvar V = verif.TrI(\"mid.V=\", leaf.L1+1)\n\nfunc init() { verif.Tr(\"mid.init\") }\n"
	files["mid2/mid2.go"] = "package mid2\n\nimport (\n\t\"" + mod + "/mid\"\n\t\"" + mod + "/verif\"\n)\n\nvar W = verif.TrI(\"mid2.W=\", mid.V+1)\n"
	files["main.go"] = "package main\n\nimport (\n\t\"" + mod + "/dep\"\n\t\"" + mod + "/mid2\"\n\t\"" + mod + "/verif\"\n)\n\ntype Int = verif.Int\n\nvar m0 = verif.TrI(\"m0=\", mid2.W)\nvar m1 = verif.TrI(\"m1=\", dep.D1+verif.Y(4))\nvar m2 = func() Int { defer verif.Tr(\"m2.defer\"); return verif.Y(5) + m3 }()\nvar m3 = verif.TrI(\"m3=\", verif.Y(6))\n\nfunc init() {\n\tverif.Tr(\"main.init\")\n\tfor i := 0; i < 2; i++ {\n\t\tverif.Y(7 + i)\n\t}\n\tverif.Tr(\"main.init.end\")\n}\n\nfunc main() {\n\tverif.TrI(\"main=\", m0+m1+m2+m3)\n\tverif.Done(\"C10/suspinit\")\n}\n"
	return diffrun.Program{Name: name, Files: files, NoHelpers: true}
}
