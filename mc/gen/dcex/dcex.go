// Package dcex holds the C05 reachability-path family: every function, method,
// type, instance, variable initialiser or linkname target below is needed at
// run time but reachable ONLY through the path its probe names.
package dcex

import (
	"fmt"
	"strings"

	"verif/mc/diffrun"
)

const mainSrc = `package main

import (
	"MOD/lib"
	_ "unsafe"
)

func o(id, s string) { println("C05/path/"+id, s) }

// 1. only through an interface call
type shape interface{ area() Int }
type sq struct{ s Int }
type rc struct{ w, h Int }

func (s sq) area() Int  { return s.s * s.s }
func (r *rc) area() Int { return r.w * r.h }

// 2. only through a method value / method expression
type mv struct{ k Int }

func (m mv) viaValue() Int         { return m.k + 1 }
func (m *mv) viaPtrValue() Int     { return m.k + 2 }
func (m mv) viaExpr() Int          { return m.k + 3 }
func (m *mv) viaPtrExpr() Int      { return m.k + 4 }
func (m mv) viaIfaceExpr() Int     { return m.k + 5 }
func (m mv) unexportedViaExpr() Int { return m.k + 6 }

type exprIface interface{ viaIfaceExpr() Int }
type exprIface2 interface{ unexportedViaExpr() Int }

func total(f func(exprIface2) Int, xs []exprIface2) Int {
	t := Int(0)
	for _, x := range xs {
		t += f(x)
	}
	return t
}

// 3. only through promotion
type inner struct{ v Int }

func (i inner) promotedVal() Int  { return i.v * 2 }
func (i *inner) promotedPtr() Int { return i.v * 3 }

type mid struct{ inner }
type outerV struct{ mid }
type outerP struct{ *mid }
type withIface struct{ shape }

type promIface interface {
	promotedVal() Int
	promotedPtr() Int
}

// 4. generics
func viaGeneric[T any](x T) T    { return helperGeneric(x) }
func helperGeneric[T any](x T) T { return x }

type gbox[T any] struct{ v T }

func (g gbox[T]) get() T            { return g.v }
func (g *gbox[T]) set(v T)          { g.v = v }
func (g gbox[T]) pair() gpair[T, T] { return gpair[T, T]{g.v, g.v} }

type gpair[A, B any] struct {
	a A
	b B
}

func (p gpair[A, B]) first() A { return p.a }

type getter[T any] interface{ get() T }

func id[T any](x T) T { return x }

func unusedInstantiation() { _ = id[byte](1) }

func localInGeneric[T any](x T) interface{} {
	type loc struct{ v T }
	return loc{x}
}

// 5. local types with methods
func localType() interface{ name() string } {
	type l struct{}
	return lt{}
}

type lt struct{}

func (lt) name() string { return "lt" }

// 6. only via type assertion / type switch / map key / comparison
type onlyAssert struct{ a Int }
type onlySwitch struct{ a Int }
type onlyKey struct{ a Int }
type onlyCmp struct{ a Int }

func mkAssert() interface{} { return onlyAssert{1} }
func mkSwitch() interface{} { return onlySwitch{2} }

// 7. package variable initialisers and init
var order string

func reg(s string) Int { order += s + ";"; return Int(len(order)) }

var fromInit = reg("var-fromInit")
var unusedButCalled = reg("var-unused")
var _ = reg("var-blank")
var levels = map[string]Int{"info": 1}
var _, haveTrace = levels["trace"]
var infoLevel, haveInfo = levels["info"]
var unusedConv = Int(reg("var-conv"))
var a1, a2 = reg("var-a1"), reg("var-a2")
var ch = make(chan Int, 1)
var unusedLen = len(order)

func init() { order += "init1;" }
func init() { order += "init2;"; ch <- 1 }

// 8. linkname targets (only referenced by the directive)
//go:linkname linkedFunc MOD/lib.hiddenFunc
func linkedFunc(x Int) Int

//go:linkname linkedMethod MOD/lib.Holder.hiddenMethod
func linkedMethod(h lib.Holder, x Int) Int

//go:linkname linkedPtrMethod MOD/lib.(*Holder).hiddenPtrMethod
func linkedPtrMethod(h *lib.Holder, x Int) Int

func main() {
	shapes := []shape{sq{3}, &rc{2, 5}}
	t := Int(0)
	for _, s := range shapes {
		t += s.area()
	}
	o("iface-call", itoa(int64(t)))

	m := mv{10}
	f1 := m.viaValue
	f2 := (&m).viaPtrValue
	f3 := mv.viaExpr
	f4 := (*mv).viaPtrExpr
	f5 := exprIface.viaIfaceExpr
	o("method-values", itoa(int64(f1()+f2()+f3(m)+f4(&m)+f5(m))))
	o("iface-method-expr", itoa(int64(total(exprIface2.unexportedViaExpr, []exprIface2{mv{1}, mv{2}}))))

	ov := outerV{mid{inner{2}}}
	op := outerP{&mid{inner{3}}}
	var pi promIface = &ov
	var pj promIface = op
	o("promotion", itoa(int64(ov.promotedVal()+pi.promotedPtr()+pj.promotedVal()+pj.promotedPtr())))
	wi := withIface{sq{4}}
	var sh shape = wi
	o("promotion-iface", itoa(int64(sh.area())))

	o("generic-chain", viaGeneric("g")+itoa(int64(viaGeneric(Int(7)))))
	gb := gbox[string]{"b"}
	var gg getter[string] = gb
	gb2 := &gbox[Int]{1}
	gb2.set(9)
	o("generic-methods", gg.get()+itoa(int64(gb2.get()))+gb.pair().first()+itoa(int64(gbox[int8]{3}.pair().first())))
	o("byte-vs-uint8", itoa(int64(id[uint8](2))))
	l1, l2 := localInGeneric(Int(1)), localInGeneric("s")
	_, same := l1.(interface{})
	o("local-in-generic", btoa(l1 == localInGeneric(Int(1)))+btoa(l1 == l2)+btoa(same))
	o("local-type", localType().name())

	_, ok := mkAssert().(onlyAssert)
	sw := "none"
	switch mkSwitch().(type) {
	case onlySwitch:
		sw = "onlySwitch"
	}
	mk := map[interface{}]Int{onlyKey{1}: 5}
	var c1, c2 interface{} = onlyCmp{1}, onlyCmp{1}
	o("type-uses", btoa(ok)+sw+itoa(int64(mk[onlyKey{1}]))+btoa(c1 == c2))

	o("init-order", order+btoa(haveTrace)+btoa(haveInfo)+itoa(int64(infoLevel+fromInit+<-ch)))

	o("lib", lib.Run())
	h := lib.Holder{K: 3}
	o("linkname", itoa(int64(linkedFunc(1)+linkedMethod(h, 2)+linkedPtrMethod(&h, 3))))
}
`

const libSrc = `package lib

import "MOD/lib/deep"

type Int = deep.Int

type Holder struct{ K Int }

func hiddenFunc(x Int) Int                   { return x + 100 }
func (h Holder) hiddenMethod(x Int) Int      { return x + h.K + 200 }
func (h *Holder) hiddenPtrMethod(x Int) Int  { return x + h.K + 300 }

type Sealed interface{ seal() string }
type impl struct{}

func (impl) seal() string { return "sealed" }
func New() Sealed        { return impl{} }

type exported struct{}

func (exported) Visible() string  { return "v" }
func (*exported) PtrOnly() string { return "p" }

var libOrder = deep.Reg("lib-var")
var unused = deep.Reg("lib-unused")

func init() { deep.Reg("lib-init") }

func Run() string {
	var s Sealed = New()
	var e interface{} = &exported{}
	r := s.seal()
	if v, ok := e.(interface{ Visible() string }); ok {
		r += v.Visible()
	}
	if v, ok := e.(interface{ PtrOnly() string }); ok {
		r += v.PtrOnly()
	}
	return r + deep.Order() + deep.Use(deep.Pair[Int, string]{A: 1, B: "x"})
}
`

const deepSrc = `package deep

var order string

func Reg(s string) Int { order += s + ";"; return Int(len(order)) }
func Order() string    { return order }

type Pair[A, B any] struct {
	A A
	B B
}

func (p Pair[A, B]) swap() Pair[B, A] { return Pair[B, A]{p.B, p.A} }
func (p Pair[A, B]) str() string      { return "pair" }

func Use[A, B any](p Pair[A, B]) string { return p.swap().swap().str() }
`

// Program returns the reachability-path program.
func Program() diffrun.Program {
	name := "c05_paths"
	mod := diffrun.ModName(name)
	r := func(s string) string { return strings.ReplaceAll(s, "MOD", mod) }
	return diffrun.Program{Name: name, Files: map[string]string{
		"main.go":             r(mainSrc),
		"stub.s":              "// empty: lets the native toolchain accept body-less functions\n",
		"lib/lib.go":          r(libSrc),
		"lib/deep/deep.go":    deepSrc,
		"lib/deep/int_js.go":  "//go:build js\n\npackage deep\n\ntype Int = int\n",
		"lib/deep/int_ref.go": "//go:build !js\n\npackage deep\n\ntype Int = int32\n",
	}}
}

// PanicInitProgram: an unused package variable whose initialiser panics without containing a call.
func PanicInitProgram() diffrun.Program {
	src := `package main

var arr = []Int{1, 2}
var idx = 5
var unusedIndex = arr[idx]

func main() { println("C05/panicinit reached-main") }
`
	return diffrun.Program{Name: "c05_panicinit", Files: map[string]string{"main.go": src}}
}

// MorePanicInit returns further initialiser kinds that must not be dropped.
func MorePanicInit() []diffrun.Program {
	mk := func(name, decls string) diffrun.Program {
		return diffrun.Program{Name: "c05_init_" + name, Files: map[string]string{"main.go": "package main\n\n" + decls + "\nfunc main() { println(\"C05/init/" + name + " reached-main\") }\n"}}
	}
	return []diffrun.Program{
		mk("deref", "var p *Int\nvar unused = *p\n"),
		mk("div", "var z Int\nvar unused = 1 / z\n"),
		mk("assert", "var i interface{} = \"s\"\nvar unused = i.(Int)\n"),
		mk("conv", "var s = []Int{1}\nvar unused = [2]Int(s)\n"),
		mk("mapnil", "var m map[string][]Int\nvar unused = m[\"k\"][0]\n"),
		mk("recv", "var c = make(chan Int, 1)\nvar unused = func() Int { c <- 1; return 0 }()\nvar unused2 = <-c\nvar blocked = <-c\n"),
	}
}

// InitFormsProgram: package-level variables that nothing refers to, initialised by every expression
// form whose evaluation can be observed (calls in every operand position, builtins that write through
// their arguments, receives, comma-ok forms, method values, generic calls ...), in main and in an
// imported package. Go evaluates all of them; eliminating the variable must not eliminate the effect.
func InitFormsProgram() diffrun.Program {
	forms := []string{
		`append(shared[:1], 7)`,
		`copy(arr[:], []Int{5, 6})`,
		`len(append(shared[:2], 8))`,
		`cap(append(shared[:3], 9))`,
		`func() Int { arr[3] = 9; return 1 }()`,
		`*plog()`,
		`arr[idxf()]`,
		`T{f: lg("comp")}`,
		`&T{lg("ptrcomp")}`,
		`[]Int{lg("slicelit")}`,
		`map[string]Int{"k": lg("maplit")}`,
		`lg("bin") + 1`,
		`-lg("neg")`,
		`Int(lg("conv"))`,
		`MyInt(lg("namedconv"))`,
		`[1]Int{lg("arrlit")}[0]`,
		`shared[idxf():]`,
		`<-filled("recv")`,
		`ifv.M()`,
		`T.m(tv)`,
		`tv.m`,
		`gen[Int](lg("generic"))`,
		`func() func() Int { lg("closure"); return nil }()`,
		`"a" + slog("concat")`,
		`complex(float64(lg("complex")), 0)`,
		`struct{ a Int }{lg("anon")}.a`,
		`append([]Int(nil), lg("appendarg"))`,
		`[...]Int{lg("a0"), lg("a1")}`,
		`&arr[idxf()]`,
		`ptrT().f`,
		`fnvar(lg("fnvar"))`,
		`(*T).pm(ptrT())`,
		`interface{}(lg("boxed"))`,
		`[]byte(slog("tobytes"))`,
		`string(rune(lg("torune")))`,
		`lg("cmp") == 3`,
		`!blog("not")`,
		`blog("and") && blog("and2")`,
		`mp[slog("mapidx")]`,
		`len(slog("len"))`,
		`new(T) == ptrT()`,
		`append(sharedB, 7)`,
		`append(sharedC, 5, 6)`,
		`append(sharedD, sharedSrc...)`,
		`copy(dstS, sharedSrc)`,
		`copy(dstB, "xy")`,
	}
	multi := []string{
		`var NAMEa, NAMEb = two("PKG-two")`,
		`var NAMEv, NAMEok = mp[slog("PKG-commaok-map")]`,
		`var NAMEv, NAMEok = ifacef("PKG-commaok-assert").(Int)`,
		`var NAMEv, NAMEok = <-filled("PKG-commaok-recv")`,
		`var _, NAMEok = mp[slog("PKG-blank-first")]`,
		`var NAMEv, _ = two("PKG-blank-second")`,
		`var _, _ = two("PKG-both-blank")`,
		`var NAMEx, NAMEy Int = lg("PKG-multi1"), lg("PKG-multi2")`,
		`var _ = append(shared[:4], 3)`,
		`var _ = copy(arr[2:], []Int{4})`,
		`var _ = PKGdep + lg("PKG-uses-unused")`,
		`var PKGdep = lg("PKG-dep")`,
	}
	helpers := `
var log string

type T struct{ f Int }
type MyInt Int

func (t T) m() Int   { log += "T.m;"; return t.f }
func (t *T) pm() Int { log += "T.pm;"; return 1 }
func (t T) M() Int   { log += "T.M;"; return 2 }

var (
	shared = make([]Int, 1, 8)
	sharedB   = make([]Int, 1, 4)
	sharedC   = make([]Int, 0, 4)
	sharedD   = make([]Int, 2, 8)
	sharedSrc = []Int{41, 42}
	dstS      = make([]Int, 3)
	dstB      = make([]byte, 3)
	arr    [4]Int
	mp     = map[string]Int{}
	tv     = T{1}
	ifv    interface{ M() Int } = T{2}
	fnvar  = func(x Int) Int { log += "fnvar-called;"; return x }
)

func lg(s string) Int      { log += s + ";"; return Int(len(log)) }
func slog(s string) string { log += s + ";"; return s }
func blog(s string) bool   { log += s + ";"; return true }
func plog() *Int           { log += "plog;"; return &arr[0] }
func idxf() Int            { log += "idxf;"; return 1 }
func ptrT() *T             { log += "ptrT;"; return &tv }
func two(s string) (Int, Int) { log += s + ";"; return 1, 2 }
func ifacef(s string) interface{} { log += s + ";"; return Int(1) }
func filled(s string) chan Int { log += s + ";"; c := make(chan Int, 1); c <- 1; return c }
func gen[X any](x X) X { log += "gen;"; return x }

func State() string {
	s := log + "|"
	for _, v := range arr {
		s += itoa(int64(v)) + ","
	}
	s += "|"
	for _, v := range shared[:cap(shared)] {
		s += itoa(int64(v)) + ","
	}
	s += "|"
	for _, sl := range [][]Int{sharedB[:cap(sharedB)], sharedC[:cap(sharedC)], sharedD[:cap(sharedD)], dstS} {
		for _, v := range sl {
			s += itoa(int64(v)) + ","
		}
		s += "/"
	}
	return s + "|" + itoa(int64(len(mp))) + string(dstB[:2])
}
`
	var mainB, libB strings.Builder
	build := func(b *strings.Builder, pkg string) {
		for i, f := range forms {
			fmt.Fprintf(b, "var %su%d = %s\n", pkg, i, f)
		}
		for i, m := range multi {
			b.WriteString(strings.ReplaceAll(strings.ReplaceAll(m, "NAME", fmt.Sprintf("%sm%d", pkg, i)), "PKG", pkg) + "\n")
		}
	}
	mainB.WriteString("package main\n\nimport \"MOD/lib\"\n" + helpers + "\n")
	build(&mainB, "main")
	mainB.WriteString("\nfunc main() {\n\tprintln(\"C05/initforms/main\", State())\n\tprintln(\"C05/initforms/lib\", lib.State())\n}\n")
	libB.WriteString("package lib\n" + helpers + "\n")
	build(&libB, "lib")
	libB.WriteString("\nfunc itoa(n int64) string {\n\tif n == 0 {\n\t\treturn \"0\"\n\t}\n\tneg := n < 0\n\tif neg {\n\t\tn = -n\n\t}\n\ts := \"\"\n\tfor n > 0 {\n\t\ts = string(rune('0'+n%10)) + s\n\t\tn /= 10\n\t}\n\tif neg {\n\t\ts = \"-\" + s\n\t}\n\treturn s\n}\n")
	name := "c05_initforms"
	mod := diffrun.ModName(name)
	r := func(s string) string { return strings.ReplaceAll(s, "MOD", mod) }
	return diffrun.Program{Name: name, Files: map[string]string{
		"main.go":        r(mainB.String()),
		"lib/lib.go":     libB.String(),
		"lib/int_js.go":  "//go:build js\n\npackage lib\n\ntype Int = int\n",
		"lib/int_ref.go": "//go:build !js\n\npackage lib\n\ntype Int = int32\n",
	}}
}

// MarkerProgram: (a) interfaces whose only method is an unexported marker that nothing ever calls: the
// implementing values must still satisfy them in assertions, comma-ok assertions and type switches (here and in
// another package); (b) types declared inside function literals of generic functions and methods.
func MarkerProgram() diffrun.Program {
	name := "c05_markers"
	mod := diffrun.ModName(name)
	r := func(s string) string { return strings.ReplaceAll(s, "MOD", mod) }
	return diffrun.Program{Name: name, Files: map[string]string{
		"main.go": r(`package main

import "MOD/ast"

type expr interface{ isExpr() }
type stmt interface {
	isStmt()
	expr
}

type lit struct{ v Int }
type add struct{ l, r expr }
type text string
type both struct{}

func (lit) isExpr()   {}
func (*add) isExpr()  {}
func (both) isExpr()  {}
func (both) isStmt()  {}
func (t text) other() {}

func classify(x interface{}) string {
	s := ""
	if _, ok := x.(expr); ok {
		s += "E"
	}
	if _, ok := x.(stmt); ok {
		s += "S"
	}
	switch x.(type) {
	case stmt:
		s += "/stmt"
	case expr:
		s += "/expr"
	default:
		s += "/other"
	}
	return s
}

func must(x interface{}) (res string) {
	defer func() {
		if recover() != nil {
			res = "panic"
		}
	}()
	_ = x.(expr)
	return "ok"
}

// a type that does not mention the type parameter, declared and used inside a function literal of a generic function
func Visit[T any](xs []T, f func(T) Int) Int {
	total := Int(0)
	walk := func() {
		type step struct {
			n, weight Int
		}
		var cur step
		for _, x := range xs {
			s := step{f(x), 10}
			cur.n = cur.n*s.weight + s.n
		}
		var boxed interface{} = cur
		if c, ok := boxed.(step); ok {
			total = c.n
		}
	}
	walk()
	return total
}

type Coll[T any] struct{ items []T }

func (c Coll[T]) Count(pred func(T) bool) Int {
	run := func() Int {
		type tally struct{ yes, no Int }
		var t tally
		for _, it := range c.items {
			if pred(it) {
				t.yes++
			} else {
				t.no++
			}
		}
		var boxed interface{} = t
		if tt, ok := boxed.(tally); ok {
			return tt.yes*10 + tt.no
		}
		return -1
	}
	return run()
}

func main() {
	vals := []interface{}{lit{1}, &add{lit{1}, lit{2}}, add{}, text("t"), both{}, nil, 42}
	out := ""
	for _, v := range vals {
		out += classify(v) + ";"
	}
	println("C05/markers/local", out, must(lit{1}), must(text("x")), must(&add{}))
	println("C05/markers/otherpkg", ast.Classify(ast.NewNum(1)), ast.Classify(ast.NewNeg()), ast.Classify(3))
	println("C05/markers/local-types", itoa(int64(Visit([]Int{1, 2, 3}, func(x Int) Int { return x }))), itoa(int64(Visit([]string{"a", "bb"}, func(s string) Int { return Int(len(s)) }))), itoa(int64(Coll[Int]{[]Int{1, 2, 3}}.Count(func(x Int) bool { return x > 1 }))), itoa(int64(Coll[string]{[]string{"a"}}.Count(func(s string) bool { return s == "" }))))
}
`),
		"ast/ast.go": `package ast

// Node is sealed: the marker is never called anywhere
type Node interface{ node() }

type num struct{ v int }
type neg struct{ x Node }

func (num) node()  {}
func (*neg) node() {}

func NewNum(v int) interface{} { return num{v} }
func NewNeg() interface{}      { return &neg{num{1}} }

func Classify(x interface{}) string {
	switch x.(type) {
	case Node:
		return "node"
	}
	return "other"
}
`,
	}}
}

// LinkChainProgram: go:linkname references that become reachable only through other linknamed
// implementations (chains of 2 and 3 hops across packages, none of the implementations referenced by name).
func LinkChainProgram() diffrun.Program {
	name := "c05_linkchain"
	mod := diffrun.ModName(name)
	r := func(s string) string { return strings.ReplaceAll(s, "MOD", mod) }
	return diffrun.Program{Name: name, Files: map[string]string{
		"main.go": r(`package main

import (
	_ "unsafe"

	_ "MOD/engine"
	_ "MOD/lowlevel"
	_ "MOD/deepest"
)

//go:linkname banner MOD/engine.banner
func banner(s string) string

//go:linkname viaMethod MOD/engine.(*eng).render
func viaMethod(e *struct{ n Int }, s string) string

func main() {
	println("C05/linkchain/func", banner("x"))
	println("C05/linkchain/method", viaMethod(&struct{ n Int }{2}, "y"))
}
`),
		"stub.s": "// empty\n",
		"engine/engine.go": r(`package engine

import (
	_ "unsafe"

	_ "MOD/lowlevel"
)

type eng struct{ n Int }

//go:linkname repeat MOD/lowlevel.repeat
func repeat(s string, n Int) string

// only reachable through main's linkname
func banner(s string) string { return "[" + repeat(s, 3) + "]" }

func (e *eng) render(s string) string { return "<" + repeat(s, e.n) + ">" }
`),
		"engine/stub.s":     "// empty\n",
		"engine/int_js.go":  "//go:build js\n\npackage engine\n\ntype Int = int\n",
		"engine/int_ref.go": "//go:build !js\n\npackage engine\n\ntype Int = int32\n",
		"lowlevel/lowlevel.go": r(`package lowlevel

import (
	_ "unsafe"

	_ "MOD/deepest"
)

//go:linkname pad MOD/deepest.pad
func pad(s string) string

// only reachable through engine's linkname
func repeat(s string, n Int) string {
	r := ""
	for i := Int(0); i < n; i++ {
		r += pad(s)
	}
	return r
}
`),
		"lowlevel/stub.s":     "// empty\n",
		"lowlevel/int_js.go":  "//go:build js\n\npackage lowlevel\n\ntype Int = int\n",
		"lowlevel/int_ref.go": "//go:build !js\n\npackage lowlevel\n\ntype Int = int32\n",
		"deepest/deepest.go": `package deepest

// only reachable through lowlevel's linkname
func pad(s string) string { return s + helper() }

func helper() string { return "." }
`,
	}}
}
