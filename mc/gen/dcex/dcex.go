// Package dcex holds the C05 reachability-path family: every function, method,
// type, instance, variable initialiser or linkname target below is needed at
// run time but reachable ONLY through the path its probe names.
package dcex

import (
	"strings"

	"verif/mc/diffrun"
)

const mainSrc = `package main

import (
	"MOD/lib"
	_ "unsafe"
)

func o(id, s string) { println("C05/path/"+id, s) }

// 1. only through an interface call
type shape interface{ area() Int }
type sq struct{ s Int }
type rc struct{ w, h Int }

func (s sq) area() Int  { return s.s * s.s }
func (r *rc) area() Int { return r.w * r.h }

// 2. only through a method value / method expression
type mv struct{ k Int }

func (m mv) viaValue() Int         { return m.k + 1 }
func (m *mv) viaPtrValue() Int     { return m.k + 2 }
func (m mv) viaExpr() Int          { return m.k + 3 }
func (m *mv) viaPtrExpr() Int      { return m.k + 4 }
func (m mv) viaIfaceExpr() Int     { return m.k + 5 }
func (m mv) unexportedViaExpr() Int { return m.k + 6 }

type exprIface interface{ viaIfaceExpr() Int }
type exprIface2 interface{ unexportedViaExpr() Int }

func total(f func(exprIface2) Int, xs []exprIface2) Int {
	t := Int(0)
	for _, x := range xs {
		t += f(x)
	}
	return t
}

// 3. only through promotion
type inner struct{ v Int }

func (i inner) promotedVal() Int  { return i.v * 2 }
func (i *inner) promotedPtr() Int { return i.v * 3 }

type mid struct{ inner }
type outerV struct{ mid }
type outerP struct{ *mid }
type withIface struct{ shape }

type promIface interface {
	promotedVal() Int
	promotedPtr() Int
}

// 4. generics
func viaGeneric[T any](x T) T    { return helperGeneric(x) }
func helperGeneric[T any](x T) T { return x }

type gbox[T any] struct{ v T }

func (g gbox[T]) get() T            { return g.v }
func (g *gbox[T]) set(v T)          { g.v = v }
func (g gbox[T]) pair() gpair[T, T] { return gpair[T, T]{g.v, g.v} }

type gpair[A, B any] struct {
	a A
	b B
}

func (p gpair[A, B]) first() A { return p.a }

type getter[T any] interface{ get() T }

func id[T any](x T) T { return x }

func unusedInstantiation() { _ = id[byte](1) }

func localInGeneric[T any](x T) interface{} {
	type loc struct{ v T }
	return loc{x}
}

// 5. local types with methods
func localType() interface{ name() string } {
	type l struct{}
	return lt{}
}

type lt struct{}

func (lt) name() string { return "lt" }

// 6. only via type assertion / type switch / map key / comparison
type onlyAssert struct{ a Int }
type onlySwitch struct{ a Int }
type onlyKey struct{ a Int }
type onlyCmp struct{ a Int }

func mkAssert() interface{} { return onlyAssert{1} }
func mkSwitch() interface{} { return onlySwitch{2} }

// 7. package variable initialisers and init
var order string

func reg(s string) Int { order += s + ";"; return Int(len(order)) }

var fromInit = reg("var-fromInit")
var unusedButCalled = reg("var-unused")
var _ = reg("var-blank")
var levels = map[string]Int{"info": 1}
var _, haveTrace = levels["trace"]
var infoLevel, haveInfo = levels["info"]
var unusedConv = Int(reg("var-conv"))
var a1, a2 = reg("var-a1"), reg("var-a2")
var ch = make(chan Int, 1)
var unusedLen = len(order)

func init() { order += "init1;" }
func init() { order += "init2;"; ch <- 1 }

// 8. linkname targets (only referenced by the directive)
//go:linkname linkedFunc MOD/lib.hiddenFunc
func linkedFunc(x Int) Int

//go:linkname linkedMethod MOD/lib.Holder.hiddenMethod
func linkedMethod(h lib.Holder, x Int) Int

//go:linkname linkedPtrMethod MOD/lib.(*Holder).hiddenPtrMethod
func linkedPtrMethod(h *lib.Holder, x Int) Int

func main() {
	shapes := []shape{sq{3}, &rc{2, 5}}
	t := Int(0)
	for _, s := range shapes {
		t += s.area()
	}
	o("iface-call", itoa(int64(t)))

	m := mv{10}
	f1 := m.viaValue
	f2 := (&m).viaPtrValue
	f3 := mv.viaExpr
	f4 := (*mv).viaPtrExpr
	f5 := exprIface.viaIfaceExpr
	o("method-values", itoa(int64(f1()+f2()+f3(m)+f4(&m)+f5(m))))
	o("iface-method-expr", itoa(int64(total(exprIface2.unexportedViaExpr, []exprIface2{mv{1}, mv{2}}))))

	ov := outerV{mid{inner{2}}}
	op := outerP{&mid{inner{3}}}
	var pi promIface = &ov
	var pj promIface = op
	o("promotion", itoa(int64(ov.promotedVal()+pi.promotedPtr()+pj.promotedVal()+pj.promotedPtr())))
	wi := withIface{sq{4}}
	var sh shape = wi
	o("promotion-iface", itoa(int64(sh.area())))

	o("generic-chain", viaGeneric("g")+itoa(int64(viaGeneric(Int(7)))))
	gb := gbox[string]{"b"}
	var gg getter[string] = gb
	gb2 := &gbox[Int]{1}
	gb2.set(9)
	o("generic-methods", gg.get()+itoa(int64(gb2.get()))+gb.pair().first()+itoa(int64(gbox[int8]{3}.pair().first())))
	o("byte-vs-uint8", itoa(int64(id[uint8](2))))
	l1, l2 := localInGeneric(Int(1)), localInGeneric("s")
	_, same := l1.(interface{})
	o("local-in-generic", btoa(l1 == localInGeneric(Int(1)))+btoa(l1 == l2)+btoa(same))
	o("local-type", localType().name())

	_, ok := mkAssert().(onlyAssert)
	sw := "none"
	switch mkSwitch().(type) {
	case onlySwitch:
		sw = "onlySwitch"
	}
	mk := map[interface{}]Int{onlyKey{1}: 5}
	var c1, c2 interface{} = onlyCmp{1}, onlyCmp{1}
	o("type-uses", btoa(ok)+sw+itoa(int64(mk[onlyKey{1}]))+btoa(c1 == c2))

	o("init-order", order+btoa(haveTrace)+btoa(haveInfo)+itoa(int64(infoLevel+fromInit+<-ch)))

	o("lib", lib.Run())
	h := lib.Holder{K: 3}
	o("linkname", itoa(int64(linkedFunc(1)+linkedMethod(h, 2)+linkedPtrMethod(&h, 3))))
}
`

const libSrc = `package lib

import "MOD/lib/deep"

type Int = deep.Int

type Holder struct{ K Int }

func hiddenFunc(x Int) Int                   { return x + 100 }
func (h Holder) hiddenMethod(x Int) Int      { return x + h.K + 200 }
func (h *Holder) hiddenPtrMethod(x Int) Int  { return x + h.K + 300 }

type Sealed interface{ seal() string }
type impl struct{}

func (impl) seal() string { return "sealed" }
func New() Sealed        { return impl{} }

type exported struct{}

func (exported) Visible() string  { return "v" }
func (*exported) PtrOnly() string { return "p" }

var libOrder = deep.Reg("lib-var")
var unused = deep.Reg("lib-unused")

func init() { deep.Reg("lib-init") }

func Run() string {
	var s Sealed = New()
	var e interface{} = &exported{}
	r := s.seal()
	if v, ok := e.(interface{ Visible() string }); ok {
		r += v.Visible()
	}
	if v, ok := e.(interface{ PtrOnly() string }); ok {
		r += v.PtrOnly()
	}
	return r + deep.Order() + deep.Use(deep.Pair[Int, string]{A: 1, B: "x"})
}
`

const deepSrc = `package deep

var order string

func Reg(s string) Int { order += s + ";"; return Int(len(order)) }
func Order() string    { return order }

type Pair[A, B any] struct {
	A A
	B B
}

func (p Pair[A, B]) swap() Pair[B, A] { return Pair[B, A]{p.B, p.A} }
func (p Pair[A, B]) str() string      { return "pair" }

func Use[A, B any](p Pair[A, B]) string { return p.swap().swap().str() }
`

// Program returns the reachability-path program.
func Program() diffrun.Program {
	name := "c05_paths"
	mod := diffrun.ModName(name)
	r := func(s string) string { return strings.ReplaceAll(s, "MOD", mod) }
	return diffrun.Program{Name: name, Files: map[string]string{
		"main.go":              r(mainSrc),
		"stub.s":               "// empty: lets the native toolchain accept body-less functions\n",
		"lib/lib.go":           r(libSrc),
		"lib/deep/deep.go":     deepSrc,
		"lib/deep/int_js.go":   "//go:build js\n\npackage deep\n\ntype Int = int\n",
		"lib/deep/int_ref.go":  "//go:build !js\n\npackage deep\n\ntype Int = int32\n",
	}}
}

// PanicInitProgram: an unused package variable whose initialiser panics without containing a call.
func PanicInitProgram() diffrun.Program {
	src := `package main

var arr = []Int{1, 2}
var idx = 5
var unusedIndex = arr[idx]

func main() { println("C05/panicinit reached-main") }
`
	return diffrun.Program{Name: "c05_panicinit", Files: map[string]string{"main.go": src}}
}

// MorePanicInit returns further initialiser kinds that must not be dropped.
func MorePanicInit() []diffrun.Program {
	mk := func(name, decls string) diffrun.Program {
		return diffrun.Program{Name: "c05_init_" + name, Files: map[string]string{"main.go": "package main\n\n" + decls + "\nfunc main() { println(\"C05/init/" + name + " reached-main\") }\n"}}
	}
	return []diffrun.Program{
		mk("deref", "var p *Int\nvar unused = *p\n"),
		mk("div", "var z Int\nvar unused = 1 / z\n"),
		mk("assert", "var i interface{} = \"s\"\nvar unused = i.(Int)\n"),
		mk("conv", "var s = []Int{1}\nvar unused = [2]Int(s)\n"),
		mk("mapnil", "var m map[string][]Int\nvar unused = m[\"k\"][0]\n"),
		mk("recv", "var c = make(chan Int, 1)\nvar unused = func() Int { c <- 1; return 0 }()\nvar unused2 = <-c\nvar blocked = <-c\n"),
	}
}
