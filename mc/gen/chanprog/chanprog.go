// Package chanprog holds the C03 interpreter program: one Go program, compiled
// by the working-tree GopherJS, that reads a scenario from the harness and
// executes each operation with the real statement forms.
package chanprog

import "verif/mc/diffrun"

const mainSrc = `package main

import (
	"runtime"

	"github.com/gopherjs/gopherjs/js"
)

// op kinds
const (
	opSend = iota
	opRecv
	opRecv2
	opClose
	opSelect
	opRange
	opLen
	opGosched
	opGoexit
	opNumG
	opSpawn
	opGoexitD
)

type selCase struct {
	send bool
	c    int
	v    int
}

type op struct {
	k     int
	c     int
	v     int
	cases []selCase
	def   bool
}

var chans []chan int
var progs [][]op
var norecover bool

func logf(g int, s string) { js.Global.Call("verifLog", g, s) }

func itoa(n int) string {
	if n == 0 {
		return "0"
	}
	neg := n < 0
	if neg {
		n = -n
	}
	s := ""
	for n > 0 {
		s = string(rune('0'+n%10)) + s
		n /= 10
	}
	if neg {
		s = "-" + s
	}
	return s
}

func btoa(b bool) string {
	if b {
		return "t"
	}
	return "f"
}

func errText(r interface{}) string {
	if e, ok := r.(error); ok {
		return e.Error()
	}
	if s, ok := r.(string); ok {
		return s
	}
	return "?"
}

func doSelect(g int, o op) {
	var rc [3]chan int
	var sc [3]chan int
	var sv [3]int
	for i, cs := range o.cases {
		if cs.send {
			sc[i] = chans[cs.c]
			sv[i] = cs.v
		} else {
			rc[i] = chans[cs.c]
		}
	}
	if o.def {
		select {
		case v, ok := <-rc[0]:
			logf(g, "sel0:"+itoa(v)+","+btoa(ok))
		case v, ok := <-rc[1]:
			logf(g, "sel1:"+itoa(v)+","+btoa(ok))
		case v, ok := <-rc[2]:
			logf(g, "sel2:"+itoa(v)+","+btoa(ok))
		case sc[0] <- sv[0]:
			logf(g, "sel0:s")
		case sc[1] <- sv[1]:
			logf(g, "sel1:s")
		case sc[2] <- sv[2]:
			logf(g, "sel2:s")
		default:
			logf(g, "seld")
		}
		return
	}
	select {
	case v, ok := <-rc[0]:
		logf(g, "sel0:"+itoa(v)+","+btoa(ok))
	case v, ok := <-rc[1]:
		logf(g, "sel1:"+itoa(v)+","+btoa(ok))
	case v, ok := <-rc[2]:
		logf(g, "sel2:"+itoa(v)+","+btoa(ok))
	case sc[0] <- sv[0]:
		logf(g, "sel0:s")
	case sc[1] <- sv[1]:
		logf(g, "sel1:s")
	case sc[2] <- sv[2]:
		logf(g, "sel2:s")
	}
}

func run(g int) {
	if !norecover {
		defer func() {
			if r := recover(); r != nil {
				logf(g, "panic:"+errText(r))
			}
		}()
	}
	for _, o := range progs[g] {
		switch o.k {
		case opSend:
			chans[o.c] <- o.v
			logf(g, "s")
		case opRecv:
			v := <-chans[o.c]
			logf(g, "r"+itoa(v))
		case opRecv2:
			v, ok := <-chans[o.c]
			logf(g, "r"+itoa(v)+","+btoa(ok))
		case opClose:
			close(chans[o.c])
			logf(g, "c")
		case opSelect:
			doSelect(g, o)
		case opRange:
			for v := range chans[o.c] {
				logf(g, "g"+itoa(v))
			}
			logf(g, "ge")
		case opLen:
			logf(g, "l"+itoa(len(chans[o.c]))+","+itoa(cap(chans[o.c])))
		case opGosched:
			runtime.Gosched()
			logf(g, "y")
		case opGoexit:
			logf(g, "x")
			runtime.Goexit()
		case opNumG:
			logf(g, "n"+itoa(runtime.NumGoroutine()))
		case opSpawn:
			go body(o.v)
			logf(g, "go")
		case opGoexitD:
			logf(g, "x")
			goexitDeferred(g, o.c)
		}
	}
}

func goexitDeferred(g, c int) {
	defer func() {
		v, ok := <-chans[c]
		logf(g, "dr"+itoa(v)+","+btoa(ok))
	}()
	runtime.Goexit()
}

func body(g int) {
	run(g)
	js.Global.Call("verifGDone", g)
}

func main() {
	sc := js.Global.Get("verifScenario")
	cs := sc.Get("chans")
	for i := 0; i < cs.Length(); i++ {
		c := cs.Index(i).Int()
		if c < 0 {
			chans = append(chans, nil)
		} else {
			chans = append(chans, make(chan int, c))
		}
	}
	norecover = sc.Get("norecover").Bool()
	gs := sc.Get("gor")
	for i := 0; i < gs.Length(); i++ {
		var p []op
		ops := gs.Index(i)
		for j := 0; j < ops.Length(); j++ {
			o := ops.Index(j)
			x := op{k: o.Get("k").Int(), c: o.Get("c").Int(), v: o.Get("v").Int(), def: o.Get("def").Bool()}
			if cl := o.Get("cases"); cl != js.Undefined && cl != nil {
				for q := 0; q < cl.Length(); q++ {
					cc := cl.Index(q)
					x.cases = append(x.cases, selCase{send: cc.Get("send").Bool(), c: cc.Get("c").Int(), v: cc.Get("v").Int()})
				}
			}
			p = append(p, x)
		}
		progs = append(progs, p)
	}
	if sc.Get("expose").Bool() {
		// hand a Go function to JavaScript: disables the deadlock report
		js.Global.Set("verifExposed", func() {})
	}
	if !sc.Get("explicitSpawn").Bool() {
		for g := 1; g < len(progs); g++ {
			go body(g)
		}
	}
	run(0)
	js.Global.Call("verifDone")
}
`

// Program returns the interpreter program (GopherJS only; the reference is the model).
func Program() diffrun.Program {
	return diffrun.Program{Name: "c03_interp", NoHelpers: true, NoNative: true, Files: map[string]string{"main.go": mainSrc}}
}
