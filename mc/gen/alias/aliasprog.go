package alias

import "verif/mc/diffrun"

const aliasSrc = `package main

type P struct {
	a Int
	b [3]Int
	in struct{ c Int }
	s []Int
}

var pkgVar Int = 1
var pkgStruct P
var pkgArr [3]Int

func o(id, text string) { println("C07/alias/"+id, text) }

func is(xs ...Int) string {
	s := ""
	for i, x := range xs {
		if i > 0 {
			s += ","
		}
		s += itoa(int64(x))
	}
	return s
}

func sl2s(s []Int) string { return is(s...) + "/len" + itoa(int64(len(s))) }

func addrOfVar() {
	x := Int(1)
	p := &x
	q := &x
	*p = 2
	o("var/write-through", is(x, *q))
	x = 3
	o("var/read-through", is(*p))
	o("var/ptr-eq", btoa(p == q)+btoa(&x == p))
	y := Int(3)
	o("var/ptr-ne", btoa(p == &y))
	pp := &p
	**pp = 9
	o("var/ptrptr", is(x))
}

func addrOfField() {
	var s P
	p := &s.a
	*p = 5
	o("field/write", is(s.a))
	s.a = 6
	o("field/read", is(*p))
	o("field/eq", btoa(p == &s.a))
	pi := &s.in.c
	*pi = 7
	o("field/nested", is(s.in.c))
	ps := &s
	pf := &ps.a
	ps.a = 8
	o("field/via-ptr", is(*pf, s.a))
	t := s // copy: pointer into s must not follow t
	t.a = 100
	o("field/copy-indep", is(*p, t.a))
	pa := &s.b
	pa[1] = 4
	o("field/arrptr", is(s.b[1]))
	pe := &s.b[2]
	*pe = 5
	o("field/elemptr", is(s.b[2]))
	o("field/elemptr-eq", btoa(pe == &s.b[2])+btoa(pe == &pa[2])+btoa(pe == &s.b[1]))
}

func addrOfElem() {
	var a [3]Int
	p := &a[1]
	*p = 5
	o("arr/write", is(a[1]))
	a[1] = 6
	o("arr/read", is(*p))
	o("arr/eq", btoa(p == &a[1])+btoa(p == &a[0]))
	sl := []Int{1, 2, 3}
	q := &sl[1]
	*q = 7
	o("slice/write", is(sl[1]))
	sub := sl[1:]
	o("slice/eq-sub", btoa(q == &sub[0])+btoa(q == &sl[1])+btoa(q == &sub[1]))
	sub[0] = 8
	o("slice/sub-write", is(*q, sl[1]))
	var as [3]string
	ps := &as[2]
	*ps = "x"
	o("arr/string-elem", as[2])
	sa := a[:]
	sa[0] = 42
	o("arr/slice-of-array", is(a[0]))
	pa := &a
	sb := pa[1:]
	sb[0] = 43
	o("arr/slice-of-arrptr", is(a[1]))
	// element pointers of struct slices stay valid and aliased
	ss := []P{{a: 1}, {a: 2}}
	e := &ss[1]
	e.a = 20
	ss[1].b[0] = 21
	o("slice/struct-elem", is(ss[1].a, e.b[0]))
	ef := &ss[0].a
	*ef = 30
	o("slice/struct-elem-field", is(ss[0].a))
}

func addrOfPkg() {
	p := &pkgVar
	*p = 2
	o("pkg/write", is(pkgVar))
	pkgVar = 3
	o("pkg/read", is(*p))
	o("pkg/eq", btoa(p == &pkgVar))
	q := &pkgStruct.b[1]
	*q = 4
	o("pkg/struct-elem", is(pkgStruct.b[1]))
	r := &pkgArr
	r[2] = 5
	o("pkg/arr", is(pkgArr[2]))
	s := pkgArr[:]
	s[0] = 6
	o("pkg/arr-slice", is(pkgArr[0]))
}

func subslices() {
	base := []Int{0, 1, 2, 3, 4, 5}
	a := base[1:4]
	b := base[2:]
	a[1] = 20
	o("sub/share", is(base[2], b[0]))
	o("sub/lencap", is(Int(len(a)), Int(cap(a)), Int(len(b)), Int(cap(b))))
	c := base[1:3:4]
	o("sub/3idx-lencap", is(Int(len(c)), Int(cap(c))))
	c = append(c, 30) // within capacity: overwrites base[3]
	o("sub/3idx-append-in", is(base[3], base[4]))
	c = append(c, 40) // beyond capacity: reallocates, base[4] untouched
	o("sub/3idx-append-out", is(base[4])+"/"+sl2s(c))
	c[0] = 99
	o("sub/realloc-indep", is(base[1]))
	d := base[:2:2]
	e := append(d, 7)
	f := append(d, 8)
	o("sub/clipped-append", is(base[2], e[2], f[2]))
	g := base[:2]
	h := append(g, 9)
	o("sub/unclipped-append", is(base[2], h[2]))
	h2 := append(g, 10)
	o("sub/append-alias", is(h[2], h2[2]))
	z := base[3:3]
	z = append(z, 77)
	o("sub/empty-append", is(base[3]))
	var n []Int
	n = append(n, 1)
	o("sub/nil-append", sl2s(n))
	full := make([]Int, 2, 2)
	g1 := append(full, 1)
	g1[0] = 5
	o("sub/grow-indep", is(full[0]))
	rs := base[4:]
	rs2 := rs[:2]
	rs2[1] = 55
	o("sub/resub", is(base[5]))
	// slicing a string-typed and struct-typed slice
	ps := []P{{a: 1}, {a: 2}, {a: 3}}
	pt := ps[1:]
	pt[0].a = 22
	o("sub/struct-share", is(ps[1].a))
	pu := append(ps[:1], P{a: 9})
	o("sub/struct-append-in", is(ps[1].a, pu[1].a))
	grown := append(ps, P{a: 4})
	grown[0].a = 100
	o("sub/struct-grow-indep", is(ps[0].a))
	ps[2].b[1] = 8
	o("sub/struct-grow-old", is(grown[2].b[1]))
	// copy between overlapping regions
	ov := []Int{1, 2, 3, 4, 5}
	copy(ov[1:], ov)
	o("sub/copy-overlap-fwd", is(ov...))
	ov = []Int{1, 2, 3, 4, 5}
	copy(ov, ov[1:])
	o("sub/copy-overlap-back", is(ov...))
	strs := []string{"a", "b", "c", "d", "e"}
	copy(strs[1:], strs)
	o("sub/copy-overlap-fwd-string", strs[0]+strs[1]+strs[2]+strs[3]+strs[4])
	strs = []string{"a", "b", "c", "d", "e"}
	copy(strs, strs[2:])
	o("sub/copy-overlap-back-string", strs[0]+strs[1]+strs[2]+strs[3]+strs[4])
	i64s := []int64{1, 2, 3, 4, 5}
	copy(i64s[2:], i64s)
	o("sub/copy-overlap-fwd-int64", itoa(i64s[0])+itoa(i64s[1])+itoa(i64s[2])+itoa(i64s[3])+itoa(i64s[4]))
	n1, n2, n3 := &P{a: 1}, &P{a: 2}, &P{a: 3}
	ptrs := []*P{n1, n2, n3, nil}
	copy(ptrs[1:], ptrs)
	o("sub/copy-overlap-fwd-ptr", is(ptrs[0].a, ptrs[1].a, ptrs[2].a, ptrs[3].a))
	ifs := []interface{}{Int(1), "x", Int(3), nil}
	copy(ifs[1:], ifs[:3])
	o("sub/copy-overlap-fwd-iface", itoa(int64(ifs[0].(Int)))+itoa(int64(ifs[1].(Int)))+ifs[2].(string)+itoa(int64(ifs[3].(Int))))
	// the insert idiom: grow by one, shift the tail right, store
	ins := []string{"alice", "bob", "carol", "dave"}
	ins = append(ins, "")
	copy(ins[2:], ins[1:])
	ins[1] = "zed"
	o("sub/insert-idiom", ins[0]+","+ins[1]+","+ins[2]+","+ins[3]+","+ins[4])
	fl := []float64{1, 2, 3, 4}
	copy(fl[1:], fl)
	o("sub/copy-overlap-fwd-float", ftoa(fl[1])+ftoa(fl[2])+ftoa(fl[3]))
	sa := [][2]Int{{1, 1}, {2, 2}, {3, 3}}
	copy(sa[1:], sa)
	sa[0][0] = 9
	o("sub/copy-overlap-fwd-array-elem", is(sa[0][0], sa[1][0], sa[2][0]))
	os := []P{{a: 1}, {a: 2}, {a: 3}}
	copy(os[1:], os)
	o("sub/copy-overlap-struct", is(os[0].a, os[1].a, os[2].a))
}

func arrayPointers() {
	s := []Int{0, 1, 2, 3, 4}
	p := (*[2]Int)(s[2:])
	p[0] = 20
	o("arrptr/conv-write", is(s[2]))
	s[3] = 30
	o("arrptr/conv-read", is(p[1]))
	e := &p[1]
	*e = 31
	o("arrptr/elemptr", is(s[3], s[1]))
	o("arrptr/elemptr-eq", btoa(e == &s[3])+btoa(e == &s[1])+btoa(&p[0] == &s[2])+btoa(&p[0] == &s[0]))
	q := (*[2]Int)(s)
	*(&q[1]) = 11
	o("arrptr/second", is(s[1], s[3]))
	a := [3]Int{1, 2, 3}
	pa := &a
	pb := pa
	pb[0] = 9
	o("arrptr/share", is(a[0]))
	c := *pa
	c[1] = 8
	o("arrptr/deref-copy", is(a[1]))
	for i := range pa {
		pa[i] += 10
	}
	o("arrptr/range-idx", is(a[0], a[1], a[2]))
	fs := []float64{1, 2, 3, 4}
	pf := (*[2]float64)(fs[1:])
	*(&pf[1]) = 9
	o("arrptr/float", ftoa(fs[2])+ftoa(fs[1]))
	ss := []string{"a", "b", "c"}
	pss := (*[3]string)(ss) // GopherJS explicitly refuses the conversion for non-numeric SUBslices (fails loudly by design)
	*(&pss[0]) = "z"
	o("arrptr/string", ss[0]+ss[1]+ss[2])
}

func mapsAndChans() {
	m := map[string]*P{}
	v := &P{a: 1}
	m["k"] = v
	v.a = 2
	o("map/ptr-val", is(m["k"].a))
	m["k"].b[1] = 3
	o("map/ptr-val-write", is(v.b[1]))
	m2 := m
	m2["j"] = &P{a: 5}
	o("map/map-alias", is(Int(len(m)), m["j"].a))
	ms := map[string][]Int{"k": {1, 2}}
	s := ms["k"]
	s[0] = 10
	o("map/slice-val", is(ms["k"][0]))
	ms["k"][1] = 20
	o("map/slice-val-write", is(s[1]))
	mp := map[*Int]string{}
	x, y := new(Int), new(Int)
	mp[x] = "x"
	mp[y] = "y"
	o("map/ptr-key", mp[x]+mp[y]+itoa(int64(len(mp))))
	c := make(chan *P, 1)
	c <- v
	w := <-c
	w.a = 77
	o("chan/ptr", is(v.a)+btoa(w == v))
	cs := make(chan []Int, 1)
	orig := []Int{1}
	cs <- orig
	got := <-cs
	got[0] = 5
	o("chan/slice", is(orig[0]))
	cm := make(chan map[string]Int, 1)
	mm := map[string]Int{}
	cm <- mm
	(<-cm)["z"] = 1
	o("chan/map", is(mm["z"]))
	c2 := c
	c2 <- &P{a: 3}
	o("chan/chan-alias", is((<-c).a))
	fm := map[string]func() Int{}
	cnt := Int(0)
	fm["inc"] = func() Int { cnt++; return cnt }
	fm["inc"]()
	g := fm["inc"]
	g()
	o("map/func-val", is(cnt))
}

func closures() {
	x := Int(0)
	inc := func() { x++ }
	get := func() Int { return x }
	inc()
	x += 10
	inc()
	o("closure/shared", is(x, get()))
	var fs []func() Int
	for i := Int(0); i < 3; i++ {
		j := i
		fs = append(fs, func() Int { j += 10; return j })
	}
	o("closure/per-iter", is(fs[0](), fs[1](), fs[2](), fs[0]()))
	var gs []func() Int
	for i := Int(0); i < 3; i++ {
		gs = append(gs, func() Int { return i })
	}
	o("closure/loopvar-1.20", is(gs[0](), gs[1](), gs[2]()))
	s := P{a: 1}
	ms := func() { s.a++; s.b[0]++ }
	ms()
	t := s
	ms()
	o("closure/struct", is(s.a, s.b[0], t.a, t.b[0]))
	arr := [2]Int{1, 2}
	ma := func() { arr[0]++ }
	ma()
	brr := arr
	ma()
	o("closure/array", is(arr[0], brr[0]))
	p := &s
	mp := func() { p.a = 50 }
	mp()
	o("closure/ptr", is(s.a))
	mk := func() (func(), func() Int) {
		v := Int(0)
		return func() { v++ }, func() Int { return v }
	}
	i1, g1 := mk()
	i2, g2 := mk()
	i1()
	i1()
	i2()
	o("closure/instances", is(g1(), g2()))
	// parameter captured and modified
	pf := func(a Int) func() Int { return func() Int { a++; return a } }
	h := pf(5)
	h()
	o("closure/param", is(h()))
	// named result captured by defer
	nr := func() (r Int) {
		defer func() { r *= 2 }()
		r = 4
		return r + 1
	}
	o("closure/named-result", is(nr()))
}

func rangeWrites() {
	a := [3]Int{1, 2, 3}
	for i := range a {
		a[i] *= 2
	}
	o("range/index-write", is(a[0], a[1], a[2]))
	s := []Int{1, 2, 3}
	for i, v := range s {
		if i == 0 {
			s[1] = 20
			s = append(s, 9)
		}
		_ = v
	}
	sum := Int(0)
	t := []Int{1, 2, 3}
	for i, v := range t {
		if i == 0 {
			t[2] = 30
		}
		sum += v
	}
	o("range/slice-sees-writes", is(sum, Int(len(s))))
	sum = 0
	b := [3]Int{1, 2, 3}
	for i, v := range b {
		if i == 0 {
			b[2] = 30
		}
		sum += v
	}
	o("range/array-copy", is(sum))
	sum = 0
	pb := &b
	for i, v := range pb {
		if i == 0 {
			pb[1] = 50
		}
		sum += v
	}
	o("range/arrptr-sees-writes", is(sum))
	ps := []P{{a: 1}, {a: 2}}
	for i := range ps {
		ps[i].a *= 3
		p := &ps[i]
		p.b[0] = p.a
	}
	o("range/struct-index-write", is(ps[0].a, ps[1].a, ps[1].b[0]))
	n := 0
	for range s[:2] {
		n++
	}
	o("range/count", is(Int(n)))
}

type Node struct {
	val  Int
	next *Node
	kids []*Node
}

func linked() {
	a := &Node{val: 1}
	b := &Node{val: 2, next: a}
	a.next = b
	b.next.val = 10
	o("linked/cycle", is(a.val, a.next.next.val))
	root := &Node{}
	root.kids = append(root.kids, a, b)
	root.kids[0].val = 5
	o("linked/kids", is(a.val))
	cp := *a
	cp.val = 6
	cp.next.val = 7
	o("linked/shallow-copy", is(a.val, b.val))
}


// Aliases into a struct / array variable must keep following the variable when the whole
// variable is overwritten in place (by assignment, through a pointer, as a slice / array element,
// by copy, by a swap): the storage stays, only its contents change.
type Q struct {
	vals [3]Int
	tags [2]string
	fl   [2]float64
	by   [2]uint8
	in   struct{ row [2]Int }
	els  [2]struct{ a Int }
	grid [2][2]Int
	n    Int
}

func mkQ(k Int) Q {
	var q Q
	q.vals = [3]Int{k, k + 1, k + 2}
	q.tags = [2]string{"t" + itoa(int64(k)), "u"}
	q.fl = [2]float64{float64(k) + 0.5, 2}
	q.by = [2]uint8{uint8(k), 9}
	q.in.row = [2]Int{k * 10, k*10 + 1}
	q.els[1].a = k * 100
	q.grid[1] = [2]Int{k, -k}
	q.n = k
	return q
}

type aliases struct {
	view  []Int
	tview []string
	pArr  *[3]Int
	pElem *Int
	pTag  *string
	pFl   *float64
	pBy   *uint8
	pRow  *[2]Int
	pIn   *Int
	pEl   *Int
	pGrid *[2]Int
	pN    *Int
	bview []uint8
}

func take(q *Q) aliases {
	return aliases{q.vals[:], q.tags[:], &q.vals, &q.vals[2], &q.tags[0], &q.fl[0], &q.by[0], &q.in.row, &q.in.row[1], &q.els[1].a, &q.grid[1], &q.n, q.by[:]}
}

func (a aliases) read() string {
	return is(a.view...) + "|" + a.tview[0] + a.tview[1] + "|" + is(a.pArr[1], *a.pElem) + "|" + *a.pTag + "|" + ftoa(*a.pFl) + "|" + is(Int(*a.pBy), Int(a.bview[1])) + "|" + is(a.pRow[0], *a.pIn, *a.pEl, a.pGrid[1], *a.pN)
}

func (a aliases) write() {
	a.view[0] = -1
	a.tview[1] = "W"
	a.pArr[1] = -2
	*a.pElem = -3
	*a.pFl = -4.5
	*a.pBy = 200
	a.pRow[0] = -5
	*a.pIn = -6
	*a.pEl = -7
	a.pGrid[0] = -8
	*a.pN = -9
}

func showQ(q Q) string {
	return is(q.vals[:]...) + "|" + q.tags[0] + q.tags[1] + "|" + ftoa(q.fl[0]) + "|" + is(Int(q.by[0])) + "|" + is(q.in.row[0], q.in.row[1], q.els[1].a, q.grid[1][0], q.grid[1][1], q.n)
}

func retQ(k Int) Q { return mkQ(k) }

func overwriteInPlace() {
	{
		s := mkQ(1)
		al := take(&s)
		s = mkQ(2)
		o("overwrite/assign/read", al.read())
		al.write()
		o("overwrite/assign/write", showQ(s))
	}
	{
		s := mkQ(1)
		al := take(&s)
		ps := &s
		*ps = mkQ(3)
		o("overwrite/via-ptr/read", al.read())
		al.write()
		o("overwrite/via-ptr/write", showQ(s))
	}
	{
		list := []Q{mkQ(1), mkQ(2)}
		al := take(&list[1])
		list[1] = mkQ(4)
		o("overwrite/slice-elem/read", al.read())
		al.write()
		o("overwrite/slice-elem/write", showQ(list[1]))
		al0 := take(&list[0])
		copy(list, []Q{mkQ(5), mkQ(6)})
		o("overwrite/copy/read", al0.read()+"#"+al.read())
		al0.write()
		o("overwrite/copy/write", showQ(list[0]))
	}
	{
		var arr [2]Q
		arr[0] = mkQ(1)
		al := take(&arr[0])
		arr[0] = mkQ(7)
		o("overwrite/array-elem/read", al.read())
		arr = [2]Q{mkQ(8), mkQ(9)}
		o("overwrite/array-whole/read", al.read())
		al.write()
		o("overwrite/array-whole/write", showQ(arr[0]))
	}
	{
		var outer struct {
			pad Int
			q   Q
		}
		outer.q = mkQ(1)
		al := take(&outer.q)
		outer.q = mkQ(10)
		o("overwrite/field/read", al.read())
		outer2 := outer
		outer2.q.n = 77
		outer = outer2
		o("overwrite/outer/read", al.read())
		al.write()
		o("overwrite/outer/write", showQ(outer.q))
	}
	{
		s, t := mkQ(1), mkQ(11)
		as, at := take(&s), take(&t)
		s, t = t, s
		o("overwrite/swap/read", as.read()+"#"+at.read())
		s = retQ(12)
		o("overwrite/call-result/read", as.read())
		var z Q
		s = z
		o("overwrite/zero/read", as.read())
		as.write()
		o("overwrite/zero/write", showQ(s))
	}
	{
		pkgQ = mkQ(1)
		al := take(&pkgQ)
		pkgQ = mkQ(13)
		o("overwrite/pkgvar/read", al.read())
		al.write()
		o("overwrite/pkgvar/write", showQ(pkgQ))
	}
	{
		s := mkQ(1)
		al := take(&s)
		f := func() { s = mkQ(14) }
		f()
		o("overwrite/closure/read", al.read())
		for _, v := range []Q{mkQ(15)} {
			s = v
		}
		o("overwrite/range-value/read", al.read())
		ch := make(chan Q, 1)
		ch <- mkQ(16)
		s = <-ch
		o("overwrite/recv/read", al.read())
		var i interface{} = mkQ(17)
		s = i.(Q)
		o("overwrite/assert/read", al.read())
		m := map[string]Q{"k": mkQ(18)}
		s = m["k"]
		o("overwrite/mapelem/read", al.read())
		// plain arrays as variables
		a := [3]Int{1, 2, 3}
		v, pe := a[:], &a[1]
		a = [3]Int{4, 5, 6}
		o("overwrite/array-var/read", is(v...)+"|"+is(*pe))
		v[2] = 9
		*pe = 8
		o("overwrite/array-var/write", is(a[:]...))
		aa := [2][2]Int{{1, 2}, {3, 4}}
		row := &aa[1]
		aa = [2][2]Int{{5, 6}, {7, 8}}
		o("overwrite/array-of-array/read", is(row[0], row[1]))
	}
}

var pkgQ Q

type NamedInts []Int
type NamedStrs []string
type NamedBytes []uint8

// conversions between slice types keep offset, length AND capacity
func sliceConversions() {
	base := []Int{1, 2, 3, 4, 5, 6}
	lim := base[1:3:4]
	ns := NamedInts(lim)
	o("conv/named-cap", is(Int(len(ns)), Int(cap(ns))))
	ns = append(ns, 30)
	ns = append(ns, 40)
	o("conv/named-append", is(base...)+"/"+is(ns...))
	back := []Int(NamedInts(base[:2:2]))
	back = append(back, 9)
	o("conv/back", is(Int(cap(base[:2:2])), base[2])+"/"+is(back...))
	sb := []string{"a", "b", "c", "d"}
	ls := NamedStrs(sb[1:2:3])
	ls = append(ls, "x", "y")
	o("conv/named-strings", sb[2]+sb[3]+ls[1]+ls[2]+itoa(int64(len(ls))))
	bb := []uint8{1, 2, 3, 4}
	nb := NamedBytes(bb[:1:2])
	nb = append(nb, 7, 8)
	o("conv/named-bytes", is(Int(bb[1]), Int(bb[2]), Int(nb[1]), Int(nb[2])))
	var nilS []Int
	o("conv/nil", btoa(NamedInts(nilS) == nil)+btoa(NamedInts(base[:0]) == nil)+itoa(int64(cap(NamedInts(base[2:2:5])))))
	shared := NamedInts(base[:3])
	shared[0] = 100
	o("conv/shares", is(base[0]))
	f := func(s NamedInts) NamedInts { return append(s, 77) }
	g := f(base[:1:1])
	o("conv/implicit-arg", is(base[1])+"/"+is(g...))
}

func main() {
	sliceConversions()
	addrOfVar()
	addrOfField()
	addrOfElem()
	addrOfPkg()
	subslices()
	arrayPointers()
	mapsAndChans()
	closures()
	rangeWrites()
	linked()
	overwriteInPlace()
}
`

// AliasProgram returns the handwritten aliasing probe program.
func AliasProgram() diffrun.Program {
	return diffrun.Program{Name: "c07_alias", Files: map[string]string{"main.go": aliasSrc}}
}
