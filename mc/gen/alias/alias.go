// Package alias generates the C07 programs: (type shape x copy context x
// mutation side) value-semantics probes and a set of aliasing probes.
package alias

import (
	"fmt"
	"strings"

	"verif/mc/diffrun"
)

type shape struct {
	Name string
	Decl string // declares type TT (named), may declare helper types with suffix _NAME
	Mk   string // body of func mk() TT  (returns a fresh value, leaves distinguishable)
	Mut  string // body of func mut(p *TT)  (changes the deepest leaf)
	Show string // body of func show(v TT) string
	// Leaf2: optional second mutation (another leaf), body of func mut2(p *TT)
	Mut2 string
	NoKey bool // not comparable at compile time (contains slice/func)
}

var shapes = []shape{
	{"S1", "type TT struct{ a Int }", "return TT{7}", "p.a = 99", `return itoa(int64(v.a))`, "p.a++", false},
	{"A1", "type TT [2]Int", "return TT{7, 8}", "p[1] = 99", `return itoa(int64(v[0])) + "," + itoa(int64(v[1]))`, "p[0]--", false},
	{"A2", "type TT [2]string", `return TT{"x", "y"}`, `p[1] = "M"`, `return v[0] + "," + v[1]`, `p[0] += "!"`, false},
	{"S2", "type TT struct {\n\ta  Int\n\tin struct{ b Int }\n}", "var v TT; v.a = 1; v.in.b = 7; return v", "p.in.b = 99", `return itoa(int64(v.a)) + "," + itoa(int64(v.in.b))`, "p.a = -5", false},
	{"S3", "type Inner_S3 struct{ b Int }\ntype TT struct {\n\tInner_S3\n\tc string\n}", `return TT{Inner_S3{7}, "c"}`, "p.b = 99", `return itoa(int64(v.b)) + "," + v.c`, `p.c = "M"`, false},
	{"S4", "type TT struct{ arr [2]Int }", "return TT{[2]Int{7, 8}}", "p.arr[1] = 99", `return itoa(int64(v.arr[0])) + "," + itoa(int64(v.arr[1]))`, "p.arr[0] = -1", false},
	{"A3", "type El_A3 struct{ a Int }\ntype TT [2]El_A3", "return TT{{7}, {8}}", "p[1].a = 99", `return itoa(int64(v[0].a)) + "," + itoa(int64(v[1].a))`, "p[0] = El_A3{-3}", false},
	{"S5", "type TT struct{ arr [2]struct{ a Int } }", "var v TT; v.arr[0].a = 7; v.arr[1].a = 8; return v", "p.arr[1].a = 99", `return itoa(int64(v.arr[0].a)) + "," + itoa(int64(v.arr[1].a))`, "p.arr[0].a--", false},
	{"A4", "type TT [2][2]Int", "return TT{{1, 2}, {3, 4}}", "p[1][0] = 99", `return itoa(int64(v[0][0])) + itoa(int64(v[0][1])) + "," + itoa(int64(v[1][0])) + itoa(int64(v[1][1]))`, "p[0] = [2]Int{-1, -2}", false},
	{"S6", "type TT struct {\n\ta Int\n\tb string\n\tc float64\n\td [2]string\n\te int64\n}", `return TT{1, "b", 2.5, [2]string{"x", "y"}, 1 << 40}`, `p.d[1] = "M"`, `return itoa(int64(v.a)) + v.b + ftoa(v.c) + v.d[0] + v.d[1] + itoa(v.e)`, "p.e++", false},
	{"S7", "type TT struct {\n\tp *Int\n\ta Int\n}", "x := new(Int); *x = 5; return TT{x, 7}", "p.a = 99", `if v.p == nil { return "nil," + itoa(int64(v.a)) }; return itoa(int64(*v.p)) + "," + itoa(int64(v.a))`, "if p.p != nil { *p.p = 55 } else { p.a = -55 }", false},
	{"S8", "type TT struct {\n\ts []Int\n\ta [1]Int\n}", "return TT{[]Int{5}, [1]Int{7}}", "p.a[0] = 99", `if len(v.s) == 0 { return "empty," + itoa(int64(v.a[0])) }; return itoa(int64(v.s[0])) + "," + itoa(int64(v.a[0]))`, "if len(p.s) > 0 { p.s[0] = 55 } else { p.a[0] = -55 }", true},
	{"A5", "type TT [3]uint8", "return TT{1, 2, 3}", "p[2] = 99", `return itoa(int64(v[0])) + itoa(int64(v[1])) + "," + itoa(int64(v[2]))`, "p[0] = 200", false},
	{"S9", "type In_S9 struct{ z [2]Int }\ntype TT struct {\n\ti interface{}\n\tn In_S9\n}", `return TT{"s", In_S9{[2]Int{7, 8}}}`, "p.n.z[1] = 99", `str, _ := v.i.(string); return str + itoa(int64(v.n.z[0])) + "," + itoa(int64(v.n.z[1]))`, `p.i = "M"`, false},
	// the named struct types of the fields are declared AFTER the type that contains them
	{"S11", "type TT struct {\n\tin  Late_S11\n\tarr [2]Late_S11\n\te   Int\n}\ntype Late_S11 struct {\n\ta Int\n\td Deep_S11\n}\ntype Deep_S11 struct{ z Int }", "return TT{Late_S11{1, Deep_S11{2}}, [2]Late_S11{{3, Deep_S11{4}}, {5, Deep_S11{6}}}, 7}", "p.arr[1].d.z = 99", `return itoa(int64(v.in.a)) + itoa(int64(v.in.d.z)) + "," + itoa(int64(v.arr[0].a)) + itoa(int64(v.arr[1].d.z)) + "," + itoa(int64(v.e))`, "p.in.d.z = 55", false},
	{"S12", "type TT struct {\n\tEmb_S12\n\tq *Emb_S12\n}\ntype Emb_S12 struct {\n\tm Int\n\tn [2]Int\n}", "return TT{Emb_S12{1, [2]Int{2, 3}}, nil}", "p.n[1] = 99", `return itoa(int64(v.m)) + itoa(int64(v.n[0])) + "," + itoa(int64(v.n[1]))`, "p.m = 55", false},
	{"A6", "type TT [2]float64", "return TT{1.5, 2.5}", "p[1] = 99", `return ftoa(v[0]) + "," + ftoa(v[1])`, "p[0] = -p[0]", false},
	{"S10", "type TT struct {\n\tc complex128\n\tu uint64\n\tf func() Int\n}", "return TT{complex(1, 2), 1 << 63, nil}", "p.u = 99", `return ftoa(real(v.c)) + ftoa(imag(v.c)) + "," + utoa(v.u)`, "p.c = complex(9, 9)", true},
}

// contexts: each is a block of statements; a is the source variable (type TT).
// The block must print lines via out(ctx, probe, text). Tokens: TT MK MUT SHOW.
type context struct {
	Name string
	Decl string // package-level declarations (functions/types), tokens as above plus CTX
	Body string
}

var contexts = []context{
	{"assign", "", `a := MK(); var b TT; b = a; MUT(&a); out("src", SHOW(b)); a = MK(); b = a; MUT(&b); out("dst", SHOW(a))`},
	{"define", "", `a := MK(); b := a; MUT(&a); out("src", SHOW(b)); a2 := MK(); b2 := a2; MUT(&b2); out("dst", SHOW(a2))`},
	{"vardecl", "", `a := MK(); var b TT = a; MUT(&a); out("src", SHOW(b)); MUT2(&b); out("dst", SHOW(a))`},
	{"arg", "func argCTX(p TT) *TT { return &p }\nfunc argmutCTX(p TT) string { MUT(&p); return SHOW(p) }", `a := MK(); pb := argCTX(a); MUT(&a); out("src", SHOW(*pb)); MUT2(pb); out("dst", SHOW(a)); a = MK(); argmutCTX(a); out("callee", SHOW(a))`},
	{"variadic", "func varCTX(ps ...TT) *TT { return &ps[0] }", `a := MK(); pb := varCTX(a); MUT(&a); out("src", SHOW(*pb)); MUT2(pb); out("dst", SHOW(a)); sl := []TT{MK()}; pc := varCTX(sl...); MUT(pc); out("spread-alias", SHOW(sl[0]))`},
	{"return", "var gCTX TT\nfunc retCTX() TT { return gCTX }\nfunc retpCTX(p *TT) TT { return *p }\nfunc retfCTX(w *struct{ f TT }) TT { return w.f }", `gCTX = MK(); b := retCTX(); MUT(&gCTX); out("src", SHOW(b)); MUT2(&b); out("dst", SHOW(gCTX)); a := MK(); c := retpCTX(&a); MUT(&a); out("deref", SHOW(c)); w := &struct{ f TT }{MK()}; d := retfCTX(w); MUT(&w.f); out("field", SHOW(d))`},
	{"retdirect", "var hCTX TT\nfunc rdCTX() TT { return hCTX }\nfunc takeCTX(p TT) string { MUT(&p); return SHOW(hCTX) }\nfunc (v TT) selfCTX() string { MUT(&v); return SHOW(hCTX) }", `{ hCTX = MK(); out("arg", takeCTX(rdCTX())) }; { hCTX = MK(); out("recv", rdCTX().selfCTX()) }; { hCTX = MK(); m := map[string]TT{}; m["k"] = rdCTX(); MUT(&hCTX); out("mapstore", SHOW(m["k"])) }; { hCTX = MK(); sl := []TT{rdCTX()}; MUT(&hCTX); out("lit", SHOW(sl[0])) }; { hCTX = MK(); var i interface{} = rdCTX(); MUT(&hCTX); out("box", SHOW(i.(TT))) }; { hCTX = MK(); c := make(chan TT, 1); select { case c <- rdCTX(): }; MUT(&hCTX); out("selsend", SHOW(<-c)) }`},
	{"namedres", "var nCTX TT\nfunc nrCTX() (r TT) { r = nCTX; return }\nfunc nr2CTX() (r TT) { defer func() { MUT(&r) }(); return nCTX }", `nCTX = MK(); b := nrCTX(); MUT(&nCTX); out("src", SHOW(b)); nCTX = MK(); c := nr2CTX(); out("defer", SHOW(c)+"/"+SHOW(nCTX))`},
	{"retdefer", "func rdfCTX() TT { a := MK(); defer func() { MUT(&a) }(); return a }\nfunc rdf2CTX() (TT, TT) { a, b := MK(), MK(); defer func() { MUT(&a); MUT2(&b) }(); return a, b }\nfunc rdf3CTX(p TT) TT { defer func() { MUT(&p) }(); return p }\nfunc rdf4CTX() TT { a := MK(); defer func() { recover(); MUT2(&a) }(); func() { defer func() { MUT(&a) }() }(); return a }\nfunc rdf5CTX() TT { a := MK(); c := make(chan bool); go func() { <-c; MUT(&a); c <- true }(); defer func() { c <- true; <-c }(); return a }", `out("local", SHOW(rdfCTX())); x, y := rdf2CTX(); out("tuple", SHOW(x)+"/"+SHOW(y)); out("param", SHOW(rdf3CTX(MK()))); out("nested", SHOW(rdf4CTX())); out("goroutine", SHOW(rdf5CTX()))`},
	{"rangeslice", "", `sl := []TT{MK(), MK()}; for i, v := range sl { MUT(&v); out("dst"+itoa(int64(i)), SHOW(sl[i])); MUT2(&sl[i]); out("src"+itoa(int64(i)), SHOW(v)) }`},
	{"rangearray", "", `{ arr := [2]TT{MK(), MK()}; for i, v := range arr { if i == 0 { MUT(&arr[1]) }; out("later"+itoa(int64(i)), SHOW(v)) } }; { arr := [2]TT{MK(), MK()}; for i, v := range arr { MUT(&v); out("dst"+itoa(int64(i)), SHOW(arr[i])) } }; { arr2 := [2]TT{MK(), MK()}; pa := &arr2; for i, v := range pa { if i == 0 { MUT(&pa[1]) }; out("ptr"+itoa(int64(i)), SHOW(v)) } }`},
	{"rangecall", "var rcCTX [2]TT\nfunc getrcCTX() [2]TT { return rcCTX }\ntype hrcCTX struct{ cells [2]TT }\nfunc (h *hrcCTX) Cells() [2]TT { return h.cells }\nfunc (h hrcCTX) ValCells() [2]TT { return h.cells }", `rcCTX = [2]TT{MK(), MK()}; for i, v := range getrcCTX() { if i == 0 { MUT(&rcCTX[1]) }; out("func"+itoa(int64(i)), SHOW(v)) }; h := &hrcCTX{[2]TT{MK(), MK()}}; for i, v := range h.Cells() { if i == 0 { MUT(&h.cells[1]) }; out("method"+itoa(int64(i)), SHOW(v)) }; for i, v := range h.ValCells() { if i == 0 { MUT2(&h.cells[1]) }; out("valmethod"+itoa(int64(i)), SHOW(v)) }; for i, v := range [2]TT(h.cells) { if i == 0 { MUT(&h.cells[1]) }; out("conv"+itoa(int64(i)), SHOW(v)) }; ph := &h.cells; for i, v := range *ph { if i == 0 { MUT2(&ph[1]) }; out("deref"+itoa(int64(i)), SHOW(v)) }`},
	{"rangemap", "", `m := map[Int]TT{1: MK()}; for k, v := range m { MUT(&v); out("dst", SHOW(m[k])); w := m[k]; MUT2(&w); m[k] = w; out("src", SHOW(v)) }`},
	{"chan", "", `a := MK(); c := make(chan TT, 2); c <- a; MUT(&a); b := <-c; out("src", SHOW(b)); c <- b; MUT2(&b); out("dst", SHOW(<-c)); u := make(chan TT); go func() { x := MK(); u <- x; MUT(&x); u <- x }(); r1 := <-u; r2 := <-u; out("unbuf", SHOW(r1)+"/"+SHOW(r2))`},
	{"select", "", `a := MK(); c := make(chan TT, 1); select { case c <- a: out("sent", "") }; MUT(&a); var b TT; select { case b = <-c: }; out("src", SHOW(b)); c <- a; select { case d, ok := <-c: MUT2(&a); out("recvok", SHOW(d)+btoa(ok)) }`},
	{"mapelem", "", `a := MK(); m := map[string]TT{}; m["k"] = a; MUT(&a); out("store-src", SHOW(m["k"])); b := m["k"]; MUT(&b); out("load-dst", SHOW(m["k"])); c, ok := m["k"]; MUT2(&c); out("commaok", SHOW(m["k"])+btoa(ok)); z := m["none"]; MUT(&z); out("zero", SHOW(m["none"]))`},
	{"mapkeyiface", "", `a := MK(); m := map[interface{}]Int{}; func() { defer func() { recover() }(); m[a] = 1; MUT(&a); for k := range m { out("key", SHOW(k.(TT))) } }()`},
	{"sliceelem", "", `a := MK(); sl := make([]TT, 2); sl[0] = a; MUT(&a); out("store-src", SHOW(sl[0])); b := sl[0]; MUT(&b); out("load-dst", SHOW(sl[0])); sl[1] = sl[0]; MUT2(&sl[0]); out("elem-elem", SHOW(sl[1]))`},
	{"arrayelem", "", `a := MK(); var arr [2]TT; arr[0] = a; MUT(&a); out("store-src", SHOW(arr[0])); b := arr[0]; MUT(&b); out("load-dst", SHOW(arr[0])); brr := arr; MUT2(&arr[0]); out("arr-copy", SHOW(brr[0]))`},
	{"field", "type wCTX struct {\n\tf TT\n\tg TT\n}", `a := MK(); var w wCTX; w.f = a; MUT(&a); out("store-src", SHOW(w.f)); b := w.f; MUT(&b); out("load-dst", SHOW(w.f)); w.g = w.f; MUT2(&w.f); out("f-g", SHOW(w.g)); pw := &w; c := pw.f; MUT(&pw.f); out("ptr-load", SHOW(c)); w2 := w; MUT2(&w.g); out("outer-copy", SHOW(w2.g))`},
	{"complit", "type clCTX struct {\n\tf TT\n}", `a := MK(); w := clCTX{f: a}; w2 := clCTX{a}; arr := [1]TT{a}; sl := []TT{a}; m := map[string]TT{"k": a}; pw := &clCTX{a}; MUT(&a); out("keyed", SHOW(w.f)); out("pos", SHOW(w2.f)); out("arr", SHOW(arr[0])); out("slice", SHOW(sl[0])); out("map", SHOW(m["k"])); out("ptr", SHOW(pw.f))`},
	{"mapkey", "", `a := MK(); mkm := map[TT]Int{a: 1}; mk2 := map[TT]Int{}; mk2[a] = 2; MUT(&a); for k := range mkm { out("lit", SHOW(k)) }; for k := range mk2 { out("store", SHOW(k)); MUT2(&k) }; for k := range mk2 { out("rangekey-dst", SHOW(k)) }; out("lookup", itoa(int64(mk2[MK()])))`},
	{"box", "", `{ a := MK(); var i interface{} = a; MUT(&a); out("box-src", SHOW(i.(TT))) }; { var i interface{} = MK(); b := i.(TT); MUT(&b); out("unbox-dst", SHOW(i.(TT))) }; { var i interface{} = MK(); c, ok := i.(TT); MUT(&c); out("commaok", SHOW(i.(TT))+btoa(ok)) }; { var i interface{} = MK(); switch d := i.(type) { case TT: MUT(&d); out("tswitch", SHOW(i.(TT))) } }; { a := MK(); p := &a; var j interface{} = *p; MUT(p); out("box-deref", SHOW(j.(TT))) }; { a := MK(); j2 := []interface{}{a}; MUT(&a); out("box-lit", SHOW(j2[0].(TT))) }; { a := MK(); f := func(x interface{}) interface{} { return x }; r := f(a); MUT(&a); out("box-arg", SHOW(r.(TT))) }; { var i interface{} = MK(); var j interface{} = i; b := j.(TT); MUT(&b); out("iface-iface", SHOW(i.(TT))) }; { var i interface{} = MK(); p := i.(TT); q := i.(TT); MUT(&p); out("unbox-twice", SHOW(q)) }`},
	{"recv", "func (v TT) ptrCTX() *TT { return &v }\nfunc (v TT) mutCTX() string { MUT(&v); return SHOW(v) }\ntype ifCTX interface{ mutCTX() string }\ntype embCTX struct{ TT }\ntype embpCTX struct{ *TT }", `{ a := MK(); pb := a.ptrCTX(); MUT(&a); out("val-src", SHOW(*pb)); MUT2(pb); out("val-dst", SHOW(a)) }; { a := MK(); a.mutCTX(); out("val-call", SHOW(a)) }; { a := MK(); (&a).mutCTX(); out("ptr-call", SHOW(a)) }; { var i ifCTX = MK(); i.mutCTX(); out("iface-call", SHOW(i.(TT))) }; { a := MK(); var ip ifCTX = &a; ip.mutCTX(); out("ifaceptr-call", SHOW(a)) }; { e := embCTX{MK()}; e.mutCTX(); out("emb-call", SHOW(e.TT)) }; { a := MK(); ep := embpCTX{&a}; ep.mutCTX(); out("embp-call", SHOW(a)) }; { e := embCTX{MK()}; var ie ifCTX = e; ie.mutCTX(); out("ifaceemb-call", SHOW(ie.(embCTX).TT)) }; { e := &embCTX{MK()}; var ie ifCTX = e; ie.mutCTX(); out("ifaceembptr-call", SHOW(e.TT)) }`},
	{"methval", "func (v TT) getCTX() TT { return v }\nfunc (v *TT) pgetCTX() TT { return *v }", `{ a := MK(); f := a.getCTX; MUT(&a); out("bound-copy", SHOW(f())) }; { a := MK(); g := a.pgetCTX; MUT(&a); out("bound-ptr", SHOW(g())) }; { a := MK(); h := TT.getCTX; b := h(a); MUT(&b); out("expr", SHOW(a)) }; { a := MK(); p := &a; f2 := p.getCTX; MUT(&a); out("bound-via-ptr", SHOW(f2())) }; { var i interface{ getCTX() TT } = MK(); f3 := i.getCTX; b := f3(); MUT(&b); out("bound-iface", SHOW(f3())) }; { a := MK(); f4 := (*TT).pgetCTX; b := f4(&a); MUT(&b); out("ptr-expr", SHOW(a)) }`},
	{"deref", "", `a := MK(); p := &a; b := *p; MUT(&a); out("load-src", SHOW(b)); c := MK(); *p = c; MUT(&c); out("store-src", SHOW(a)); MUT2(p); out("store-dst", SHOW(c)); pp := &p; d := **pp; MUT(*pp); out("load2", SHOW(d))`},
	{"closure", "", `a := MK(); f := func(p TT) *TT { return &p }; pb := f(a); MUT(&a); out("param-src", SHOW(*pb)); g := func() TT { return a }; b := g(); MUT2(&a); out("ret", SHOW(b)); h := func() { MUT(&a) }; c := a; h(); out("capture-alias", SHOW(a)+"/"+SHOW(c))`},
	{"append", "", `{ a := MK(); var sl []TT; sl = append(sl, a); MUT(&a); out("elem-src", SHOW(sl[0])) }; { sl := []TT{MK()}; sl2 := append([]TT{}, sl...); MUT(&sl[0]); out("spread", SHOW(sl2[0])) }; { sl3 := make([]TT, 1, 1); sl3[0] = MK(); sl4 := append(sl3, MK()); MUT(&sl3[0]); out("grown", SHOW(sl4[0])) }; { sl5 := make([]TT, 1, 4); sl5[0] = MK(); sl6 := append(sl5, MK()); MUT(&sl5[0]); out("ingrow-alias", SHOW(sl6[0])) }`},
	{"copy", "", `src := []TT{MK(), MK()}; dst := make([]TT, 2); n := copy(dst, src); MUT(&src[0]); out("copy-src", SHOW(dst[0])+itoa(int64(n))); MUT2(&dst[1]); out("copy-dst", SHOW(src[1])); copy(src[1:], src[:1]); MUT(&src[0]); out("overlap", SHOW(src[1]))`},
	{"godefer", "func deferCTX() (res string) { a := MK(); defer func(p TT) { res = SHOW(p) }(a); MUT(&a); return }\nfunc defer2CTX() (res string) { a := MK(); defer func(p *TT) { res = SHOW(*p) }(&a); MUT(&a); return }", `out("defer-arg", deferCTX()); out("defer-ptr", defer2CTX()); a := MK(); done := make(chan string); go func(p TT) { <-done; done <- SHOW(p) }(a); MUT(&a); done <- ""; out("go-arg", <-done)`},
	{"arrconv", "", `a := MK(); sl := []TT{a, a}; arr := [2]TT(sl); MUT(&sl[0]); out("slice2arr", SHOW(arr[0])); pa := (*[2]TT)(sl); MUT2(&sl[1]); out("slice2ptr-alias", SHOW(pa[1])); b := *pa; MUT(&sl[1]); out("ptr-deref-copy", SHOW(b[1]))`},
	{"compare", "", `{ a := MK(); b := a; func() { defer func() { if recover() != nil { out("eq", "uncomparable") } }(); var x, y interface{} = a, b; r := x == y; out("eq", btoa(r)) }() }; { a := MK(); b := MK(); MUT(&b); func() { defer func() { if recover() != nil { out("ne", "uncomparable") } }(); var x, y interface{} = a, b; out("ne", btoa(x == y)) }() }`},
	{"swap", "", `a, b := MK(), MK(); MUT(&a); a, b = b, a; out("swap", SHOW(a)+"/"+SHOW(b)); MUT2(&a); out("swap2", SHOW(b)); arr := [2]TT{MK(), MK()}; MUT(&arr[0]); arr[0], arr[1] = arr[1], arr[0]; MUT2(&arr[0]); out("swap-elem", SHOW(arr[0])+"/"+SHOW(arr[1]))`},
	{"zero", "", `var z TT; var z2 TT; func() { defer func() { recover() }(); MUT(&z) }(); func() { defer func() { if recover() != nil { out("zero", "panic") } }(); out("zero", SHOW(z2)) }(); n := new(TT); m := new(TT); func() { defer func() { recover() }(); MUT(n) }(); func() { defer func() { if recover() != nil { out("new", "panic") } }(); out("new", SHOW(*m)) }()`},
}

// ShapeProgram builds the program for one shape.
func ShapeProgram(s shape) diffrun.Program {
	var b strings.Builder
	b.WriteString("package main\n\n")
	b.WriteString(strings.ReplaceAll(s.Decl, "TT", "T") + "\n\n")
	tt := func(x string) string { return strings.ReplaceAll(x, "TT", "T") }
	fmt.Fprintf(&b, "func mk() T { %s }\n\nfunc mut(p *T) { %s }\n\nfunc mut2(p *T) { %s }\n\nfunc show(v T) string { %s }\n\n", tt(s.Mk), tt(s.Mut), tt(s.Mut2), tt(s.Show))
	b.WriteString("var curCtx string\n\nfunc out(probe, text string) { println(\"C07/" + s.Name + "/\"+curCtx+\"/\"+probe, text) }\n\n")
	r := func(src, ctx string) string {
		return strings.NewReplacer("TT", "T", "MK", "mk", "MUT2", "mut2", "MUT", "mut", "SHOW", "show", "CTX", "_"+ctx).Replace(src)
	}
	var calls []string
	for _, c := range contexts {
		if c.Name == "mapkey" && s.NoKey {
			continue
		}
		if c.Decl != "" {
			b.WriteString(r(c.Decl, c.Name) + "\n\n")
		}
		fmt.Fprintf(&b, "func ctx_%s() {\n\tcurCtx = %q\n\t%s\n}\n\n", c.Name, c.Name, strings.ReplaceAll(r(c.Body, c.Name), "; ", "\n\t"))
		calls = append(calls, "ctx_"+c.Name+"()")
	}
	b.WriteString("func main() {\n")
	for _, c := range calls {
		b.WriteString("\t" + c + "\n")
	}
	b.WriteString("}\n")
	return diffrun.Program{Name: "c07_" + s.Name, Files: map[string]string{"main.go": b.String()}}
}

// Programs returns all C07 programs.
func Programs(thorough bool) []diffrun.Program {
	var ps []diffrun.Program
	for _, s := range shapes {
		ps = append(ps, ShapeProgram(s))
	}
	ps = append(ps, AliasProgram())
	return ps
}
