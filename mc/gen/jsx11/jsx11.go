// Package jsx11 generates the C11 program: the documented Go <-> JavaScript conversion
// table x boundary values x routes. There is no native reference; the expected lines are
// literals written from the js package documentation (the trusted contract).
package jsx11

import (
	"fmt"
	"strings"

	"verif/mc/diffrun"
)

// The JS side installed by the harness (js/probe11.js) provides:
//   verifProbe(x)            -> description string of x (typeof / constructor / contents, -0 and NaN kept apart)
//   verifEcho(x)             -> x
//   VerifCtor(x)             -> object with property d = description of x
//   verifDescribeProp(o, k)  -> description of o[k]
//   verifCall(name, ...args) -> description of the result of calling the global function `name`
//   verifMake(kind)          -> JS values of a given kind for the JS -> Go direction
//   verifTouch(x)            -> writes 42 into x[0] (typed arrays share storage with the Go slice)

// NonNumbers is the number of JavaScript values of kind "nonnumbers" in js/probe11.js.
const NonNumbers = 24

type val struct {
	ID     string
	Type   string // Go type
	Expr   string // Go expression
	JS     string // expected description on the JavaScript side
	Back   string // Go expression converting the echoed *js.Object (named r) back to a printable string
	BackOK string // expected printed round trip
}

func num(id, typ, expr, js string) val {
	conv := "itoa(int64(r.Int()))"
	back := js
	switch typ {
	case "float64", "float32":
		conv = "ftoa(r.Float())"
	case "int64":
		conv = "itoa(r.Int64())"
	case "uint64":
		conv = "utoa(r.Uint64())"
	case "uint32", "uint":
		conv = "utoa(uint64(r.Float()))"
	}
	_ = back
	return val{ID: id, Type: typ, Expr: expr, JS: "number:" + js, Back: conv}
}

func vals() []val {
	vs := []val{
		{ID: "bool/true", Type: "bool", Expr: "true", JS: "boolean:true", Back: "btoa(r.Bool())", BackOK: "T"},
		{ID: "bool/false", Type: "bool", Expr: "false", JS: "boolean:false", Back: "btoa(r.Bool())", BackOK: "F"},
	}
	ints := []struct{ typ, lo, hi string }{{"int8", "-128", "127"}, {"int16", "-32768", "32767"}, {"int32", "-2147483648", "2147483647"}, {"int", "-2147483648", "2147483647"},
		{"uint8", "0", "255"}, {"uint16", "0", "65535"}, {"uint32", "0", "4294967295"}, {"uint", "0", "4294967295"}, {"uintptr", "0", "4294967295"}}
	for _, t := range ints {
		for _, v := range []string{"0", "1", t.lo, t.hi} {
			x := num(t.typ+"/"+v, t.typ, t.typ+"("+v+")", v)
			x.BackOK = v
			if t.typ == "uint32" || t.typ == "uint" || t.typ == "uintptr" {
				x.Back = "utoa(uint64(r.Float()))"
			}
			vs = append(vs, x)
		}
		x := num(t.typ+"/-1", t.typ, t.typ+"(minusOne())", "-1")
		if strings.HasPrefix(t.typ, "u") {
			continue
		}
		x.BackOK = "-1"
		vs = append(vs, x)
	}
	for _, v := range []string{"0", "1", "-1", "9007199254740991", "-9007199254740991", "9007199254740992", "4294967296", "-4294967297"} {
		x := num("int64/"+v, "int64", "int64("+v+")", v)
		x.BackOK = v
		vs = append(vs, x)
		if !strings.HasPrefix(v, "-") {
			y := num("uint64/"+v, "uint64", "uint64("+v+")", v)
			y.BackOK = v
			vs = append(vs, y)
		}
	}
	for _, e := range []struct{ id, typ, expr, js string }{
		{"int64/min", "int64", "int64(-9223372036854775808)", "-9223372036854776000"}, {"int64/max", "int64", "int64(9223372036854775807)", "9223372036854776000"},
		{"uint64/2^63", "uint64", "uint64(9223372036854775808)", "9223372036854776000"}, {"uint64/max", "uint64", "uint64(18446744073709551615)", "18446744073709552000"},
		{"uint64/2^63+2^11", "uint64", "uint64(9223372036854777856)", "9223372036854778000"}, {"int64/-2^53-2", "int64", "int64(-9007199254740994)", "-9007199254740994"},
	} {
		x := num(e.id, e.typ, e.expr, e.js)
		x.Back = "" // outside the range representable on both sides: no round trip
		vs = append(vs, x)
	}
	floats := []struct{ expr, js, bits string }{
		{"0.0", "0", "f0"}, {"negZero()", "-0", "f8000000000000000"}, {"1.5", "1.5", "f3ff8000000000000"}, {"-1.5", "-1.5", "fbff8000000000000"},
		{"posInf()", "Infinity", "f7ff0000000000000"}, {"negInf()", "-Infinity", "ffff0000000000000"}, {"nan()", "NaN", "NaN"},
		{"5e-324", "5e-324", "f1"}, {"1.7976931348623157e308", "1.7976931348623157e+308", "f7fefffffffffffff"}, {"0.1", "0.1", "f3fb999999999999a"}, {"1e21", "1e+21", "f444b1ae4d6e2ef50"},
	}
	for i, f := range floats {
		vs = append(vs, val{ID: fmt.Sprintf("float64/%d", i), Type: "float64", Expr: f.expr, JS: "number:" + f.js, Back: "ftoa(r.Float())", BackOK: f.bits})
	}
	vs = append(vs, val{ID: "float32/1.5", Type: "float32", Expr: "float32(1.5)", JS: "number:1.5", Back: "ftoa(r.Float())", BackOK: "f3ff8000000000000"},
		val{ID: "float32/0.1", Type: "float32", Expr: "float32(0.1)", JS: "number:0.10000000149011612", Back: "f32toa(float32(r.Float()))", BackOK: "g3dcccccd"},
		val{ID: "float32/nan", Type: "float32", Expr: "float32(nan())", JS: "number:NaN", Back: "ftoa(r.Float())", BackOK: "NaN"})
	strs := []struct{ expr, units string }{
		{`""`, ""}, {`"a"`, "0061"}, {`"a\x00b"`, "0061,0000,0062"}, {`"\x7f"`, "007f"}, {`"\u0080"`, "0080"}, {`"é"`, "00e9"}, {`"߿ࠀ"`, "07ff,0800"}, {`"€"`, "20ac"},
		{`"￿"`, "ffff"}, {`"\U00010000"`, "d800,dc00"}, {`"😀"`, "d83d,de00"}, {`"\U0010ffff"`, "dbff,dfff"}, {`"aé€😀z"`, "0061,00e9,20ac,d83d,de00,007a"}, {`"quote\"back\\slash"`, "0071,0075,006f,0074,0065,0022,0062,0061,0063,006b,005c,0073,006c,0061,0073,0068"},
	}
	for i, s := range strs {
		vs = append(vs, val{ID: fmt.Sprintf("string/%d", i), Type: "string", Expr: s.expr, JS: "string:" + s.units, Back: "quote(r.String())", BackOK: "GOQUOTE:" + s.expr})
	}
	typed := []struct{ typ, ctor string }{{"int8", "Int8Array"}, {"int16", "Int16Array"}, {"int32", "Int32Array"}, {"int", "Int32Array"}, {"uint8", "Uint8Array"}, {"uint16", "Uint16Array"}, {"uint32", "Uint32Array"}, {"uint", "Uint32Array"}, {"float32", "Float32Array"}, {"float64", "Float64Array"}}
	for _, t := range typed {
		vs = append(vs, val{ID: "slice/" + t.typ, Type: "[]" + t.typ, Expr: "[]" + t.typ + "{1, 2, 3}", JS: t.ctor + ":[number:1,number:2,number:3]", Back: "itoa(int64(r.Length())) + itoa(int64(r.Index(2).Int()))", BackOK: "33"})
		vs = append(vs, val{ID: "subslice/" + t.typ, Type: "[]" + t.typ, Expr: "[]" + t.typ + "{9, 1, 2, 3, 9}[1:4]", JS: t.ctor + ":[number:1,number:2,number:3]", Back: "itoa(int64(r.Length()))", BackOK: "3"})
		vs = append(vs, val{ID: "clipslice/" + t.typ, Type: "[]" + t.typ, Expr: "[]" + t.typ + "{1, 2, 3, 9, 9}[:3:3]", JS: t.ctor + ":[number:1,number:2,number:3]", Back: "itoa(int64(r.Length()))", BackOK: "3"})
		vs = append(vs, val{ID: "clipmid/" + t.typ, Type: "[]" + t.typ, Expr: "[]" + t.typ + "{9, 1, 2, 3, 9}[1:4:4]", JS: t.ctor + ":[number:1,number:2,number:3]", Back: "itoa(int64(r.Length()))", BackOK: "3"})
		vs = append(vs, val{ID: "emptyclip/" + t.typ, Type: "[]" + t.typ, Expr: "[]" + t.typ + "{9, 9}[:0:0]", JS: t.ctor + ":[]", Back: "itoa(int64(r.Length()))", BackOK: "0"})
		vs = append(vs, val{ID: "prefix/" + t.typ, Type: "[]" + t.typ, Expr: "make([]" + t.typ + ", 2, 8)", JS: t.ctor + ":[number:0,number:0]", Back: "itoa(int64(r.Length()))", BackOK: "2"})
		vs = append(vs, val{ID: "array/" + t.typ, Type: "[2]" + t.typ, Expr: "[2]" + t.typ + "{4, 5}", JS: t.ctor + ":[number:4,number:5]", Back: "itoa(int64(r.Length()))", BackOK: "2"})
	}
	vs = append(vs,
		val{ID: "slice/string", Type: "[]string", Expr: `[]string{"a", "é"}`, JS: "Array:[string:0061,string:00e9]", Back: "quote(r.Index(1).String())", BackOK: `"\xc3\xa9"`},
		val{ID: "slice/any", Type: "[]interface{}", Expr: `[]interface{}{1, "s", true, nil, 2.5}`, JS: "Array:[number:1,string:0073,boolean:true,null,number:2.5]", Back: "itoa(int64(r.Length()))", BackOK: "5"},
		val{ID: "slice/int64", Type: "[]int64", Expr: "[]int64{1, 1 << 40}", JS: "Array:[number:1,number:1099511627776]", Back: "itoa(r.Index(1).Int64())", BackOK: "1099511627776"},
		val{ID: "slice/bool", Type: "[]bool", Expr: "[]bool{true, false}", JS: "Array:[boolean:true,boolean:false]", Back: "btoa(r.Index(0).Bool())", BackOK: "T"},
		val{ID: "slice/nested", Type: "[][]int", Expr: "[][]int{{1}, {2, 3}}", JS: "Array:[Int32Array:[number:1],Int32Array:[number:2,number:3]]", Back: "itoa(int64(r.Index(1).Index(1).Int()))", BackOK: "3"},
		val{ID: "slice/clipstr", Type: "[]string", Expr: `[]string{"a", "b", "c"}[:2:2]`, JS: "Array:[string:0061,string:0062]", Back: "itoa(int64(r.Length()))", BackOK: "2"},
		val{ID: "slice/clipnested", Type: "[][]uint8", Expr: "[][]uint8{[]uint8{1, 2, 3}[:1:1], []uint8{4, 5}[1:]}", JS: "Array:[Uint8Array:[number:1],Uint8Array:[number:5]]", Back: "itoa(int64(r.Length()))", BackOK: "2"},
		val{ID: "map/clipslice", Type: "map[string][]int", Expr: `map[string][]int{"k": []int{1, 2, 3}[:2:2]}`, JS: "Object:{k=Int32Array:[number:1,number:2]}", Back: "itoa(int64(r.Get(\"k\").Length()))", BackOK: "2"},
		val{ID: "slice/S", Type: "js.S", Expr: `js.S{1, "x"}`, JS: "Array:[number:1,string:0078]", Back: "itoa(int64(r.Length()))", BackOK: "2"},
		val{ID: "map/string-int", Type: "map[string]int", Expr: `map[string]int{"a": 1, "b": 2}`, JS: "Object:{a=number:1,b=number:2}", Back: "itoa(int64(r.Get(\"b\").Int()))", BackOK: "2"},
		val{ID: "map/M", Type: "js.M", Expr: `js.M{"k": "v", "n": js.M{"i": 1}}`, JS: "Object:{k=string:0076,n=Object:{i=number:1}}", Back: "r.Get(\"k\").String()", BackOK: "v"},
		val{ID: "map/empty", Type: "map[string]bool", Expr: `map[string]bool{}`, JS: "Object:{}", Back: "itoa(int64(len(js.Keys(r))))", BackOK: "0"},
		val{ID: "struct/exported", Type: "pub", Expr: `pub{A: 1, B: "x", c: 3, D: []int{4}}`, JS: "Object:{A=number:1,B=string:0078,D=Int32Array:[number:4]}", Back: "itoa(int64(r.Get(\"A\").Int())) + r.Get(\"B\").String()", BackOK: "1x"},
		val{ID: "struct/nested", Type: "outer", Expr: `outer{P: pub{A: 2}, N: 7}`, JS: "Object:{N=number:7,P=Object:{A=number:2,B=string:,D=null}}", Back: "itoa(int64(r.Get(\"P\").Get(\"A\").Int()))", BackOK: "2"},
		val{ID: "nil/iface", Type: "interface{}", Expr: "nil", JS: "null", Back: "btoa(r == nil)", BackOK: "T"},
		val{ID: "nil/object", Type: "*js.Object", Expr: "nil", JS: "null", Back: "btoa(r == nil)", BackOK: "T"},
		val{ID: "nil/slice", Type: "[]int", Expr: "nil", JS: "null", Back: "btoa(r == nil)", BackOK: "T"},
		val{ID: "nil/map", Type: "map[string]int", Expr: "nil", JS: "null", Back: "btoa(r == nil)", BackOK: "T"},
		val{ID: "iface/int", Type: "interface{}", Expr: "42", JS: "number:42", Back: "itoa(int64(r.Int()))", BackOK: "42"},
		val{ID: "iface/string", Type: "interface{}", Expr: `"s"`, JS: "string:0073", Back: "r.String()", BackOK: "s"},
		val{ID: "iface/slice", Type: "interface{}", Expr: "[]float64{1.5}", JS: "Float64Array:[number:1.5]", Back: "ftoa(r.Index(0).Float())", BackOK: "f3ff8000000000000"},
	)
	for i := range vs {
		if strings.HasPrefix(vs[i].BackOK, "GOQUOTE:") {
			vs[i].BackOK = "" // filled by the program itself: quote(original)
		}
	}
	return vs
}

const header = `package main

import (
	"math"
	"runtime"

	"github.com/gopherjs/gopherjs/js"
)

func o(id, s string) { println("C11/"+id, s) }

type pub struct {
	A int
	B string
	c int
	D []int
}
type outer struct {
	P pub
	N int
}

func minusOne() int   { return -1 }
func negZero() float64 { return math.Copysign(0, -1) }
func posInf() float64  { return math.Inf(1) }
func negInf() float64  { return math.Inf(-1) }
func nan() float64     { return math.NaN() }

var g = js.Global

type wrapper struct {
	*js.Object
	Name  string  ` + "`js:\"name\"`" + `
	Count int     ` + "`js:\"count\"`" + `
	Ratio float64 ` + "`js:\"ratio\"`" + `
	Flag  bool    ` + "`js:\"flag\"`" + `
	Inner *inner  ` + "`js:\"inner\"`" + `
	Fn    func(int) int ` + "`js:\"fn\"`" + `
}
type inner struct {
	*js.Object
	Label string ` + "`js:\"label\"`" + `
}
type listener func(int) int
type counter struct {
	*js.Object
	Base  int               ` + "`js:\"base\"`" + `
	Add   func(int) int     ` + "`js:\"add\"`" + `
	Join  func(...string) string ` + "`js:\"join\"`" + `
	Width float64           ` + "`js:\"width\"`" + `
}

func apply(f func(int) int, x int) int { return f(x) }
`

// isConstExpr: the value's expression is a typed constant expression.
func isConstExpr(v val) bool {
	switch v.Type {
	case "bool", "string", "int8", "int16", "int32", "int", "uint8", "uint16", "uint32", "uint", "uintptr", "int64", "uint64", "float64", "float32":
		return !strings.Contains(v.Expr, "()")
	}
	return false
}

// Program builds the C11 program and its expected output.
func Program() diffrun.Program {
	var b strings.Builder
	var exp []string
	b.WriteString(header)
	b.WriteString(header2)
	w := func(f string, a ...any) { fmt.Fprintf(&b, f, a...) }
	w("\nfunc main() {\n")
	routes := []struct{ name, call string }{
		{"call", `g.Call("verifProbe", v)`},
		{"invoke", `g.Get("verifProbe").Invoke(v)`},
		{"new", `g.Get("VerifCtor").New(v).Get("d")`},
		{"set", `func() *js.Object { ob := g.Get("Object").New(); ob.Set("k", v); return g.Call("verifDescribeProp", ob, "k") }()`},
		{"setindex", `func() *js.Object { ar := g.Get("Array").New(); ar.SetIndex(0, v); return g.Call("verifDescribeProp", ar, 0) }()`},
		{"return", `func() *js.Object { g.Set("goRet", func() TYPE { return v }); return g.Call("verifCall", "goRet") }()`},
		{"argpass", `func() *js.Object { g.Set("goId", func(x TYPE) TYPE { return x }); return g.Call("verifCall", "goId", v) }()`},
	}
	for _, v := range vals() {
		w("\t{\n\t\tvar v %s = %s\n", v.Type, v.Expr)
		for _, r := range routes {
			if r.name == "argpass" && (v.Back == "" || strings.HasPrefix(v.ID, "nil/") || strings.HasPrefix(v.ID, "struct/") || strings.Contains(v.Type, "float32") && strings.Contains(v.ID, "0.1")) {
				continue
			}
			w("\t\to(%q, %s.String())\n", v.ID+"/"+r.name, strings.ReplaceAll(r.call, "TYPE", v.Type))
			exp = append(exp, "C11/"+v.ID+"/"+r.name+" "+v.JS)
		}
		// the same value written as a constant operand (no variable in between)
		if isConstExpr(v) {
			for _, r := range routes[:5] {
				w("\t\to(%q, %s.String())\n", v.ID+"/const-"+r.name, strings.ReplaceAll(strings.ReplaceAll(r.call, ", v)", ", "+v.Expr+")"), "Invoke(v)", "Invoke("+v.Expr+")"))
				exp = append(exp, "C11/"+v.ID+"/const-"+r.name+" "+v.JS)
			}
		}
		if v.Back == "" {
			w("\t}\n")
			continue
		}
		// round trip through JavaScript and back
		w("\t\tr := g.Call(\"verifEcho\", v)\n\t\t_ = r\n")
		if v.BackOK == "" {
			w("\t\to(%q, btoa(%s == quote(v)))\n", v.ID+"/roundtrip", v.Back)
			exp = append(exp, "C11/"+v.ID+"/roundtrip T")
		} else {
			w("\t\to(%q, %s)\n", v.ID+"/roundtrip", v.Back)
			exp = append(exp, "C11/"+v.ID+"/roundtrip "+v.BackOK)
		}
		w("\t}\n")
	}
	// typed arrays share storage
	w(`	{
		s := []int32{1, 2, 3}
		g.Call("verifTouch", s)
		f := []float64{1, 2}
		g.Call("verifTouch", f[1:])
		u := []uint8{1, 2, 3}
		g.Get("verifTouch").Invoke(u)
		strs := []string{"a"}
		g.Call("verifTouch", strs)
		o("share/typed", itoa(int64(s[0]))+ftoa(f[1])+itoa(int64(u[0]))+strs[0])
	}
`)
	exp = append(exp, "C11/share/typed 42f404500000000000042"+"a")
	// JavaScript -> Go through Interface() and the typed accessors
	w(`	describe := func(x interface{}) string {
		switch v := x.(type) {
		case nil:
			return "nil"
		case bool:
			return "bool:" + btoa(v)
		case float64:
			return "float64:" + ftoa(v)
		case string:
			return "string:" + quote(v)
		case []interface{}:
			return "[]any:" + itoa(int64(len(v)))
		case map[string]interface{}:
			return "map:" + itoa(int64(len(v)))
		case []int8:
			return "[]int8:" + itoa(int64(len(v)))
		case []int16:
			return "[]int16:" + itoa(int64(len(v)))
		case []int:
			return "[]int:" + itoa(int64(len(v)))
		case []uint8:
			return "[]uint8:" + itoa(int64(len(v)))
		case []uint16:
			return "[]uint16:" + itoa(int64(len(v)))
		case []uint:
			return "[]uint:" + itoa(int64(len(v)))
		case []float32:
			return "[]float32:" + itoa(int64(len(v)))
		case []float64:
			return "[]float64:" + itoa(int64(len(v)))
		case func(...interface{}) *js.Object:
			return "func:" + itoa(int64(v(20, 22).Int()))
		case *js.Object:
			return "*js.Object"
		}
		return "other"
	}
	for _, kind := range []string{"true", "false", "zero", "negzero", "int", "frac", "inf", "nan", "empty", "ascii", "bmp", "astral", "null", "array", "object", "int8", "int16", "int32", "uint8", "uint16", "uint32", "float32", "float64", "function", "nested"} {
		x := g.Call("verifMake", kind)
		o("fromjs/"+kind, describe(x.Interface()))
	}
`)
	fromjs := []string{"true bool:T", "false bool:F", "zero float64:f0", "negzero float64:f8000000000000000", "int float64:f4045000000000000", "frac float64:f3fe0000000000000", "inf float64:f7ff0000000000000", "nan float64:NaN",
		`empty string:""`, `ascii string:"abc"`, `bmp string:"\xc3\xa9\xe2\x82\xac"`, `astral string:"\xf0\x9f\x98\x80"`, "null nil", "array []any:3", "object map:2",
		"int8 []int8:2", "int16 []int16:2", "int32 []int:2", "uint8 []uint8:2", "uint16 []uint16:2", "uint32 []uint:2", "float32 []float32:2", "float64 []float64:2", "function func:42", "nested map:1"}
	for _, f := range fromjs {
		exp = append(exp, "C11/fromjs/"+f)
	}
	// typed accessors on JS values
	w(`	n := g.Call("verifMake", "frac")
	big := g.Call("verifMake", "big")
	neg := g.Call("verifMake", "negint")
	o("accessors", itoa(int64(n.Int()))+ftoa(n.Float())+n.String()+btoa(n.Bool())+itoa(big.Int64())+utoa(big.Uint64())+itoa(int64(neg.Int()))+itoa(neg.Int64())+btoa(g.Call("verifMake", "zero").Bool())+btoa(g.Call("verifMake", "empty").Bool())+btoa(g.Call("verifMake", "ascii").Bool())+g.Call("verifMake", "true").String())
`)
	exp = append(exp, "C11/accessors 0f3fe00000000000000.5T90071992547409919007199254740991-7-7FFTtrue")
	// identity: *js.Object passthrough, the same Go function externalises to the same JS function
	w(`	ob := g.Get("Object").New()
	same := g.Call("verifEcho", ob)
	fn := func(a int) int { return a + 1 }
	g.Set("f1", fn)
	g.Set("f2", fn)
	other := func(a int) int { return a + 1 }
	g.Set("f3", other)
	o("identity", btoa(same == ob)+btoa(g.Call("verifSame", ob, same).Bool())+btoa(g.Call("verifSame", g.Get("f1"), g.Get("f2")).Bool())+btoa(g.Call("verifSame", g.Get("f1"), g.Get("f3")).Bool())+btoa(g.Call("verifSame", fn, fn).Bool()))
	// the same Go function under a named function type, inside an interface, a slice and a map
	var named listener = fn
	g.Set("f4", named)
	var boxed interface{} = fn
	g.Set("f5", boxed)
	g.Set("f6", []interface{}{fn})
	g.Set("f7", js.M{"h": fn})
	g.Set("f8", listener(fn))
	o("identity2", btoa(g.Call("verifSame", g.Get("f1"), g.Get("f4")).Bool())+btoa(g.Call("verifSame", g.Get("f1"), g.Get("f5")).Bool())+btoa(g.Call("verifSame", g.Get("f1"), g.Get("f6").Index(0)).Bool())+btoa(g.Call("verifSame", g.Get("f1"), g.Get("f7").Get("h")).Bool())+btoa(g.Call("verifSame", g.Get("f4"), g.Get("f8")).Bool())+btoa(g.Call("verifSame", named, fn).Bool())+itoa(int64(g.Call("f4", 1).Int())))
`)
	exp = append(exp, "C11/identity TTTFT", "C11/identity2 TTTTTT2")
	// exposed functions: arguments and results are converted, variadic, multiple results, this
	w(`	g.Set("goAdd", func(a int, b float64, s string, ok bool) string { return itoa(int64(a)) + ftoa(b) + s + btoa(ok) })
	g.Set("goVar", func(prefix string, rest ...int) int { t := len(prefix); for _, r := range rest { t += r }; return t })
	g.Set("goAny", func(xs ...interface{}) int { return len(xs) })
	g.Set("goSlice", func(b []uint8, m map[string]interface{}) int { return len(b) + len(m) })
	g.Set("goObj", func(x *js.Object) *js.Object { return x.Get("k") })
	g.Set("goNoResult", func() {})
	g.Set("goMake", js.MakeFunc(func(this *js.Object, args []*js.Object) interface{} { return len(args) + this.Get("base").Int() }))
	o("expose", g.Call("verifCall", "goAdd", 3, 1.5, "é", true).String()+"|"+g.Call("verifCall", "goVar", "ab", 1, 2, 3).String()+"|"+g.Call("verifCall", "goAny", 1, "x", nil).String()+"|"+g.Call("verifCallWith", "goSlice").String()+"|"+g.Call("verifCallWith", "goObj").String()+"|"+g.Call("verifCall", "goNoResult").String()+"|"+g.Call("verifCallWith", "goMake").String())
`)
	exp = append(exp, "C11/expose string:0033,0066,0033,0066,0066,0038,0030,0030,0030,0030,0030,0030,0030,0030,0030,0030,0030,0030,00e9,0054|number:8|number:3|number:5|string:0076|undefined|number:12")
	// struct wrapping a JavaScript object: js-tagged fields read and write through to the object
	w(`	raw := g.Call("verifMake", "wrapped")
	wr := &wrapper{Object: raw}
	before := wr.Name + itoa(int64(wr.Count)) + ftoa(wr.Ratio) + btoa(wr.Flag) + wr.Inner.Label + itoa(int64(wr.Fn(4)))
	wr.Name = "né"
	wr.Count = -3
	wr.Ratio = 2.5
	wr.Flag = false
	wr.Inner.Label = "changed"
	o("wrapper", before+"|"+g.Call("verifProbe", raw).String()+"|"+g.Call("verifProbe", wr).String()[:6]+btoa(g.Call("verifSame", wr, raw).Bool()))
`)
	exp = append(exp, "C11/wrapper nm7f3ff8000000000000Tlab8|Object:{count=number:-3,flag=boolean:false,fn=function,inner=Object:{label=string:0063,0068,0061,006e,0067,0065,0064},name=string:006e,00e9,ratio=number:2.5}|ObjectT")
	w(`// js-tagged function fields keep the wrapped object as "this", called directly or taken as a value first
	cn := &counter{Object: g.Call("verifMake", "counter")}
	add := cn.Add
	join := cn.Join
	o("method-this", itoa(int64(cn.Add(1)))+"|"+itoa(int64(add(2)))+"|"+itoa(int64(apply(cn.Add, 3)))+"|"+cn.Join("a", "b")+"|"+join("c")+"|"+join([]string{"d", "e"}...)+"|"+itoa(int64(cn.Base)))
	// typed accessors, parameters of exposed functions and js-tagged fields apply the documented JavaScript conversions to non-numbers
	g.Set("goF", func(x float64) string { return ftoa(x) })
	g.Set("goI", func(x int) string { return itoa(int64(x)) })
	nonNumbers := g.Call("verifMake", "nonnumbers")
	for i := 0; i < nonNumbers.Length(); i++ {
		x := nonNumbers.Index(i)
		id := "nonnumber/" + itoa(int64(i))
		wantF := ftoa(g.Call("verifParseFloat", x).Float())
		wantI := itoa(int64(g.Call("verifParseInt32", x).Int()))
		cn.Object.Set("width", x)
		res := ""
		if got := ftoa(x.Float()); got != wantF {
			res += "Float()=" + got + " want " + wantF + ";"
		}
		if got := itoa(int64(x.Int())); got != wantI {
			res += "Int()=" + got + " want " + wantI + ";"
		}
		if got := g.Call("goF", x).String(); got != wantF {
			res += "func(float64) got " + got + " want " + wantF + ";"
		}
		if got := g.Call("goI", x).String(); got != wantI {
			res += "func(int) got " + got + " want " + wantI + ";"
		}
		if got := ftoa(cn.Width); got != wantF {
			res += "float64 field=" + got + " want " + wantF + ";"
		}
		if got := btoa(x.Bool()); got != btoa(g.Call("verifTruthy", x).Int() == 1) {
			res += "Bool()=" + got + ";"
		}
		if got := x.String(); got != g.Call("verifString", x).String() {
			res += "String()=" + got + ";"
		}
		if res == "" {
			res = "ok"
		}
		o(id, res)
	}
`)
	// deferred and go'd calls of js.Object methods (they are wrapped in a proxy function), variadic ones with and without "..."
	w(`	{
		arr := g.Get("Array").New()
		ob := g.Get("Object").New()
		xs := []interface{}{7, "eight"}
		func() {
			defer arr.Call("push", 1, "two")
			defer arr.Call("push")
			defer arr.Call("push", xs...)
			defer ob.Set("k", "v")
			defer ob.Set("gone", 1)
			defer arr.SetIndex(0, "first")
			defer g.Get("verifProbe").Invoke(1, 2)
			defer g.Get("VerifCtor").New(3)
			arr.Call("push", 0)
		}()
		func() {
			defer ob.Delete("gone")
		}()
		done := make(chan bool)
		go arr.Call("push", "from-go", 9)
		go func() { done <- true }()
		<-done
		o("deferred-js", g.Call("verifProbe", arr).String()+"|"+g.Call("verifProbe", ob).String())
	}
`)
	exp = append(exp, "C11/deferred-js Array:[string:0066,0069,0072,0073,0074,number:7,string:0065,0069,0067,0068,0074,number:1,string:0074,0077,006f,string:0066,0072,006f,006d,002d,0067,006f,number:9]|Object:{k=string:0076}")
	extraSections(w, &exp)
	// blocking Go code called from a JavaScript callback fails with the documented error and leaves the scheduler usable
	w(`	ch := make(chan int)
	g.Set("goBlocks", func() int { return <-ch })
	g.Call("verifLater", "goBlocks") // invoked from a timer callback, i.e. outside any goroutine
	for g.Get("verifLaterResult") == js.Undefined {
		runtime.Gosched()
	}
	msg := g.Get("verifLaterResult").String()
	done := make(chan int)
	go func() { done <- 7 }()
	o("callback-guard", msg+"|"+itoa(int64(<-done)))
	g.Set("goSpawns", func() { go func() { ch <- 5 }() })
	g.Call("verifLater", "goSpawns")
	o("callback-goroutine", itoa(int64(<-ch)))
}
`)
	exp = append(exp, "C11/method-this 6|7|8|5:a,b|5:c|5:d,e|5")
	for i := 0; i < NonNumbers; i++ {
		exp = append(exp, fmt.Sprintf("C11/nonnumber/%d ok", i))
	}
	exp = append(exp, "C11/callback-guard runtime error: cannot block in JavaScript callback, fix by wrapping code in goroutine|7", "C11/callback-goroutine 5")
	return diffrun.Program{Name: "c11_js", Files: map[string]string{"main.go": b.String()}, NoNative: true, Expect: exp}
}
