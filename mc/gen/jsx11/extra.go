package jsx11

import (
	"fmt"
	"strings"
)

// Sections added for object graphs with sharing and cycles, for the single evaluation of the receiver
// expression of every js.Object method, and for wrappers handed back to Go.

const header2 = `
func sortedKeys(m map[string]interface{}) []string {
	var ks []string
	for k := range m {
		ks = append(ks, k)
	}
	for i := 1; i < len(ks); i++ {
		for j := i; j > 0 && ks[j] < ks[j-1]; j-- {
			ks[j], ks[j-1] = ks[j-1], ks[j]
		}
	}
	return ks
}

// deep describes a value internalised through Interface(), following nested values d levels down.
func deep(x interface{}, d int) string {
	switch v := x.(type) {
	case nil:
		return "nil"
	case float64:
		return "n" + itoa(int64(v*10))
	case string:
		return "s:" + v
	case map[string]interface{}:
		if d == 0 {
			return "map.."
		}
		s := "map{"
		for i, k := range sortedKeys(v) {
			if i > 0 {
				s += ","
			}
			s += k + "=" + deep(v[k], d-1)
		}
		return s + "}"
	case []interface{}:
		if d == 0 {
			return "arr.."
		}
		s := "arr["
		for i, e := range v {
			if i > 0 {
				s += ","
			}
			s += deep(e, d-1)
		}
		return s + "]"
	}
	return "other"
}

type pairFI struct {
	A map[string]float64
	B map[string]interface{}
}
type pairIF struct {
	A map[string]interface{}
	B map[string]float64
}
type pairSF struct {
	A map[string]string
	B map[string]float64
}
type pairAny struct {
	A interface{}
	B map[string]float64
}

func anyX(m map[string]interface{}) string {
	v, ok := m["x"].(float64)
	return btoa(ok) + ftoa(v) + "#" + itoa(int64(len(m)))
}
func fltX(m map[string]float64) string { return ftoa(m["x"]) + "#" + itoa(int64(len(m))) }

var (
	cursor   int
	actors   []*js.Object
	actorMap map[string]*js.Object
)

type holder struct{ o *js.Object }

func next() int         { cursor++; return cursor - 1 }
func key() string       { cursor++; return "a" }
func pick() *js.Object   { cursor++; return actors[0] }
func pobj() **js.Object  { cursor++; return &actors[0] }
func hold() *holder      { cursor++; return &holder{actors[0]} }

type wCelsius float64

func (c wCelsius) Twice() float64 { return float64(c) * 2 }

type wLevel uint8

func (l wLevel) Next() int { return int(l) + 1 }

type wCount int

func (c wCount) Twice() int { return int(c) * 2 }

type wFlag bool

func (f wFlag) Not() bool { return !bool(f) }

type wLabel string

func (l wLabel) Len() int { return len(l) }

type wBig int64

func (b wBig) Low() int { return int(b & 0xff) }

type wStack []int

func (s wStack) Top() int { return s[len(s)-1] }

type wDict map[string]int

func (d wDict) N() int { return len(d) }

type wPoint struct{ X, Y int }

func (p *wPoint) Sum() int { return p.X + p.Y }

type wF32 float32

func (f wF32) Half() float64 { return float64(f) / 2 }
`

func extraSections(w func(string, ...any), exp *[]string) {
	add := func(id, want string) { *exp = append(*exp, "C11/"+id+" "+want) }
	// 1. object graphs: the same JavaScript object reached several times (shared or through a cycle) converts like any other occurrence
	graphs := []struct{ kind, want string }{
		{"tree", "map{a=map{x=n15},b=map{x=n15}}"},
		{"diamond", "map{a=map{x=n15},b=map{x=n15}}"},
		{"selfcycle", "map{n=n10,self=map{n=n10,self=map{n=n10,self=map..}}}"},
		{"twocycle", "map{n=n10,o=map{n=n20,o=map{n=n10,o=map..}}}"},
		{"mixed", "arr[map{x=n15},map{x=n15},map{inner=map{x=n15}}]"},
		{"sharedarray", "map{p=arr[n10,n20],q=arr[n10,n20]}"},
		{"deepshared", "map{l=map{m=map{v=s:L}},r=map{m=map{v=s:L}},t=map{v=s:L}}"},
	}
	w("\tfor _, kind := range []string{")
	for _, gr := range graphs {
		w("%q, ", gr.kind)
		add("graph/"+gr.kind, gr.want)
	}
	w("} {\n\t\to(\"graph/\"+kind, deep(g.Call(\"verifGraph\", kind).Interface(), 3))\n\t}\n")
	w(`	g.Set("goPairFI", func(p pairFI) string { return fltX(p.A) + "/" + anyX(p.B) })
	g.Set("goPairIF", func(p pairIF) string { return anyX(p.A) + "/" + fltX(p.B) })
	g.Set("goPairSF", func(p pairSF) string { return p.A["x"] + "/" + fltX(p.B) })
	g.Set("goPairAny", func(p pairAny) string { return deep(p.A, 2) + "/" + fltX(p.B) })
	g.Set("goPairPtr", func(p *pairFI) string { return fltX(p.A) + "/" + anyX(p.B) })
	g.Set("goPairMap", func(p map[string]pairIF) string { return anyX(p["k"].A) + "/" + fltX(p["k"].B) })
	g.Set("goTwoArgs", func(a map[string]float64, b map[string]interface{}) string { return fltX(a) + "/" + anyX(b) })
	g.Set("goTwoArgsRev", func(a map[string]interface{}, b map[string]float64) string { return anyX(a) + "/" + fltX(b) })
	for _, kind := range []string{"distinct", "shared", "shared-reversed"} {
		for _, fn := range []string{"goPairFI", "goPairIF", "goPairSF", "goPairAny", "goPairPtr"} {
			o("graph-typed/"+fn+"/"+kind, g.Call("verifPairCall", fn, kind).String())
		}
		o("graph-typed/goPairMap/"+kind, g.Call("verifPairCall", "goPairMap", "map-"+kind).String())
	}
	o("graph-typed/goTwoArgs", g.Call("verifTwoArgs", "goTwoArgs").String())
	o("graph-typed/goTwoArgsRev", g.Call("verifTwoArgs", "goTwoArgsRev").String())
`)
	const f15 = "f3ff8000000000000"
	for _, kind := range []string{"distinct", "shared", "shared-reversed"} {
		add("graph-typed/goPairFI/"+kind, f15+"#1/T"+f15+"#1")
		add("graph-typed/goPairIF/"+kind, "T"+f15+"#1/"+f15+"#1")
		add("graph-typed/goPairSF/"+kind, "1.5/"+f15+"#1")
		add("graph-typed/goPairAny/"+kind, "map{x=n15}/"+f15+"#1")
		add("graph-typed/goPairPtr/"+kind, f15+"#1/T"+f15+"#1")
		add("graph-typed/goPairMap/"+kind, "T"+f15+"#1/"+f15+"#1")
	}
	add("graph-typed/goTwoArgs", f15+"#1/T"+f15+"#1")
	add("graph-typed/goTwoArgsRev", "T"+f15+"#1/"+f15+"#1")

	// 2. the receiver expression of a js.Object method is evaluated exactly once
	w(`	{
		as := g.Call("verifMake", "actors")
		for i := 0; i < as.Length(); i++ {
			actors = append(actors, as.Index(i))
		}
		actorMap = map[string]*js.Object{"a": actors[0], "b": actors[1]}
		args := []interface{}{"x", 7}
		mname := "who"
		_ = mname
`)
	recvs := []struct{ name, text string }{
		{"index", "actors[next()]"}, {"mapkey", "actorMap[key()]"}, {"call", "pick()"}, {"deref", "(*pobj())"}, {"field", "hold().o"},
	}
	forms := []struct{ name, text, want string }{
		{"call-fixed", `R.Call("who", "x", 7).String()`, "first:x,7"},
		{"call-spread", `R.Call("who", args...).String()`, "first:x,7"},
		{"call-dyn-fixed", `R.Call(mname, "x", 7).String()`, "first:x,7"},
		{"call-dyn-spread", `R.Call(mname, args...).String()`, "first:x,7"},
		{"call-noargs", `R.Call("who").String()`, "first:"},
		{"get", `R.Get("name").String()`, "first"},
		{"invoke-spread", `R.Get("fn").Invoke(args...).String()`, "fn:x,7"},
		{"invoke-fixed", `R.Get("fn").Invoke("x", 7).String()`, "fn:x,7"},
		{"new-spread", `R.Get("Ctor").New(args...).Get("d").String()`, "new:x,7"},
		{"new-fixed", `R.Get("Ctor").New("x", 7).Get("d").String()`, "new:x,7"},
		{"length", `itoa(int64(R.Get("list").Length()))`, "3"},
		{"index", `R.Get("list").Index(1).String()`, "2"},
		{"set", `func() string { R.Set("tmp", 5); return itoa(int64(actors[0].Get("tmp").Int())) }()`, "5"},
		{"setindex", `func() string { R.SetIndex(9, 6); return itoa(int64(actors[0].Index(9).Int())) }()`, "6"},
		{"delete", `func() string { R.Delete("tmp"); return btoa(actors[0].Get("tmp") == js.Undefined) }()`, "T"},
		{"bool", `btoa(R.Bool())`, "T"},
		{"string", `R.String()`, "[object Object]"},
		{"deferred-spread", `func() (s string) { defer func() { s = actors[0].Get("last").String() }(); defer R.Call("remember", args...); return }()`, "first:x,7"},
		{"deferred-fixed", `func() (s string) { defer func() { s = actors[0].Get("last").String() }(); defer R.Call("remember", "y"); return }()`, "first:y"},
	}
	for _, r := range recvs {
		for _, f := range forms {
			id := "receiver-once/" + r.name + "/" + f.name
			w("\t\tcursor = 0\n\t\to(%q, %s+\"|\"+itoa(int64(cursor)))\n", id, strings.ReplaceAll(f.text, "R", r.text))
			add(id, f.want+"|1")
		}
	}
	w("\t}\n")

	// 3. a wrapper made by MakeWrapper / MakeFullWrapper that comes back into Go is the wrapped value again
	wr := []struct{ name, typ, val, show, want, method, mwant string }{
		{"float64", "wCelsius", "wCelsius(100)", "ftoa(float64(x))", "f4059000000000000", `Call("Twice").Float() == 200`, "T"},
		{"float32", "wF32", "wF32(0.5)", "ftoa(float64(x))", "f3fe0000000000000", `Call("Half").Float() == 0.25`, "T"},
		{"uint8", "wLevel", "wLevel(41)", "itoa(int64(x))", "41", `Call("Next").Int() == 42`, "T"},
		{"int", "wCount", "wCount(-7)", "itoa(int64(x))", "-7", `Call("Twice").Int() == -14`, "T"},
		{"bool", "wFlag", "wFlag(true)", "btoa(bool(x))", "T", `Call("Not").Bool() == false`, "T"},
		{"string", "wLabel", `wLabel("né")`, "quote(string(x))", `"n\xc3\xa9"`, `Call("Len").Int() == 3`, "T"},
		{"int64", "wBig", "wBig(1<<40 + 5)", "itoa(int64(x))", "1099511627781", `Call("Low").Int() == 5`, "T"},
		{"slice", "wStack", "wStack{1, 2, 3}", "itoa(int64(len(x)))+itoa(int64(x[2]))", "33", `Call("Top").Int() == 3`, "T"},
		{"map", "wDict", `wDict{"a": 1}`, `itoa(int64(len(x)))+itoa(int64(x["a"]))`, "11", `Call("N").Int() == 1`, "T"},
	}
	w("\t{\n")
	for _, e := range wr {
		for _, mk := range []string{"MakeWrapper", "MakeFullWrapper"} {
			id := "wrapper-back/" + mk + "/" + e.name
			w("\t\t{\n\t\t\torig := %s\n\t\t\twrp := js.%s(orig)\n", e.val, mk)
			w("\t\t\tg.Set(\"goBack\", func(x %s) string { return %s })\n", e.typ, e.show)
			w("\t\t\tg.Set(\"goBackAny\", func(i interface{}) string { x, ok := i.(%s); if !ok { return \"not a %s\" }; return %s })\n", e.typ, e.typ, e.show)
			w("\t\t\to(%q, g.Call(\"goBack\", wrp).String()+\"|\"+g.Call(\"goBackAny\", wrp).String()+\"|\"+btoa(wrp.%s))\n\t\t}\n", id, e.method)
			add(id, fmt.Sprintf("%s|%s|%s", e.want, e.want, e.mwant))
		}
	}
	w(`		pt := &wPoint{3, 4}
		for i, wrp := range []*js.Object{js.MakeWrapper(pt), js.MakeFullWrapper(pt)} {
			g.Set("goBack", func(q *wPoint) string { return btoa(q == pt) })
			g.Set("goBackAny", func(i interface{}) string { q, ok := i.(*wPoint); return btoa(ok && q == pt) })
			o("wrapper-back/pointer/"+itoa(int64(i)), g.Call("goBack", wrp).String()+g.Call("goBackAny", wrp).String()+itoa(int64(wrp.Call("Sum").Int())))
		}
	}
`)
	add("wrapper-back/pointer/0", "TT7")
	add("wrapper-back/pointer/1", "TT7")
}
