// Package num generates the C06 explorer programs: for every numeric type and
// operator the program loops over an exhaustive (8-bit) or boundary-grid value
// space and prints one digest line per (type, op, shape, row).
package num

import (
	"fmt"
	"math"
	"math/big"
	"sort"
	"strings"

	"verif/mc/diffrun"
)

type ityp struct {
	Name   string // Go type name as used in the program
	Bits   int
	Signed bool
}

var ityps = []ityp{
	{"int8", 8, true}, {"int16", 16, true}, {"int32", 32, true}, {"int64", 64, true},
	{"uint8", 8, false}, {"uint16", 16, false}, {"uint32", 32, false}, {"uint64", 64, false},
	{"Int", 32, true}, {"Uint", 32, false}, {"Uintptr", 32, false},
}

func (t ityp) min() *big.Int {
	if !t.Signed {
		return big.NewInt(0)
	}
	return new(big.Int).Neg(new(big.Int).Lsh(big.NewInt(1), uint(t.Bits-1)))
}

func (t ityp) max() *big.Int {
	b := t.Bits
	if t.Signed {
		b--
	}
	return new(big.Int).Sub(new(big.Int).Lsh(big.NewInt(1), uint(b)), big.NewInt(1))
}

func (t ityp) in(v *big.Int) bool { return v.Cmp(t.min()) >= 0 && v.Cmp(t.max()) <= 0 }

// grid returns the boundary grid for the type (all values for 8 bit when full).
func (t ityp) grid(full8 bool) []*big.Int {
	set := map[string]*big.Int{}
	add := func(v *big.Int) {
		if t.in(v) {
			set[v.String()] = new(big.Int).Set(v)
		}
	}
	if t.Bits == 8 && full8 {
		for i := -128; i < 256; i++ {
			add(big.NewInt(int64(i)))
		}
	} else {
		for _, s := range []int64{0, 1, 2, 3, 5, 7, 10, 100, 127, 128, 255, 256, 1000, 12345, 46341, 46340, 65535, 65536, 65537, 0x12345678, 0x7fffffff} {
			add(big.NewInt(s))
			add(big.NewInt(-s))
		}
		for _, k := range []uint{7, 8, 15, 16, 23, 24, 30, 31, 32, 33, 47, 48, 52, 53, 54, 62, 63, 64} {
			p := new(big.Int).Lsh(big.NewInt(1), k)
			for _, d := range []int64{-1, 0, 1} {
				v := new(big.Int).Add(p, big.NewInt(d))
				add(v)
				add(new(big.Int).Neg(v))
			}
		}
		for _, h := range []string{"5555555555555555", "aaaaaaaaaaaaaaaa", "0f0f0f0f0f0f0f0f", "123456789abcdef0", "fedcba9876543210", "00000000ffffffff", "ffffffff00000000", "0000000100000000", "00000000fffffffe", "7fffffff80000000", "8000000080000000", "deadbeefcafebabe"} {
			v, _ := new(big.Int).SetString(h, 16)
			// truncate to width, interpret in both signednesses
			mask := new(big.Int).Sub(new(big.Int).Lsh(big.NewInt(1), uint(t.Bits)), big.NewInt(1))
			w := new(big.Int).And(v, mask)
			add(w)
			add(new(big.Int).Sub(w, new(big.Int).Lsh(big.NewInt(1), uint(t.Bits))))
			w2 := new(big.Int).And(new(big.Int).Rsh(v, uint(64-t.Bits)), mask)
			add(w2)
			add(new(big.Int).Sub(w2, new(big.Int).Lsh(big.NewInt(1), uint(t.Bits))))
		}
		add(t.min())
		add(new(big.Int).Add(t.min(), big.NewInt(1)))
		add(t.max())
		add(new(big.Int).Sub(t.max(), big.NewInt(1)))
	}
	var res []*big.Int
	for _, v := range set {
		res = append(res, v)
	}
	sort.Slice(res, func(i, j int) bool { return res[i].Cmp(res[j]) < 0 })
	return res
}

// lit renders v as a Go expression of type t built at run time (no constant
// overflow problems): a conversion of an untyped constant that fits.
func (t ityp) lit(v *big.Int) string {
	if t.Signed && v.Cmp(t.min()) == 0 {
		// -128 etc. fits as a constant conversion
		return fmt.Sprintf("%s(%s)", t.Name, v.String())
	}
	return fmt.Sprintf("%s(%s)", t.Name, v.String())
}

type binop struct{ Name, Tok string }

var arith = []binop{{"add", "+"}, {"sub", "-"}, {"mul", "*"}, {"and", "&"}, {"or", "|"}, {"xor", "^"}, {"andnot", "&^"}}
var divs = []binop{{"quo", "/"}, {"rem", "%"}}
var cmps = []binop{{"eq", "=="}, {"ne", "!="}, {"lt", "<"}, {"le", "<="}, {"gt", ">"}, {"ge", ">="}}

func conv64(t ityp, e string) string {
	if t.Signed {
		return "uint64(int64(" + e + "))"
	}
	return "uint64(" + e + ")"
}

// IntProgram builds the explorer program for one integer type.
func IntProgram(t ityp, thorough bool) diffrun.Program {
	var b strings.Builder
	T := t.Name
	id := "C06/" + T
	w := func(f string, a ...any) { fmt.Fprintf(&b, f, a...) }
	w("package main\n\nimport \"math\"\n\n")
	grid := t.grid(true)
	if t.Bits == 16 && thorough {
		// exhaustive 16-bit rows for the division/shift ops are handled via stride loops below
	}
	w("var grid = []%s{", T)
	for i, v := range grid {
		if i%8 == 0 {
			w("\n\t")
		}
		w("%s, ", v.String())
	}
	w("\n}\n\n")
	// vv functions
	for _, op := range append(append([]binop{}, arith...), divs...) {
		w("func %s_vv(x, y %s) %s { return x %s y }\n", op.Name, T, T, op.Tok)
		w("func %s_as(x, y %s) %s { x %s= y; return x }\n", op.Name, T, T, op.Tok)
		if op.Name != "quo" && op.Name != "rem" {
			w("func %s_asn(x, y %s) %s { z := x; z %s= y - x; z %s= y + x; z %s= x | 1; return z }\n", op.Name, T, T, op.Tok, op.Tok, op.Tok)
		}
	}
	for _, op := range cmps {
		w("func %s_vv(x, y %s) bool { return x %s y }\n", op.Name, T, op.Tok)
	}
	// nested shapes: intermediate results must be wrapped before further use
	nestOps := []binop{{"add", "+"}, {"sub", "-"}, {"mul", "*"}, {"xor", "^"}, {"or", "|"}, {"andnot", "&^"}}
	for _, op := range nestOps {
		w("func %s_n1(x, y %s) %s { return (x %s y) >> 1 }\n", op.Name, T, T, op.Tok)
		w("func %s_n2(x, y %s) %s { return (x %s y) / 3 }\n", op.Name, T, T, op.Tok)
		w("func %s_n3(x, y %s) bool { return (x %s y) < y }\n", op.Name, T, op.Tok)
		w("func %s_n4(x, y %s) uint64 { return %s }\n", op.Name, T, conv64(t, "x "+op.Tok+" y"))
		w("func %s_n5(x, y %s) float64 { return float64(x %s y) }\n", op.Name, T, op.Tok)
		w("func %s_n6(x, y %s) %s { return x %s y %s x }\n", op.Name, T, T, op.Tok, op.Tok)
		w("func %s_n7(x, y %s) %s { return x - (y %s x) }\n", op.Name, T, T, op.Tok)
		w("func %s_n8(x, y %s) %s { return -(x %s y) }\n", op.Name, T, T, op.Tok)
		w("func %s_n9(x, y %s) %s { return ^(x %s y) %% 7 }\n", op.Name, T, T, op.Tok)
	}
	w("func neg_v(x %s) %s { return -x }\n", T, T)
	w("func com_v(x %s) %s { return ^x }\n", T, T)
	w("func pos_v(x %s) %s { return +x }\n", T, T)
	w("func negneg_v(x %s) %s { return -(-x) }\n", T, T)
	w("func inc_v(x %s) %s { x++; return x }\n", T, T)
	w("func dec_v(x %s) %s { x--; return x }\n", T, T)
	w("func negq_v(x %s) %s { return -x / 3 }\n", T, T)
	// shifts by variable counts of several types
	for _, ct := range []string{"uint8", "uint32", "uint64", "Uint", "Int", "int64"} {
		w("func shl_%s(x %s, s %s) %s { return x << s }\n", ct, T, ct, T)
		w("func shr_%s(x %s, s %s) %s { return x >> s }\n", ct, T, ct, T)
		w("func shlas_%s(x %s, s %s) %s { x <<= s; return x }\n", ct, T, ct, T)
		w("func shras_%s(x %s, s %s) %s { x >>= s; return x }\n", ct, T, ct, T)
	}
	// constant shift counts
	ccounts := []int{0, 1, 7, 8, 15, 16, 31, 32, 33, 63, 64, 65}
	w("var shlc = []func(%s) %s{\n", T, T)
	for _, c := range ccounts {
		w("\tfunc(x %s) %s { return x << %d },\n", T, T, c)
	}
	w("}\nvar shrc = []func(%s) %s{\n", T, T)
	for _, c := range ccounts {
		w("\tfunc(x %s) %s { return x >> %d },\n", T, T, c)
	}
	w("}\n")
	// const operand shapes on an 8-value sub grid
	sub := subGrid(t)
	allb := append(append([]binop{}, arith...), divs...)
	for _, op := range allb {
		w("var %s_cv = []func(%s) %s{\n", op.Name, T, T)
		for _, c := range sub {
			w("\tfunc(y %s) %s { return %s %s y },\n", T, T, t.lit(c), op.Tok)
		}
		w("}\nvar %s_vc = []func(%s) %s{\n", op.Name, T, T)
		for _, c := range sub {
			if (op.Name == "quo" || op.Name == "rem") && c.Sign() == 0 {
				w("\tnil,\n")
				continue
			}
			w("\tfunc(x %s) %s { return x %s %s },\n", T, T, op.Tok, t.lit(c))
		}
		w("}\n")
	}
	for _, op := range cmps {
		w("var %s_cv = []func(%s) bool{\n", op.Name, T)
		for _, c := range sub {
			w("\tfunc(y %s) bool { return %s %s y },\n", T, t.lit(c), op.Tok)
		}
		w("}\n")
	}
	// folded constants: both operands constant, only where Go accepts it (no overflow)
	w("var cc = []struct{ id string; v uint64 }{\n")
	for _, op := range allb {
		for i, c1 := range sub {
			for j, c2 := range sub {
				if r, ok := foldInt(t, op.Name, c1, c2); ok {
					_ = r
					w("\t{\"%s/cc/%d,%d\", uint64(u(%s))},\n", op.Name, i, j, fmt.Sprintf("%s %s %s", t.lit(c1), op.Tok, t.lit(c2)))
				}
			}
		}
	}
	w("}\n")
	w("var sub = []%s{", T)
	for _, c := range sub {
		w("%s, ", c.String())
	}
	w("}\n\n")
	utype, uexpr, dm := "uint64", conv64(t, "x"), "u64"
	if t.Bits <= 32 {
		utype, uexpr, dm = "uint32", "uint32(x)", "w"
	}
	w(`
func u(x %[1]s) %[5]s { return %[2]s }
func bu(b bool) uint32 { if b { return 1 }; return 0 }

func divzero(f func() %[1]s) (res string) {
	defer func() { res = errClass(recover()) }()
	return "noerr:" + hex(uint64(u(f())))
}

var zero %[1]s

func main() {
	id := "%[3]s/"
	for _, x := range grid {
		xs := itoa(int64(x))
		if !%[4]v { xs = utoa(uint64(x)) }
`, T, uexpr, id, t.Signed, utype)
	for _, op := range arith {
		w("\t\t{ d := newDigest(); for _, y := range grid { d.DM(u(%s_vv(x, y))) }; println(id+\"%s/vv/x=\"+xs, d.String()) }\n", op.Name, op.Name)
		w("\t\t{ d := newDigest(); for _, y := range grid { d.DM(u(%s_as(x, y))) }; println(id+\"%s/as/x=\"+xs, d.String()) }\n", op.Name, op.Name)
		w("\t\t{ d := newDigest(); for _, y := range grid { d.DM(u(%s_asn(x, y))) }; println(id+\"%s/asn/x=\"+xs, d.String()) }\n", op.Name, op.Name)
	}
	for _, op := range divs {
		w("\t\t{ d := newDigest(); for _, y := range grid { if y != 0 { d.DM(u(%s_vv(x, y))) } }; println(id+\"%s/vv/x=\"+xs, d.String()) }\n", op.Name, op.Name)
		w("\t\t{ d := newDigest(); for _, y := range grid { if y != 0 { d.DM(u(%s_as(x, y))) } }; println(id+\"%s/as/x=\"+xs, d.String()) }\n", op.Name, op.Name)
		w("\t\tprintln(id+\"%s/zero/x=\"+xs, divzero(func() %s { return %s_vv(x, zero) }))\n", op.Name, T, op.Name)
	}
	for _, op := range cmps {
		w("\t\t{ d := newDigest(); for _, y := range grid { d.w(bu(%s_vv(x, y))) }; println(id+\"%s/vv/x=\"+xs, d.String()) }\n", op.Name, op.Name)
	}
	for _, op := range nestOps {
		for k, kind := range []string{"u", "u", "b", "r", "f", "u", "u", "u", "u"} {
			var call string
			switch kind {
			case "u":
				call = fmt.Sprintf("d.DM(u(%s_n%d(x, y)))", op.Name, k+1)
			case "b":
				call = fmt.Sprintf("d.w(bu(%s_n%d(x, y)))", op.Name, k+1)
			case "r":
				call = fmt.Sprintf("d.u64(%s_n%d(x, y))", op.Name, k+1)
			case "f":
				call = fmt.Sprintf("d.u64(math.Float64bits(%s_n%d(x, y)))", op.Name, k+1)
			}
			w("\t\t{ d := newDigest(); for _, y := range grid { %s }; println(id+\"%s/n%d/x=\"+xs, d.String()) }\n", call, op.Name, k+1)
		}
	}
	w("\t\tprintln(id+\"unary/x=\"+xs, hex(uint64(u(neg_v(x)))), hex(uint64(u(com_v(x)))), hex(uint64(u(pos_v(x)))), hex(uint64(u(negneg_v(x)))), hex(uint64(u(inc_v(x)))), hex(uint64(u(dec_v(x)))), hex(uint64(u(negq_v(x)))))\n")
	w("\t\t{ d := newDigest(); for s := 0; s < len(shcounts); s++ { c := shcounts[s]\n")
	w("\t\t\td.DM(u(shl_uint64(x, c))); d.DM(u(shr_uint64(x, c))); d.DM(u(shlas_uint64(x, c))); d.DM(u(shras_uint64(x, c)))\n")
	w("\t\t\tif c < 256 { d.DM(u(shl_uint8(x, uint8(c)))); d.DM(u(shr_uint8(x, uint8(c)))); d.DM(u(shlas_uint8(x, uint8(c)))); d.DM(u(shras_uint8(x, uint8(c)))) }\n")
	w("\t\t\tif c < 1<<32 { d.DM(u(shl_uint32(x, uint32(c)))); d.DM(u(shr_uint32(x, uint32(c)))); d.DM(u(shl_Uint(x, Uint(c)))); d.DM(u(shr_Uint(x, Uint(c)))); d.DM(u(shlas_uint32(x, uint32(c)))); d.DM(u(shras_Uint(x, Uint(c)))) }\n")
	w("\t\t\tif c < 1<<31 { d.DM(u(shl_Int(x, Int(c)))); d.DM(u(shr_Int(x, Int(c)))); d.DM(u(shlas_Int(x, Int(c)))); d.DM(u(shras_Int(x, Int(c)))) }\n")
	w("\t\t\tif c < 1<<63 { d.DM(u(shl_int64(x, int64(c)))); d.DM(u(shr_int64(x, int64(c)))) }\n")
	w("\t\t}; println(id+\"shift/var/x=\"+xs, d.String()) }\n")
	w("\t\t{ s := \"\"; for i := range shlc { s += \" \" + hex(uint64(u(shlc[i](x)))) + \",\" + hex(uint64(u(shrc[i](x)))) }; println(id+\"shift/const/x=\"+xs + s) }\n")
	w("\t}\n")
	// const shapes
	w("\tfor i := range sub {\n\t\tis := itoa(int64(i))\n")
	for _, op := range allb {
		guard := ""
		if op.Name == "quo" || op.Name == "rem" {
			guard = "if y != 0 "
		}
		w("\t\t{ d := newDigest(); for _, y := range grid { %s{ d.DM(u(%s_cv[i](y))) } }; println(id+\"%s/cv/c=\"+is, d.String()) }\n", guard, op.Name, op.Name)
		w("\t\tif %s_vc[i] != nil { d := newDigest(); for _, y := range grid { d.DM(u(%s_vc[i](y))) }; println(id+\"%s/vc/c=\"+is, d.String()) }\n", op.Name, op.Name, op.Name)
		// consistency between shapes: const shape must equal variable shape
		w("\t\tfor _, y := range grid { %s{ if %s_cv[i](y) != %s_vv(sub[i], y) { println(id+\"%s/cv-vs-vv/c=\"+is, itoa(int64(y))) } } }\n", guard, op.Name, op.Name, op.Name)
	}
	for _, op := range cmps {
		w("\t\t{ d := newDigest(); for _, y := range grid { d.w(bu(%s_cv[i](y))) }; println(id+\"%s/cv/c=\"+is, d.String()) }\n", op.Name, op.Name)
	}
	w("\t}\n")
	w("\tfor _, c := range cc { println(id+c.id, hex(c.v)) }\n")
	w("}\n\n")
	w("var shcounts = []uint64{")
	for c := 0; c <= 70; c++ {
		w("%d, ", c)
	}
	w("127, 128, 255, 256, 257, 1<<16, 1<<31 - 1, 1<<31, 1<<32 - 1, 1<<32, 1<<32 + 1, 1<<33, 1<<63 - 1, 1<<63, 1<<64 - 1}\n")
	src := strings.ReplaceAll(b.String(), "d.DM(", "d."+dm+"(")
	return diffrun.Program{Name: "c06_" + T, Files: map[string]string{"main.go": src}}
}

func subGrid(t ityp) []*big.Int {
	cands := []*big.Int{big.NewInt(0), big.NewInt(1), big.NewInt(-1), big.NewInt(3), t.min(), t.max(), new(big.Int).Add(t.min(), big.NewInt(1)), new(big.Int).Rsh(t.max(), 1), big.NewInt(-7), big.NewInt(10)}
	var res []*big.Int
	seen := map[string]bool{}
	for _, c := range cands {
		if t.in(c) && !seen[c.String()] {
			seen[c.String()] = true
			res = append(res, c)
		}
	}
	if len(res) > 8 {
		res = res[:8]
	}
	return res
}

func foldInt(t ityp, op string, a, b *big.Int) (*big.Int, bool) {
	r := new(big.Int)
	switch op {
	case "add":
		r.Add(a, b)
	case "sub":
		r.Sub(a, b)
	case "mul":
		r.Mul(a, b)
	case "quo":
		if b.Sign() == 0 {
			return nil, false
		}
		r.Quo(a, b)
	case "rem":
		if b.Sign() == 0 {
			return nil, false
		}
		r.Rem(a, b)
	case "and":
		r.And(a, b)
	case "or":
		r.Or(a, b)
	case "xor":
		r.Xor(a, b)
	case "andnot":
		r.AndNot(a, b)
	}
	return r, t.in(r)
}

// ---- floats ----

func floatGrid64() []float64 {
	vals := []float64{0, math.Copysign(0, -1), 1, -1, 0.5, -0.5, 1.5, -1.5, 2, 3, 10, 0.1, 0.2, 0.3, 1e-10, 1e10, 1e100, 1e-100, 1e300, 1e-300,
		math.MaxFloat64, -math.MaxFloat64, math.SmallestNonzeroFloat64, -math.SmallestNonzeroFloat64,
		math.MaxFloat32, math.SmallestNonzeroFloat32, math.Inf(1), math.Inf(-1), math.NaN(),
		1 << 24, 1<<24 + 1, 1 << 53, 1<<53 + 2, 1<<53 - 1, 1 << 31, 1<<31 - 1, -(1 << 31), 1 << 32, 1 << 63, 1 << 64, 4294967295, 4294967296.5,
		16777217, 16777219, 0.1 + 0.2, 1.0000001, 1.00000001, 3.4028235677973366e38, 3.4028234e38, 1.401298464324817e-45, 7e-46, 2.2250738585072014e-308, 1.1754943508222875e-38,
		123456789.123456789, -987654321.987654321, 2.5, 3.5, -2.5, 0.49999999999999994, 9007199254740993, 1e15 + 0.3, 33554431, 33554433}
	return vals
}

func fl(f float64) string {
	switch {
	case math.IsNaN(f):
		return "nan()"
	case math.IsInf(f, 1):
		return "inf(1)"
	case math.IsInf(f, -1):
		return "inf(-1)"
	case f == 0 && math.Signbit(f):
		return "negzero()"
	}
	return fmt.Sprintf("math.Float64frombits(0x%x)", math.Float64bits(f))
}

// FloatProgram builds the explorer for float32/float64/complex types.
func FloatProgram() diffrun.Program {
	var b strings.Builder
	w := func(f string, a ...any) { fmt.Fprintf(&b, f, a...) }
	w("package main\n\nimport \"math\"\n\n")
	w("func nan() float64 { return math.NaN() }\nfunc inf(s int) float64 { return math.Inf(s) }\nfunc negzero() float64 { return math.Copysign(0, -1) }\n")
	w("var grid = []float64{\n")
	for _, v := range floatGrid64() {
		w("\t%s,\n", fl(v))
	}
	w("}\n")
	for _, T := range []string{"float32", "float64"} {
		for _, op := range []binop{{"add", "+"}, {"sub", "-"}, {"mul", "*"}, {"quo", "/"}} {
			w("func %s_%s(x, y %s) %s { return x %s y }\n", op.Name, T, T, T, op.Tok)
			w("func %sas_%s(x, y %s) %s { x %s= y; return x }\n", op.Name, T, T, T, op.Tok)
			w("func %sasn_%s(x, y %s) %s { z := x; z %s= y - x; z %s= y + x; z %s= y * y; z %s= x / y; return z }\n", op.Name, T, T, T, op.Tok, op.Tok, op.Tok, op.Tok)
			w("func %sn_%s(x, y %s) %s { return (x %s y) * y - x }\n", op.Name, T, T, T, op.Tok)
			w("func %sm_%s(x, y %s) float64 { return float64(x %s y) + 0.5 }\n", op.Name, T, T, op.Tok)
		}
		for _, op := range cmps {
			w("func %s_%s(x, y %s) bool { return x %s y }\n", op.Name, T, T, op.Tok)
		}
		w("func neg_%s(x %s) %s { return -x }\n", T, T, T)
		w("func inc_%s(x %s) %s { x++; return x }\n", T, T, T)
	}
	for _, T := range []string{"complex64", "complex128"} {
		for _, op := range []binop{{"add", "+"}, {"sub", "-"}, {"mul", "*"}, {"quo", "/"}} {
			w("func %s_%s(x, y %s) %s { return x %s y }\n", op.Name, T, T, T, op.Tok)
		}
		w("func eq_%s(x, y %s) bool { return x == y }\n", T, T)
		w("func ne_%s(x, y %s) bool { return x != y }\n", T, T)
		w("func neg_%s(x %s) %s { return -x }\n", T, T, T)
	}
	w(`
func bu(b bool) uint64 { if b { return 1 }; return 0 }
func fb(f float64) uint64 { if f != f { return 0x7ff8000000000001 }; return math.Float64bits(f) }
func gb(f float32) uint64 { if f != f { return 0x7fc00001 }; return uint64(math.Float32bits(f)) }

func main() {
	for i, x := range grid {
		is := itoa(int64(i))
		x32 := float32(x)
		println("C06/float/conv32/i="+is, hex(gb(x32)), hex(fb(float64(x32))))
`)
	for _, op := range []string{"add", "sub", "mul", "quo"} {
		w("\t\t{ d := newDigest(); for _, y := range grid { d.u64(fb(%[1]s_float64(x, y))); d.u64(fb(%[1]sas_float64(x, y))); d.u64(fb(%[1]sasn_float64(x, y))); d.u64(fb(%[1]sn_float64(x, y))); d.u64(fb(%[1]sm_float64(x, y))) }; println(\"C06/float64/%[1]s/i=\"+is, d.String()) }\n", op)
		w("\t\t{ d := newDigest(); for _, y := range grid { y32 := float32(y); d.u64(gb(%[1]s_float32(x32, y32))); d.u64(gb(%[1]sas_float32(x32, y32))); d.u64(gb(%[1]sasn_float32(x32, y32))); d.u64(gb(%[1]sn_float32(x32, y32))); d.u64(fb(%[1]sm_float32(x32, y32))) }; println(\"C06/float32/%[1]s/i=\"+is, d.String()) }\n", op)
	}
	for _, op := range cmps {
		w("\t\t{ d := newDigest(); for _, y := range grid { d.u64(bu(%[1]s_float64(x, y))); d.u64(bu(%[1]s_float32(x32, float32(y)))) }; println(\"C06/float/%[1]s/i=\"+is, d.String()) }\n", op.Name)
	}
	w("\t\tprintln(\"C06/float/unary/i=\"+is, hex(fb(neg_float64(x))), hex(gb(neg_float32(x32))), hex(fb(inc_float64(x))), hex(gb(inc_float32(x32))))\n")
	w("\t}\n")
	// complex: grid of pairs from a smaller float set
	w("\tcg := []float64{0, negzero(), 1, -1, 0.5, 3, -2.5, 1e10, 1e-10, 1e300, inf(1), inf(-1), nan(), 16777217, 0.1}\n")
	w("\tfor i, a := range cg { for j, bb := range cg {\n\t\tis := itoa(int64(i)) + \",\" + itoa(int64(j))\n\t\tx := complex(a, bb); x64 := complex64(x)\n")
	for _, op := range []string{"add", "sub", "mul"} {
		w("\t\t{ d := newDigest(); for _, c := range cg { for _, e := range cg { y := complex(c, e); r := %[1]s_complex128(x, y); d.u64(fb(real(r))); d.u64(fb(imag(r))); r64 := %[1]s_complex64(x64, complex64(y)); d.u64(gb(real(r64))); d.u64(gb(imag(r64))) } }; println(\"C06/complex/%[1]s/x=\"+is, d.String()) }\n", op)
	}
	w("\t\t{ d := newDigest(); for _, c := range cg { for _, e := range cg { y := complex(c, e); d.u64(bu(eq_complex128(x, y))); d.u64(bu(ne_complex128(x, y))); d.u64(bu(eq_complex64(x64, complex64(y)))); d.u64(bu(ne_complex64(x64, complex64(y)))) } }; println(\"C06/complex/cmp/x=\"+is, d.String()) }\n")
	w("\t\t{ r := neg_complex128(x); r64 := neg_complex64(x64); println(\"C06/complex/neg/x=\"+is, hex(fb(real(r))), hex(fb(imag(r))), hex(gb(real(r64))), hex(gb(imag(r64)))) }\n")
	// division: finite, exactly representable quotient cases compared exactly
	w("\t}}\n")
	w("\tfg := []float64{1, -1, 2, 0.5, 3, -4, 8, 0.25}\n")
	w("\tfor i, a := range fg { for j, bb := range fg { d := newDigest(); x := complex(a, bb); for _, c := range fg { y := complex(c, 0); r := quo_complex128(x, y); d.u64(fb(real(r))); d.u64(fb(imag(r))); y2 := complex(0, c); r = quo_complex128(x, y2); d.u64(fb(real(r))); d.u64(fb(imag(r))); r64 := quo_complex64(complex64(x), complex64(y)); d.u64(gb(real(r64))); d.u64(gb(imag(r64))) }; println(\"C06/complex/quo/x=\"+itoa(int64(i))+\",\"+itoa(int64(j)), d.String()) } }\n")
	// constants: every float literal as a typed float32 / float64 / complex64 constant operand on every route
	// (stored, widened, compared with and combined with the same value converted at run time, passed, in literals)
	lits := []string{"0.1", "0.3", "1e-3", "1.0000001", "16777217", "3.4028234e38", "1e-45", "0.5", "1.0 / 3", "-0.7", "123456.789", "2.5e-39", "0.1 + 0.2", "33554433", "1e10", "6.02e23"}
	w("\tlits := []float64{%s}\n", strings.Join(lits, ", "))
	for k, L := range lits {
		L = "(" + L + ")"
		w("\t{\n\t\tconst c32 float32 = %[1]s\n\t\tconst c64 float64 = %[1]s\n\t\tconst cc complex64 = complex(%[1]s, %[1]s)\n\t\tvar v32 float32 = %[1]s\n\t\tr32 := float32(lits[%[2]d])\n\t\tw32 := float32(%[1]s)\n", L, k)
		w("\t\tprintln(\"C06/fconst/stored/k=%d\", hex(gb(c32)), hex(gb(v32)), hex(gb(w32)), hex(fb(float64(c32))), hex(fb(float64(v32))), hex(fb(float64(w32))), hex(fb(c64)), hex(gb(float32(c64))))\n", k)
		w("\t\tprintln(\"C06/fconst/compare/k=%d\", hex(bu(c32 == r32)), hex(bu(v32 == r32)), hex(bu(r32 == %[2]s)), hex(bu(float64(r32) == float64(v32))), hex(bu(r32 < c32)), hex(bu(r32 > c32)), hex(bu(lits[%[1]d] == c64)), hex(bu(float64(r32) == c64)))\n", k, L)
		w("\t\tprintln(\"C06/fconst/arith/k=%d\", hex(fb(float64(v32)+0.5)), hex(gb(c32*r32)), hex(gb(r32+c32)), hex(gb(r32-%[2]s)), hex(gb(%[2]s/r32)), hex(fb(float64(r32)*c64)), hex(fb(float64(v32)*10)))\n", k, L)
		w("\t\tprintln(\"C06/fconst/passed/k=%d\", hex(gb(id32(%[2]s))), hex(fb(wide32(%[2]s))), hex(fb(wide32(c32))), hex(fb(float64([]float32{%[2]s}[0]))), hex(fb(float64([2]float32{1: %[2]s}[1]))), hex(fb(float64(st32{%[2]s}.f))), hex(fb(float64(map[int]float32{1: %[2]s}[1]))), hex(fb(float64(ret32_%[1]d()))))\n", k, L)
		w("\t\tprintln(\"C06/fconst/complex/k=%d\", hex(gb(real(cc))), hex(fb(float64(imag(cc)))), hex(fb(float64(real(complex64(complex(%[2]s, 2)))))), hex(fb(float64(imag(cwide(cc))))), hex(bu(complex(r32, r32) == cc)))\n\t}\n", k, L)
	}
	w("}\n")
	w("type st32 struct{ f float32 }\nfunc id32(x float32) float32 { return x }\nfunc wide32(x float32) float64 { return float64(x) }\nfunc cwide(c complex64) complex128 { return complex128(c) }\n")
	for k, L := range lits {
		w("func ret32_%d() float32 { return %s }\n", k, L)
	}
	return diffrun.Program{Name: "c06_float", Files: map[string]string{"main.go": b.String()}}
}

// ConvProgram: conversions between every ordered pair of numeric types.
func ConvProgram() diffrun.Program {
	var b strings.Builder
	w := func(f string, a ...any) { fmt.Fprintf(&b, f, a...) }
	w("package main\n\nimport \"math\"\n\n")
	w("func nan() float64 { return math.NaN() }\nfunc inf(s int) float64 { return math.Inf(s) }\nfunc negzero() float64 { return math.Copysign(0, -1) }\n")
	w("func fb(f float64) uint64 { if f != f { return 0x7ff8000000000001 }; return math.Float64bits(f) }\nfunc gb(f float32) uint64 { if f != f { return 0x7fc00001 }; return uint64(math.Float32bits(f)) }\n")
	w("var fgrid = []float64{\n")
	for _, v := range floatGrid64() {
		w("\t%s,\n", fl(v))
	}
	for _, v := range []float64{127, 127.9, 128, -128, -128.9, -129, 255, 255.9, 256, 32767, 32767.5, 32768, -32768, -32768.5, 65535, 65535.5, 65536, 2147483647, 2147483647.5, 2147483648, -2147483648, -2147483648.5, -2147483649, 4294967295, 4294967295.5, 4294967296, 9223372036854774784, 9223372036854775808, -9223372036854775808, 18446744073709549568, 18446744073709551616, 0.9, -0.9, 1e18, -1e18, 1e19} {
		w("\t%s,\n", fl(v))
	}
	w("}\n")
	for _, t := range ityps {
		w("var g_%s = []%s{", t.Name, t.Name)
		for _, v := range t.grid(false) {
			w("%s, ", v.String())
		}
		w("}\n")
	}
	w("func main() {\n")
	for _, s := range ityps {
		for _, d := range ityps {
			w("\t{ s := \"\"; dg := newDigest(); for _, x := range g_%s { r := %s(x); dg.u64(%s); _ = s }; println(\"C06/conv/%s-%s\", dg.String()) }\n", s.Name, d.Name, conv64(d, "r"), s.Name, d.Name)
		}
		w("\t{ dg := newDigest(); for _, x := range g_%s { dg.u64(fb(float64(x))); dg.u64(gb(float32(x))); c := complex(float64(x), 0); dg.u64(fb(real(c))) }; println(\"C06/conv/%s-float\", dg.String()) }\n", s.Name, s.Name)
		// per-value lines for the float conversions of wide types (localises a rounding defect)
		if s.Bits >= 32 {
			w("\tfor _, x := range g_%s { println(\"C06/conv/%s-float/x=\"+hex(%s), hex(fb(float64(x))), hex(gb(float32(x)))) }\n", s.Name, s.Name, conv64(s, "x"))
		}
	}
	// float -> int only where the truncated value is representable (otherwise implementation-defined)
	for _, d := range ityps {
		lo, _ := new(big.Float).SetInt(d.min()).Float64()
		hi, _ := new(big.Float).SetInt(d.max()).Float64()
		// hi as float64 may round up (2^63, 2^64): use strict bound hiX = 2^bits(-1)
		hiX := math.Ldexp(1, d.Bits)
		if d.Signed {
			hiX = math.Ldexp(1, d.Bits-1)
		}
		_ = hi
		lower := "f > " + fl(lo-1)
		if d.Bits > 32 {
			lower = "f >= " + fl(lo)
		}
		w("\tfor i, f := range fgrid { if f == f { if %s && f < %s { println(\"C06/conv/float64-%s/i=\"+itoa(int64(i)), hex(%s)) }\n", lower, fl(hiX), d.Name, conv64(d, d.Name+"(f)"))
		w("\t\tg := float32(f); { f := float64(g); if %s && f < %s { println(\"C06/conv/float32-%s/i=\"+itoa(int64(i)), hex(%s)) } } } }\n", lower, fl(hiX), d.Name, conv64(d, d.Name+"(g)"))
	}
	w("\tfor i, f := range fgrid { c := complex(f, -f); c64 := complex64(c); println(\"C06/conv/complex/i=\"+itoa(int64(i)), hex(gb(real(c64))), hex(gb(imag(c64))), hex(fb(real(complex128(c64))))) }\n")
	w("}\n")
	return diffrun.Program{Name: "c06_conv", Files: map[string]string{"main.go": b.String()}}
}

// Programs returns all C06 programs.
func Programs(thorough bool) []diffrun.Program {
	var ps []diffrun.Program
	for _, t := range ityps {
		ps = append(ps, IntProgram(t, thorough))
	}
	ps = append(ps, FloatProgram(), ConvProgram())
	return ps
}
