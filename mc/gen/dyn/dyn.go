// Package dyn generates the C09 programs: method-set universes (every
// receiver-kind assignment of three methods x embedding carriers x all
// interfaces) and type-identity probes across functions and packages.
package dyn

import (
	"fmt"
	"strings"

	"verif/mc/diffrun"
)

var recvKinds = []string{"none", "val", "ptr"}

// universe emits the declarations and the probe function for one method configuration.
func universe(idx int, cfg [3]int) (decl string, call string) {
	s := fmt.Sprint(idx)
	var b strings.Builder
	w := func(f string, a ...any) { fmt.Fprintf(&b, f, a...) }
	T := "T" + s
	w("type %s struct{ n Int }\n", T)
	names := []string{"M", "N", "m"}
	for i, k := range cfg {
		switch recvKinds[k] {
		case "val":
			w("func (t %s) %s() Int { tr(\"%s.%s:\" + itoa(int64(t.n))); t.n += 100; return t.n }\n", T, names[i], T, names[i])
		case "ptr":
			w("func (t *%s) %s() Int { tr(\"*%s.%s:\" + itoa(int64(t.n))); t.n++; return t.n }\n", T, names[i], T, names[i])
		}
	}
	// another type with M only, for ambiguity / shadowing
	w("type U%s struct{ u Int }\nfunc (u U%s) M() Int { tr(\"U%s.M\"); return -1 }\n", s, s, s)
	// carriers
	w("type EV%s struct{ %s }\n", s, T)                  // value embedding
	w("type EP%s struct{ *%s }\n", s, T)                 // pointer embedding
	w("type EI%s struct{ IM }\n", s)                     // interface embedding
	w("type FV%s struct{ EV%s }\n", s, s)                // depth 2, value-value
	w("type FP%s struct{ *EV%s }\n", s, s)               // depth 2, pointer-value
	w("type FPV%s struct{ EP%s }\n", s, s)               // depth 2, value-pointer
	w("type AMB%s struct {\n\t%s\n\tU%s\n}\n", s, T, s)  // M ambiguous at depth 1
	w("type SH%s struct{ %s }\nfunc (x SH%s) M() Int { tr(\"SH%s.M\"); return -2 }\n", s, T, s, s) // shadow at depth 0
	w("type DS%s struct {\n\tEV%s\n\tU%s\n}\n", s, s, s) // U.M at depth 1 shadows T.M at depth 2
	w("type NT%s %s\n", s, T)                            // defined type from T: no methods
	w("type NP%s *%s\n", s, T)                           // defined pointer type: no methods
	w("type AL%s = %s\n", s, T)                          // alias: same type
	w("type PP%s struct{ **%s }\n", s, T)                // hmm: embedded field must be T or *T; replaced below\n")
	decl = strings.Replace(b.String(), fmt.Sprintf("type PP%s struct{ **%s }                // hmm: embedded field must be T or *T; replaced below\\n\")\n", s, T), "", 1)
	// (the PP line is never valid Go; drop it)
	lines := strings.Split(b.String(), "\n")
	var keep []string
	for _, l := range lines {
		if strings.HasPrefix(l, "type PP") {
			continue
		}
		keep = append(keep, l)
	}
	decl = strings.Join(keep, "\n")

	var p strings.Builder
	pw := func(f string, a ...any) { fmt.Fprintf(&p, f, a...) }
	pw("func probe%s() {\n", s)
	pw("\tid := \"C09/u%s.%s%s%s/\"\n", s, recvKinds[cfg[0]], recvKinds[cfg[1]], recvKinds[cfg[2]])
	vals := []struct{ name, expr string }{
		{"T", T + "{1}"}, {"pT", "&" + T + "{2}"},
		{"EV", "EV" + s + "{" + T + "{3}}"}, {"pEV", "&EV" + s + "{" + T + "{4}}"},
		{"EP", "EP" + s + "{&" + T + "{5}}"}, {"pEP", "&EP" + s + "{&" + T + "{6}}"},
		{"EI", "EI" + s + "{im" + s + "()}"}, {"EInil", "EI" + s + "{}"},
		{"FV", "FV" + s + "{EV" + s + "{" + T + "{7}}}"}, {"pFV", "&FV" + s + "{EV" + s + "{" + T + "{8}}}"},
		{"FP", "FP" + s + "{&EV" + s + "{" + T + "{9}}}"}, {"FPV", "FPV" + s + "{EP" + s + "{&" + T + "{10}}}"},
		{"AMB", "AMB" + s + "{" + T + "{11}, U" + s + "{}}"}, {"pAMB", "&AMB" + s + "{" + T + "{12}, U" + s + "{}}"},
		{"SH", "SH" + s + "{" + T + "{13}}"}, {"pSH", "&SH" + s + "{" + T + "{14}}"},
		{"DS", "DS" + s + "{EV" + s + "{" + T + "{15}}, U" + s + "{}}"},
		{"NT", "NT" + s + "{16}"}, {"NP", "NP" + s + "(&" + T + "{17})"}, {"AL", "AL" + s + "{18}"},
		{"ppT", "func() interface{} { p := &" + T + "{19}; return &p }()"},
		{"nilpT", "(*" + T + ")(nil)"},
	}
	pw("\tvals := []struct {\n\t\tname string\n\t\tv    interface{}\n\t}{\n")
	for _, v := range vals {
		pw("\t\t{%q, %s},\n", v.name, v.expr)
	}
	pw("\t}\n")
	pw("\tfor _, x := range vals {\n\t\ttrace = \"\"\n\t\ts := \"\"\n")
	ifaces := []struct {
		name    string
		methods []string
	}{{"IM", []string{"M"}}, {"IN", []string{"N"}}, {"Im", []string{"m"}}, {"IMN", []string{"M", "N"}}, {"IMm", []string{"M", "m"}}, {"INm", []string{"N", "m"}}, {"IMNm", []string{"M", "N", "m"}}, {"IE", []string{"M", "N"}}, {"I0", nil}}
	for _, it := range ifaces {
		pw("\t\tif i, ok := x.v.(%s); ok {\n\t\t\ts += \"%s+\"\n", it.name, it.name)
		if len(it.methods) > 0 && it.name != "IMNm" {
			pw("\t\t\tif x.name != \"EInil\" && x.name != \"nilpT\" {\n")
			for _, m := range it.methods {
				pw("\t\t\t\ti.%s()\n", m)
			}
			pw("\t\t\t}\n")
		} else {
			pw("\t\t\t_ = i\n")
		}
		pw("\t\t} else {\n\t\t\ts += \"%s-\"\n\t\t}\n", it.name)
	}
	// type switch with several case orders
	pw("\t\tswitch x.v.(type) {\n\t\tcase IMN:\n\t\t\ts += \"sw:IMN\"\n\t\tcase IN:\n\t\t\ts += \"sw:IN\"\n\t\tcase IM:\n\t\t\ts += \"sw:IM\"\n\t\tcase %s, *%s:\n\t\t\ts += \"sw:T\"\n\t\tdefault:\n\t\t\ts += \"sw:def\"\n\t\t}\n", T, T)
	pw("\t\tswitch x.v.(type) {\n\t\tcase *%s:\n\t\t\ts += \"/pT\"\n\t\tcase %s:\n\t\t\ts += \"/T\"\n\t\tcase NT%s:\n\t\t\ts += \"/NT\"\n\t\tcase NP%s:\n\t\t\ts += \"/NP\"\n\t\tcase Im:\n\t\t\ts += \"/Im\"\n\t\tcase IM:\n\t\t\ts += \"/IM\"\n\t\t}\n", T, T, s, s)
	pw("\t\tprintln(id+x.name, s, trace)\n\t}\n")
	// receiver sharing through interfaces, method values and expressions
	pw("\ttrace = \"\"\n")
	if recvKinds[cfg[0]] != "none" {
		pw("\t{ t := %s{20}; p := &t; var a interface{} = p; if i, ok := a.(IM); ok { i.M(); i.M() }; f := p.M; p.n = 30; f(); g := (*%s).M; g(p); tr(\"n=\" + itoa(int64(t.n))) }\n", T, T)
		if recvKinds[cfg[0]] == "val" {
			pw("\t{ t := %s{21}; f := t.M; t.n = 31; f(); h := %s.M; h(t); var a interface{} = t; a.(IM).M(); a.(IM).M(); tr(\"n=\" + itoa(int64(t.n))) }\n", T, T)
		}
		pw("\t{ e := EV%s{%s{22}}; f := e.M; e.n = 32; f(); e.M(); pe := &e; pe.M(); tr(\"n=\" + itoa(int64(e.n))) }\n", s, T)
		pw("\t{ e := EP%s{&%s{23}}; f := e.M; e.n = 33; f(); e.M(); var a interface{} = e; a.(IM).M(); tr(\"n=\" + itoa(int64(e.n))) }\n", s, T)
	}
	if recvKinds[cfg[1]] == "ptr" {
		pw("\t{ e := &EV%s{%s{24}}; var a interface{} = e; a.(IN).N(); e.N(); f := e.N; f(); tr(\"n=\" + itoa(int64(e.n))) }\n", s, T)
		pw("\t{ fp := FP%s{&EV%s{%s{25}}}; var a interface{} = fp; if i, ok := a.(IN); ok { i.N(); i.N() }; tr(\"n=\" + itoa(int64(fp.n))) }\n", s, s, T)
	}
	pw("\tprintln(id+\"sharing\", trace)\n")
	pw("}\n\nfunc im%s() IM { return U%s{} }\n", s, s)
	return decl + "\n" + p.String(), "probe" + s + "()"
}

const common = `
var trace string

func tr(s string) { trace += s + ";" }

type IM interface{ M() Int }
type IN interface{ N() Int }
type Im interface{ m() Int }
type IMN interface {
	M() Int
	N() Int
}
type IMm interface {
	M() Int
	m() Int
}
type INm interface {
	N() Int
	m() Int
}
type IMNm interface {
	IMN
	m() Int
}
type IE interface {
	IM
	N() Int
}
type I0 interface{}
`

// UniversePrograms returns the method-set universe programs (27 configurations).
func UniversePrograms() []diffrun.Program {
	var ps []diffrun.Program
	idx := 0
	perProg := 3
	var b strings.Builder
	var calls []string
	flush := func() {
		if len(calls) == 0 {
			return
		}
		src := "package main\n" + common + b.String() + "\nfunc main() {\n"
		for _, c := range calls {
			src += "\t" + c + "\n"
		}
		src += "}\n"
		ps = append(ps, diffrun.Program{Name: fmt.Sprintf("c09_u%02d", len(ps)), Files: map[string]string{"main.go": src}})
		b.Reset()
		calls = nil
	}
	for a := 0; a < 3; a++ {
		for c := 0; c < 3; c++ {
			for d := 0; d < 3; d++ {
				decl, call := universe(idx, [3]int{a, c, d})
				b.WriteString(decl + "\n")
				calls = append(calls, call)
				idx++
				if len(calls) == perProg {
					flush()
				}
			}
		}
	}
	flush()
	return ps
}

// Programs returns all C09 programs.
func Programs() []diffrun.Program {
	return append(UniversePrograms(), IdentityProgram())
}
