package dyn

import (
	"strings"

	"verif/mc/diffrun"
)

const identMain = `package main

import (
	"MOD/a"
	"MOD/b"
	a2 "MOD/x/a"
)

func o(id, s string) { println("C09/ident/"+id, s) }

type T struct{ N Int }
type L struct{ a Int }

func local1() interface{} {
	type L struct{ a Int }
	return L{1}
}

func local2() interface{} {
	type L struct{ a Int }
	return L{1}
}

func localM1() interface{ Name() string } {
	type W struct{ a Int }
	return wrap1{}
}

type wrap1 struct{}

func (wrap1) Name() string { return "wrap1" }

func gen[X any]() interface{} {
	type G struct{ v X }
	return G{}
}

type Box[X any] struct{ v X }

func (b Box[X]) Get() X { return b.v }

type Getter[X any] interface{ Get() X }

func describe(v interface{}) string {
	switch v.(type) {
	case T:
		return "main.T"
	case a.T:
		return "a.T"
	case b.T:
		return "b.T"
	case a2.T:
		return "x/a.T"
	case L:
		return "main.L"
	case []Int:
		return "[]Int"
	case struct{ X Int }:
		return "struct{X}"
	case struct{ x Int }:
		return "struct{x}@main"
	case func():
		return "func()"
	case map[string]Int:
		return "map"
	case *T:
		return "*main.T"
	case Box[Int]:
		return "Box[Int]"
	case Box[string]:
		return "Box[string]"
	case nil:
		return "nil"
	}
	return "other"
}

func eq(x, y interface{}) (res string) {
	defer func() {
		if recover() != nil {
			res = "panic"
		}
	}()
	return btoa(x == y)
}

func main() {
	vals := []struct {
		name string
		v    interface{}
	}{
		{"main.T", T{1}}, {"a.T", a.T{N: 1}}, {"b.T", b.T{N: 1}}, {"x/a.T", a2.T{N: 1}}, {"main.L", L{1}}, {"local1", local1()}, {"local2", local2()},
		{"a.local", a.Local()}, {"b.local", b.Local()}, {"a.slice", a.Slice()}, {"b.slice", b.Slice()}, {"main.slice", []Int{1}},
		{"a.pubstruct", a.PubStruct()}, {"b.pubstruct", b.PubStruct()}, {"main.pubstruct", struct{ X Int }{1}},
		{"a.privstruct", a.PrivStruct()}, {"b.privstruct", b.PrivStruct()}, {"main.privstruct", struct{ x Int }{1}},
		{"gen[Int]", gen[Int]()}, {"gen[Int]#2", gen[Int]()}, {"gen[string]", gen[string]()}, {"gen[int8]", gen[int8]()},
		{"Box[Int]", Box[Int]{1}}, {"Box[string]", Box[string]{"s"}}, {"a.Box[Int]", a.MkBox()}, {"b.a.Box[Int]", b.MkABox()},
		{"*main.T", &T{1}}, {"nil", nil}, {"a.ptr", a.Ptr()}, {"a.fn", a.Fn()}, {"b.fn", b.Fn()}, {"a.map", a.Map()}, {"b.map", b.Map()},
		{"a.arr", a.Arr()}, {"b.arr", b.Arr()}, {"a.chan", a.Chan()}, {"b.chan", b.Chan()}, {"a.iface", a.Iface()}, {"Int", Int(1)}, {"int8", int8(1)}, {"a.MyInt", a.MyInt(1)}, {"b.MyInt", b.MyInt(1)},
	}
	for _, x := range vals {
		o("describe/"+x.name, describe(x.v)+" a:"+a.Describe(x.v)+" b:"+b.Describe(x.v))
	}
	for i, x := range vals {
		s := ""
		for j, y := range vals {
			if j < i {
				continue
			}
			s += eq(x.v, y.v)[:1]
		}
		o("eq/"+x.name, s)
	}
	// assertions to concrete types and to interfaces across packages
	for _, x := range vals {
		_, ok1 := x.v.(a.T)
		_, ok2 := x.v.(b.T)
		_, ok3 := x.v.(a.Sealed)
		_, ok4 := x.v.(b.Tagged)
		_, ok5 := x.v.(a.Namer)
		_, ok6 := x.v.(interface{ Name() string })
		_, ok7 := x.v.(Getter[Int])
		_, ok8 := x.v.(Getter[string])
		_, ok9 := x.v.(interface{ seal() })
		o("assert/"+x.name, btoa(ok1)+btoa(ok2)+btoa(ok3)+btoa(ok4)+btoa(ok5)+btoa(ok6)+btoa(ok7)+btoa(ok8)+btoa(ok9))
	}
	// unexported methods: only the declaring package's implementation counts
	seals := []interface{}{a.Impl{}, b.Fake{}, b.Good{}, a.Impl2{}, &a.Impl{}}
	for i, s := range seals {
		_, isSealed := s.(a.Sealed)
		_, isTagged := s.(b.Tagged)
		_, isLit := s.(interface {
			a.Sealed
			Tag() string
		})
		res := btoa(isSealed) + btoa(isTagged) + btoa(isLit)
		if sl, ok := s.(a.Sealed); ok {
			res += ":" + a.CallSeal(sl)
		}
		o("sealed/"+itoa(int64(i)), res)
	}
	// TypeAssertionError classes
	for _, x := range vals[:6] {
		o("assert-err/"+x.name, func() (r string) {
			defer func() { r = errClass(recover()) }()
			_ = x.v.(a.Sealed)
			return "ok"
		}()+"|"+func() (r string) {
			defer func() { r = errClass(recover()) }()
			_ = x.v.(b.T)
			return "ok"
		}())
	}
	// map keyed by dynamic type
	m := map[interface{}]string{}
	for _, x := range vals {
		func() {
			defer func() { recover() }()
			m[x.v] = x.name
		}()
	}
	o("mapkeys", itoa(int64(len(m))))
	o("mapkeys/get", m[T{1}]+","+m[a.T{N: 1}]+","+m[b.T{N: 1}]+","+m[local1()]+","+m[local2()]+","+m[gen[Int]()]+","+m[a.MkBox()])
	_ = localM1
}
`

const identA = `package a

type Int = INTTYPE

type T struct{ N Int }

func (T) Name() string { return "a.T" }

type MyInt Int
type Namer interface{ Name() string }

type Sealed interface{ seal() string }
type Impl struct{}

func (Impl) seal() string { return "a.Impl.seal" }

type Impl2 struct{ Impl }

func CallSeal(s Sealed) string { return s.seal() }

type Box[X any] struct{ v X }

func (b Box[X]) Get() X { return b.v }
func MkBox() interface{}  { return Box[Int]{1} }

func Local() interface{} {
	type L struct{ a Int }
	return L{1}
}
func Slice() interface{}      { return []Int{1} }
func PubStruct() interface{}  { return struct{ X Int }{1} }
func PrivStruct() interface{} { return struct{ x Int }{1} }
func Ptr() interface{}        { return &T{1} }
func Fn() interface{}         { return func() {} }
func Map() interface{}        { return map[string]Int{} }
func Arr() interface{}        { return [2]Int{1, 2} }
func Chan() interface{}       { return (chan Int)(nil) }
func Iface() interface{}      { var n Namer = T{2}; return n }

func Describe(v interface{}) string {
	switch v.(type) {
	case T:
		return "T"
	case struct{ x Int }:
		return "priv"
	case struct{ X Int }:
		return "pub"
	case Box[Int]:
		return "Box"
	case MyInt:
		return "MyInt"
	case [2]Int:
		return "arr"
	case func():
		return "fn"
	case Namer:
		return "Namer"
	}
	return "-"
}
`

const identB = `package b

import "MOD/a"

type Int = a.Int

type T struct{ N Int }
type MyInt Int

type Fake struct{}

func (Fake) seal() string { return "b.Fake.seal" }
func (Fake) Tag() string  { return "fake" }

type Good struct{ a.Impl }

func (Good) Tag() string { return "good" }

type Tagged interface {
	a.Sealed
	Tag() string
}

func MkABox() interface{} { return a.Box[Int]{} }

func Local() interface{} {
	type L struct{ a Int }
	return L{1}
}
func Slice() interface{}      { return []Int{1} }
func PubStruct() interface{}  { return struct{ X Int }{1} }
func PrivStruct() interface{} { return struct{ x Int }{1} }
func Fn() interface{}         { return func() {} }
func Map() interface{}        { return map[string]Int{} }
func Arr() interface{}        { return [2]Int{1, 2} }
func Chan() interface{}       { return (chan Int)(nil) }

func Describe(v interface{}) string {
	switch v.(type) {
	case T:
		return "T"
	case a.T:
		return "a.T"
	case struct{ x Int }:
		return "priv"
	case struct{ X Int }:
		return "pub"
	case a.Box[Int]:
		return "Box"
	case MyInt:
		return "MyInt"
	case Tagged:
		return "Tagged"
	}
	return "-"
}
`

const identXA = `package a

type Int = INTTYPE

type T struct{ N Int }
`

// IdentityProgram: type identity across functions, packages and instantiations.
func IdentityProgram() diffrun.Program {
	name := "c09_ident"
	mod := diffrun.ModName(name)
	r := func(s string) string { return strings.ReplaceAll(s, "MOD", mod) }
	// Int alias inside the sub-packages: int under js (32 bit), int32 natively, as in the main helpers
	mkInt := func(src string) map[string]string {
		return map[string]string{
			"": strings.ReplaceAll(src, "type Int = INTTYPE\n", ""),
		}
	}
	_ = mkInt
	files := map[string]string{
		"main.go":      r(identMain),
		"a/a.go":       strings.ReplaceAll(r(identA), "type Int = INTTYPE\n", ""),
		"a/int_js.go":  "//go:build js\n\npackage a\n\ntype Int = int\n",
		"a/int_ref.go": "//go:build !js\n\npackage a\n\ntype Int = int32\n",
		"b/b.go":       r(identB),
		"x/a/a.go":     strings.ReplaceAll(r(identXA), "type Int = INTTYPE\n", ""),
		"x/a/int_js.go":  "//go:build js\n\npackage a\n\ntype Int = int\n",
		"x/a/int_ref.go": "//go:build !js\n\npackage a\n\ntype Int = int32\n",
	}
	return diffrun.Program{Name: name, Files: files}
}
