package dyn

import (
	"fmt"
	"strings"

	"verif/mc/diffrun"
)

// UnnamedProgram: (a) identity of unnamed composite types that differ in exactly one attribute (variadic
// flag, channel direction, array length, field name / order / tag / embedding, parameter vs result, key vs
// element): every (value, type) pair is asserted and every pair of values is compared as interfaces;
// (b) assertions between interface types decided from the STATIC type of the operand: every (static
// interface type, target interface type) pair on a nil value and on a value that implements everything.
func UnnamedProgram() diffrun.Program {
	types := []string{
		"func(...Int) Int", "func([]Int) Int", "func(Int) Int", "func(Int, Int)", "func(Int) (Int, Int)", "func(string, ...interface{})", "func(string, []interface{})", "func()", "func() Int", "func(func(...Int))", "func(func([]Int))",
		"chan Int", "<-chan Int", "chan<- Int", "chan string", "chan chan Int", "chan (<-chan Int)", "chan<- chan Int", "<-chan chan<- Int",
		"[1]Int", "[2]Int", "[2]string", "[2][1]Int", "[1][2]Int", "[0]Int",
		"[]Int", "*Int", "[]*Int", "*[]Int", "**Int", "[][]Int", "[]<-chan Int", "[]chan<- Int",
		"map[string]Int", "map[Int]string", "map[string]map[string]Int", "map[string][]Int", "map[[1]Int]Int", "map[[2]Int]Int",
		"struct{ a Int }", "struct{ b Int }", "struct {\n\ta Int\n\tb Int\n}", "struct {\n\tb Int\n\ta Int\n}", "struct {\n\ta Int `t`\n}", "struct {\n\ta Int `u`\n}", "struct{ A Int }", "struct{ Named }", "struct{ Named Named }", "struct{ *Named }", "struct{}", "struct{ a, b Int }", "struct{ f func(...Int) }", "struct{ f func([]Int) }",
		"[]interface{ M() }", "[]interface {\n\tM()\n\tN()\n}", "[]interface{ M() Int }", "[]interface{ m() }", "[]interface{}", "func(interface{ M() })", "func(interface{ N() })",
		"*struct{ a Int }", "*struct{ b Int }", "*[2]Int", "*[3]Int",
	}
	var b strings.Builder
	b.WriteString("package main\n\ntype Named struct{ n Int }\n\nfunc try(f func() bool) (res string) {\n\tdefer func() {\n\t\tif recover() != nil {\n\t\t\tres = \"P\"\n\t\t}\n\t}()\n\tif f() {\n\t\treturn \"T\"\n\t}\n\treturn \"F\"\n}\n\n")
	for i, t := range types {
		fmt.Fprintf(&b, "type u%d = %s\n\nfunc is%d(x interface{}) bool { _, ok := x.(u%d); return ok }\n\n", i, t, i, i)
	}
	b.WriteString("var vals = []interface{}{\n")
	for i, t := range types {
		switch {
		case strings.HasPrefix(t, "[") && !strings.HasPrefix(t, "[]"), strings.HasPrefix(t, "struct"):
			fmt.Fprintf(&b, "\tu%d{},\n", i)
		default:
			fmt.Fprintf(&b, "\t(u%d)(nil),\n", i)
		}
	}
	b.WriteString("}\n\nvar preds = []func(interface{}) bool{")
	for i := range types {
		fmt.Fprintf(&b, "is%d, ", i)
	}
	b.WriteString("}\n\n")
	// (b) static interface types
	ifaces := []struct{ name, def string }{
		{"iEmpty", "interface{}"}, {"iR", "interface{ Read() Int }"}, {"iW", "interface{ Write(Int) }"}, {"iRW", "interface {\n\tRead() Int\n\tWrite(Int)\n}"},
		{"iRWC", "interface {\n\tiRW\n\tClose()\n}"}, {"iPriv", "interface{ hidden() }"}, {"iRPriv", "interface {\n\tiR\n\thidden()\n}"}, {"iOther", "interface{ Other() }"},
	}
	for _, it := range ifaces {
		fmt.Fprintf(&b, "type %s %s\n\n", it.name, it.def)
	}
	b.WriteString("type impl struct{ v Int }\n\nfunc (i *impl) Read() Int  { return i.v }\nfunc (i *impl) Write(x Int) { i.v = x }\nfunc (i *impl) Close()     {}\nfunc (i *impl) hidden()    {}\n\n")
	b.WriteString("func main() {\n\tfor i, v := range vals {\n\t\trow := \"\"\n\t\tfor _, p := range preds {\n\t\t\tif p(v) {\n\t\t\t\trow += \"T\"\n\t\t\t} else {\n\t\t\t\trow += \"-\"\n\t\t\t}\n\t\t}\n\t\tprintln(\"C09/unnamed/assert/\"+itoa(int64(i)), row)\n\t\teqs := \"\"\n\t\tfor _, w := range vals {\n\t\t\tw := w\n\t\t\teqs += try(func() bool { return v == w })\n\t\t}\n\t\tprintln(\"C09/unnamed/equal/\"+itoa(int64(i)), eqs)\n\t}\n")
	for _, src := range ifaces {
		if src.name == "iOther" {
			continue
		}
		for _, nilv := range []bool{true, false} {
			val := "nil"
			if !nilv {
				val = "&impl{7}"
			}
			fmt.Fprintf(&b, "\t{\n\t\tvar x %s = %s\n\t\tres := \"\"\n", src.name, val)
			if nilv {
				fmt.Fprintf(&b, "\t\tx = nil\n")
			}
			for _, dst := range ifaces {
				fmt.Fprintf(&b, "\t\tres += try(func() bool { _, ok := x.(%s); return ok }) + try(func() bool { y := x.(%s); return y != nil }) + try(func() bool {\n\t\t\tswitch x.(type) {\n\t\t\tcase %s:\n\t\t\t\treturn true\n\t\t\t}\n\t\t\treturn false\n\t\t}) + \" \"\n", dst.name, dst.name, dst.name)
			}
			fmt.Fprintf(&b, "\t\tres += try(func() bool { _, ok := x.(*impl); return ok }) + try(func() bool { return x.(*impl) != nil })\n\t\tprintln(\"C09/unnamed/static/%s/nil=%v\", res)\n\t}\n", src.name, nilv)
		}
	}
	b.WriteString("}\n")
	return diffrun.Program{Name: "c09_unnamed", Files: map[string]string{"main.go": b.String()}}
}
