// Package str generates the C14 explorer program: every byte string of length
// <= L over the boundary alphabet, every rune value, and a literal table.
package str

import (
	"fmt"
	"strings"

	"verif/mc/diffrun"
)

var sigma = []byte{0x00, 0x0a, 0x22, 0x5c, 0x41, 0x7f, 0x80, 0xbf, 0xc0, 0xc2, 0xe0, 0xed, 0xf0, 0xf4, 0xff}

const body = `
var sigma = []byte{0x00, 0x0a, 0x22, 0x5c, 0x41, 0x7f, 0x80, 0xbf, 0xc0, 0xc2, 0xe0, 0xed, 0xf0, 0xf4, 0xff}

func hexs(s string) string {
	const d = "0123456789abcdef"
	b := make([]byte, 0, 2*len(s))
	for i := 0; i < len(s); i++ {
		b = append(b, d[s[i]>>4], d[s[i]&15])
	}
	return string(b)
}

func sliceClass(s string, i, j int) (res string) {
	defer func() {
		if r := recover(); r != nil {
			res = errClass(r)
		}
	}()
	return "ok:" + hexs(s[i:j])
}

func indexClass(s string, i int) (res string) {
	defer func() {
		if r := recover(); r != nil {
			res = errClass(r)
		}
	}()
	return "ok:" + itoa(int64(s[i]))
}

var short []string // all strings of length <= 2

func sw(s string) int {
	switch s {
	case "":
		return 1
	case "\x00":
		return 2
	case "\x80":
		return 3
	case "\xc2\x80":
		return 4
	case "A\"":
		return 5
	case "\\":
		return 6
	case "\xff\xff":
		return 7
	case "\xed\xbf":
		return 8
	case "A":
		return 9
	}
	return 0
}

type ops struct {
	lenidx, slice, rng, runes, bytes, cmp, cat, cpy, sw, mapk, rngidx digest
}

func newOps() *ops {
	return &ops{newDigest(), newDigest(), newDigest(), newDigest(), newDigest(), newDigest(), newDigest(), newDigest(), newDigest(), newDigest(), newDigest()}
}

var themap = map[string]int{}
var nstr = 0

func explore(s string, o *ops, det bool, id string) {
	nstr++
	// len + index
	o.lenidx.w(uint32(len(s)))
	for i := 0; i < len(s); i++ {
		o.lenidx.w(uint32(s[i]))
	}
	// slices
	for i := 0; i <= len(s); i++ {
		for j := i; j <= len(s); j++ {
			o.slice.str(s[i:j])
			t := s[i:]
			o.slice.str(t[:j-i])
		}
	}
	// range
	n := 0
	for i, r := range s {
		o.rng.w(uint32(i))
		o.rng.w(uint32(r))
		n++
		if det {
			println(id+"/rng/s="+hexs(s), itoa(int64(i)), itoa(int64(r)))
		}
	}
	o.rng.w(uint32(n))
	for i := range s {
		o.rngidx.w(uint32(i))
	}
	// []rune round trip
	rs := []rune(s)
	o.runes.w(uint32(len(rs)))
	for _, r := range rs {
		o.runes.w(uint32(r))
	}
	back := string(rs)
	o.runes.str(back)
	if det {
		println(id+"/runes/s="+hexs(s), itoa(int64(len(rs))), hexs(back))
	}
	// []byte round trip, copy, append
	bs := []byte(s)
	o.bytes.w(uint32(len(bs)))
	o.bytes.str(string(bs))
	if len(bs) > 0 {
		bs[0] ^= 0xff
		o.bytes.str(s) // s must be unaffected
		o.bytes.str(string(bs))
	}
	var buf [3]byte
	c := copy(buf[:], s)
	o.cpy.w(uint32(c))
	o.cpy.str(string(buf[:c]))
	ap := append([]byte("x"), s...)
	o.cpy.str(string(ap))
	// comparison and concatenation
	lim := len(short)
	if len(s) >= 4 {
		lim = 16
	}
	for k := 0; k < lim; k++ {
		t := short[k]
		var bits uint32
		if s == t {
			bits |= 1
		}
		if s < t {
			bits |= 2
		}
		if s <= t {
			bits |= 4
		}
		if s > t {
			bits |= 8
		}
		if s != t {
			bits |= 16
		}
		o.cmp.w(bits)
		if det && bits != 0 {
			println(id+"/cmp/s="+hexs(s)+"/t="+hexs(t), itoa(int64(bits)))
		}
		u := s + t
		o.cat.w(uint32(len(u)))
		o.cat.str(u)
		u = t + s
		o.cat.str(u)
	}
	o.sw.w(uint32(sw(s)))
	// map key
	if old, ok := themap[s]; ok {
		o.mapk.w(uint32(old) | 1<<31)
	}
	themap[s] = nstr
	o.mapk.w(uint32(len(themap)))
	if v, ok := themap[s]; !ok || v != nstr {
		o.mapk.w(0xdead)
	}
	if det {
		println(id+"/slice/s="+hexs(s), o.slice.String())
	}
}

func gen(l int, first byte, f func(string)) {
	b := make([]byte, l)
	b[0] = first
	var rec func(i int)
	rec = func(i int) {
		if i == l {
			f(string(b))
			return
		}
		for _, c := range sigma {
			b[i] = c
			rec(i + 1)
		}
	}
	rec(1)
}

func main() {
	short = append(short, "")
	for _, a := range sigma {
		short = append(short, string([]byte{a}))
	}
	for _, a := range sigma {
		for _, b := range sigma {
			short = append(short, string([]byte{a, b}))
		}
	}
	if withMisc {
		o := newOps()
		explore("", o, false, "")
		report("C14/str/len=0", o)
	}
	for l := 1; l <= maxLen; l++ {
		for _, first := range firsts {
			id := "C14/str/len=" + itoa(int64(l)) + "/first=" + hex(uint64(first))
			o := newOps()
			det := detailCase != "" && len(detailCase) >= len(id) && detailCase[:len(id)] == id
			gen(l, first, func(s string) { explore(s, o, det, id) })
			report(id, o)
		}
	}
	println("C14/str/map/len/shard="+shardName, itoa(int64(len(themap))))
	// lookups after all inserts
	{
		d := newDigest()
		for _, s := range short {
			d.w(uint32(themap[s]))
			_, ok := themap[s+"\x80"]
			if ok {
				d.w(1)
			}
			delete(themap, s)
			d.w(uint32(len(themap)))
		}
		println("C14/str/map/lookup/shard="+shardName, d.String())
	}
	if !withMisc {
		return
	}
	// out-of-range index and slice expressions
	for _, s := range []string{"", "A", "\xc2\x80", "AB\xffC"} {
		for i := -1; i <= len(s)+1; i++ {
			println("C14/oob/index/s="+hexs(s)+"/i="+itoa(int64(i)), indexClass(s, i))
			for j := -1; j <= len(s)+1; j++ {
				println("C14/oob/slice/s="+hexs(s)+"/i="+itoa(int64(i))+"/j="+itoa(int64(j)), sliceClass(s, i, j))
			}
		}
	}
	// every rune value: string(rune) and []rune -> string
	for blk := -4096; blk < 0x110000+4096; blk += 4096 {
		d := newDigest()
		for r := blk; r < blk+4096; r++ {
			s := string(rune(r))
			d.str(s)
			t := string([]rune{rune(r), 'x', rune(r)})
			d.str(t)
			for _, back := range t {
				d.w(uint32(back))
			}
			if detailCase == "C14/rune/blk="+itoa(int64(blk)) {
				println(detailCase+"/r="+itoa(int64(r)), hexs(s), hexs(t))
			}
		}
		println("C14/rune/blk="+itoa(int64(blk)), d.String())
	}
	// integer carriers
	for _, v := range []int64{-1 << 63, -1 << 32, -1 << 31, -1, 0, 65, 0xd7ff, 0xd800, 0xdfff, 0xe000, 0x10ffff, 0x110000, 1<<31 - 1, 1 << 31, 1 << 32, 1<<32 + 65, 1<<63 - 1} {
		println("C14/carrier/int64="+itoa(v), hexs(string(rune(v))), hexs(string(rune(uint64(v)))), hexs(string(rune(int32(v)))), hexs(string(rune(uint16(v)))), hexs(string(rune(Int(v)))))
	}
	// every 8- and 16-bit integer value converted directly from its own type
	{
		d := newDigest()
		for i := 0; i < 256; i++ {
			b := uint8(i)
			c := int8(i)
			d.str(string(rune(0)) + string(b) + string(c))
			type myByte uint8
			d.str(string(myByte(i)))
		}
		println("C14/carrier/8bit", d.String())
		for i := 0; i < 256; i++ {
			b := uint8(i)
			if detailCase == "C14/carrier/8bit" {
				println("C14/carrier/8bit/i="+itoa(int64(i)), hexs(string(b)), hexs(string(int8(i))))
			}
		}
		d = newDigest()
		for i := 0; i < 65536; i++ {
			d.str(string(uint16(i)))
			d.str(string(int16(i)))
			d.str(string(uint32(i) << 8))
			d.str(string(Uint(i) * 17))
		}
		println("C14/carrier/16bit", d.String())
	}
	// conversions between strings and slices whose slice type, element type or string type is a defined type
	{
		type myRune rune
		type myRune2 myRune
		type nByte byte
		type nByte2 nByte
		type runes []rune
		type myRunes []myRune
		type bytesT []byte
		type nBytes []nByte
		type MyString string
		rseqs := [][]rune{{}, {'a'}, {0x61, 0xe9, 0x266b, 0x1f600, -1, 0xd800}, {0x266b, 0x266c}, {0x10ffff, 0x110000, 0}, {0x47, 0x6f, 0x4e16, 0x754c}}
		for i, sq := range rseqs {
			a := make([]myRune, len(sq))
			b2 := make([]myRune2, len(sq))
			c := make(runes, len(sq))
			dd := make(myRunes, len(sq))
			e := make([]int32, len(sq))
			for j, r := range sq {
				a[j], b2[j], c[j], dd[j], e[j] = myRune(r), myRune2(r), r, myRune(r), int32(r)
			}
			println("C14/named/runes/i="+itoa(int64(i)), hexs(string(sq)), hexs(string(a)), hexs(string(b2)), hexs(string(c)), hexs(string(dd)), hexs(string(e)), hexs(string(MyString(a))), hexs(string(MyString(dd))), hexs(string(a[:len(a)/2])), hexs(string(dd[len(dd)/2:])))
			s := string(sq)
			d := newDigest()
			ra, rb, rc, rd := []myRune(s), []myRune2(s), runes(s), myRunes(MyString(s))
			d.w(uint32(len(ra)))
			d.w(uint32(len(rb)))
			d.w(uint32(len(rc)))
			d.w(uint32(len(rd)))
			for j := range ra {
				d.w(uint32(ra[j]))
				d.w(uint32(rb[j]))
				d.w(uint32(rc[j]))
				d.w(uint32(rd[j]))
			}
			m := map[string]int{string(sq): 1}
			println("C14/named/runes-back/i="+itoa(int64(i)), d.String(), itoa(int64(len(ra))), itoa(int64(m[string(a)]+m[string(dd)]+m[string(b2)])), btoa(string(a) == s && MyString(dd) == MyString(s)))
		}
		bseqs := [][]byte{{}, {0x61}, {0xc3, 0xa9, 0xff, 0x80, 0}, {0xe2, 0x99, 0xab}, {0xf0, 0x9f, 0x98, 0x80, 0x41}}
		for i, sq := range bseqs {
			a := make([]nByte, len(sq))
			b2 := make([]nByte2, len(sq))
			c := make(bytesT, len(sq))
			dd := make(nBytes, len(sq))
			for j, x := range sq {
				a[j], b2[j], c[j], dd[j] = nByte(x), nByte2(x), x, nByte(x)
			}
			println("C14/named/bytes/i="+itoa(int64(i)), hexs(string(sq)), hexs(string(a)), hexs(string(b2)), hexs(string(c)), hexs(string(dd)), hexs(string(MyString(a))), hexs(string(MyString(dd))), hexs(string(a[:len(a)/2])))
			s := string(sq)
			d := newDigest()
			ra, rb, rc, rd := []nByte(s), []nByte2(s), bytesT(s), nBytes(MyString(s))
			d.w(uint32(len(ra)))
			d.w(uint32(len(rb)))
			d.w(uint32(len(rc)))
			d.w(uint32(len(rd)))
			for j := range ra {
				d.w(uint32(ra[j]))
				d.w(uint32(rb[j]))
				d.w(uint32(rc[j]))
				d.w(uint32(rd[j]))
			}
			println("C14/named/bytes-back/i="+itoa(int64(i)), d.String(), itoa(int64(len(ra))), btoa(string(a) == s && MyString(dd) == MyString(s)))
		}
	}
	// long byte and rune slices: conversions work on chunks internally; every window that starts / ends
	// around the chunk size, at offsets into larger backing arrays
	for _, n := range []int{9999, 10000, 10001, 20000, 25003} {
		b := make([]byte, n)
		for i := range b {
			b[i] = byte(i*7 + 3)
		}
		cuts := []int{0, 1, 100, 9999, 10000, 10001, 12000, n - 1, n}
		d := newDigest()
		for _, lo := range cuts {
			for _, hi := range cuts {
				if lo > hi || hi > n {
					continue
				}
				str := string(b[lo:hi])
				d.w(uint32(len(str)))
				d.str(str)
				if detailCase == "C14/big/bytes/n="+itoa(int64(n)) {
					dd := newDigest()
					dd.str(str)
					println(detailCase+"/lo="+itoa(int64(lo))+"/hi="+itoa(int64(hi)), itoa(int64(len(str))), dd.String())
				}
				back := []byte(str)
				d.w(uint32(len(back)))
				if len(back) > 0 {
					d.w(uint32(back[0]) + uint32(back[len(back)-1])<<8)
				}
				dst := make([]byte, 3, 3)
				d.w(uint32(copy(dst, str)))
				d.w(uint32(len(append(dst[:1:1], str...))))
			}
		}
		println("C14/big/bytes/n="+itoa(int64(n)), d.String())
		rs := make([]rune, n)
		for i := range rs {
			rs[i] = rune('a' + i%26)
			if i%1000 == 999 {
				rs[i] = 0x1F600
			}
		}
		d = newDigest()
		for _, lo := range []int{0, 1, 9999, 10001} {
			if lo > n {
				continue
			}
			str := string(rs[lo:])
			d.w(uint32(len(str)))
			d.str(str)
			d.w(uint32(len([]rune(str))))
			cnt := 0
			for range str {
				cnt++
			}
			d.w(uint32(cnt))
		}
		println("C14/big/runes/n="+itoa(int64(n)), d.String())
	}
	literals()
}

func report(id string, o *ops) {
	println(id+"/lenidx", o.lenidx.String())
	println(id+"/slice", o.slice.String())
	println(id+"/range", o.rng.String(), o.rngidx.String())
	println(id+"/runes", o.runes.String())
	println(id+"/bytes", o.bytes.String())
	println(id+"/cmp", o.cmp.String())
	println(id+"/cat", o.cat.String())
	println(id+"/copy", o.cpy.String())
	println(id+"/switch", o.sw.String())
	println(id+"/mapkey", o.mapk.String())
}
`

func goQuote(b []byte) string {
	var sb strings.Builder
	sb.WriteByte('"')
	for _, c := range b {
		fmt.Fprintf(&sb, "\\x%02x", c)
	}
	sb.WriteByte('"')
	return sb.String()
}

// Program builds the C14 explorer (maxLen 4 quick, 5 thorough).
func Program(maxLen int, detail string, firsts []byte, withMisc bool, name string) diffrun.Program {
	var b strings.Builder
	fmt.Fprintf(&b, "package main\n\nconst maxLen = %d\n\nvar detailCase = %q\n\nconst withMisc = %v\n\nconst shardName = %q\n\nvar firsts = []byte{", maxLen, detail, withMisc, name)
	for _, f := range firsts {
		fmt.Fprintf(&b, "0x%02x, ", f)
	}
	b.WriteString("}\n")
	b.WriteString(body)
	// literal table: every string of length <= 2 over sigma as an interpreted literal with the
	// minimal escaping Go allows (so raw bytes reach encodeString), plus adversarial literals.
	b.WriteString("\nfunc literals() {\n")
	n := 0
	emit := func(lit string) {
		fmt.Fprintf(&b, "\tprintln(\"C14/lit/%d\", hexs(%s))\n", n, lit)
		n++
	}
	lits := [][]byte{{}}
	for _, a := range sigma {
		lits = append(lits, []byte{a})
	}
	for _, a := range sigma {
		for _, c := range sigma {
			lits = append(lits, []byte{a, c})
		}
	}
	for _, l := range lits {
		emit(goQuote(l))
		// the same bytes embedded between printable characters, escaped only where Go requires it
		var sb strings.Builder
		sb.WriteString("\"a")
		for _, c := range l {
			switch {
			case c == '"' || c == '\\':
				sb.WriteByte('\\')
				sb.WriteByte(c)
			case c == '\n':
				sb.WriteString("\\n")
			case c >= 0x20 && c < 0x7f:
				sb.WriteByte(c)
			default:
				fmt.Fprintf(&sb, "\\x%02x", c)
			}
		}
		sb.WriteString("z\"")
		emit(sb.String())
	}
	for _, lit := range []string{
		"\"\\u00e9\\u0416\\u20ac\\U0001F600\"", "\"日本語\\t\\r\\n\\a\\b\\f\\v\"", "`raw \\n \"q\" 'x' /* c */ // d`", "`\u00e9\U0001F600`",
		"\"\\\\\\\"\\\\\"", "\"</script><!--\"", "\"\\u2028\\u2029\"", "\"\\x7f\\x1f\\x00\\x01\"", "\"$\\\\$'\\\\'\"", "\"\\ufffd\\ufeff\\uffff\"", "\"\\ud7ff\\ue000\"",
		"\"\\377\\000\\101\"", "'A'", "string(rune('\\u00e9'))", "\"a\" + \"\\x80\" + \"b\"", "\"\\xf0\\x9f\\x98\\x80\"", "\"\\xed\\xa0\\x80\"", "\"\\xc0\\x80\"", "\"\\xf4\\x90\\x80\\x80\"",
	} {
		if strings.HasPrefix(lit, "'") {
			emit("string(rune(" + lit + "))")
		} else {
			emit(lit)
		}
	}
	b.WriteString("}\n")
	p := diffrun.Program{Name: "c14_" + name, Files: map[string]string{"main.go": b.String()}}
	return p
}

// Programs shards the exploration by first byte (one program per first byte plus a misc program).
func Programs(maxLen int) []diffrun.Program {
	var ps []diffrun.Program
	mk := func(firsts []byte, misc bool, name string) {
		p := Program(maxLen, "", firsts, misc, name)
		p.Detail = func(c string) *diffrun.Program { d := Program(maxLen, c, firsts, misc, name); return &d }
		ps = append(ps, p)
	}
	for _, f := range sigma {
		mk([]byte{f}, false, fmt.Sprintf("f%02x", f))
	}
	mk(nil, true, "misc")
	return ps
}
