// Package ctl generates C01 grammar G1: control-flow skeletons. Every skeleton is a function of
// two booleans that leaves a trace; all nestings (outer construct x middle construct x leaf) are
// enumerated and each is run on all four input vectors.
package ctl

import (
	"fmt"
	"strings"

	"verif/mc/diffrun"
)

type genCtx struct {
	n      int      // trace counter
	loops  []string // labels of enclosing loops (innermost last)
	inLoop bool     // an unlabeled break/continue target loop exists
	inSw   bool     // innermost breakable is a switch/select
	closed bool     // inside a function literal: outer loops/labels are not reachable
	lbl    int
	condI  int
	level  int // nesting level of the construct whose own statements are being generated (leaf = depth)
	mask   int // bit k set: the trace statements of level k suspend the goroutine (the function becomes resumable)
}

var conds = []string{"in0", "in1", "!in0", "in0 != in1", "in0 && in1"}

func (c *genCtx) t() string {
	c.n++
	if c.mask>>uint(c.level)&1 != 0 {
		return fmt.Sprintf("trb(%d)", c.n)
	}
	return fmt.Sprintf("tr(%d)", c.n)
}
func (c *genCtx) cond() string {
	c.condI++
	return conds[c.condI%len(conds)]
}

// construct builds a statement with one hole; hole(ctx) generates the nested statement.
type construct struct {
	name string
	gen  func(c *genCtx, hole func(c *genCtx) string) string
}

func sub(c *genCtx, f func(*genCtx)) *genCtx {
	d := *c
	d.loops = append([]string{}, c.loops...)
	f(&d)
	return &d
}

var constructs = []construct{
	{"if-then", func(c *genCtx, h func(*genCtx) string) string {
		return "if " + c.cond() + " {\n" + h(c) + "\n} else {\n" + c.t() + "\n}\n" + c.t()
	}},
	{"if-else", func(c *genCtx, h func(*genCtx) string) string {
		return "if " + c.cond() + " {\n" + c.t() + "\n} else {\n" + h(c) + "\n}\n" + c.t()
	}},
	{"else-if", func(c *genCtx, h func(*genCtx) string) string {
		return "if " + c.cond() + " {\n" + c.t() + "\n} else if " + c.cond() + " {\n" + h(c) + "\n} else if x > 100 {\n" + c.t() + "\n} else {\n" + c.t() + "\n}\n" + c.t()
	}},
	{"if-init", func(c *genCtx, h func(*genCtx) string) string {
		return "if y := x + 1; y > 0 && " + c.cond() + " {\n" + h(c) + "\nx += y\n}\n" + c.t()
	}},
	{"switch-tagless", func(c *genCtx, h func(*genCtx) string) string {
		d := sub(c, func(d *genCtx) { d.inSw = true })
		s := "switch {\ncase " + c.cond() + ":\n" + h(d) + "\n" + d.t() + "\ncase " + c.cond() + ":\n" + d.t() + "\ndefault:\n" + d.t() + "\n}\n"
		c.n, c.lbl, c.condI = d.n, d.lbl, d.condI
		return s + c.t()
	}},
	{"switch-tag-fallthrough", func(c *genCtx, h func(*genCtx) string) string {
		d := sub(c, func(d *genCtx) { d.inSw = true })
		s := "switch v := b2i(" + c.cond() + "); v {\ncase 1:\n" + d.t() + "\nfallthrough\ncase 7:\n" + h(d) + "\n" + d.t() + "\ncase 0:\n" + d.t() + "\nfallthrough\ndefault:\n" + d.t() + "\n}\n"
		c.n, c.lbl, c.condI = d.n, d.lbl, d.condI
		return s + c.t()
	}},
	{"switch-default-first", func(c *genCtx, h func(*genCtx) string) string {
		d := sub(c, func(d *genCtx) { d.inSw = true })
		s := "switch b2i(" + c.cond() + ") + b2i(" + c.cond() + ") {\ndefault:\n" + h(d) + "\ncase 0, 3:\n" + d.t() + "\ncase 2:\n" + d.t() + "\n}\n"
		c.n, c.lbl, c.condI = d.n, d.lbl, d.condI
		return s + c.t()
	}},
	{"for-labeled", func(c *genCtx, h func(*genCtx) string) string {
		c.lbl++
		l := fmt.Sprintf("L%d", c.lbl)
		d := sub(c, func(d *genCtx) { d.inLoop = true; d.inSw = false; d.loops = append(d.loops, l) })
		s := l + ":\nfor i := 0; i < 2; i++ {\nif x > 1000 {\nbreak " + l + "\n}\n" + d.t() + "\n" + h(d) + "\n" + d.t() + "\n}\n"
		c.n, c.lbl, c.condI = d.n, d.lbl, d.condI
		return s + c.t()
	}},
	{"for-cond-post", func(c *genCtx, h func(*genCtx) string) string {
		d := sub(c, func(d *genCtx) { d.inLoop = true; d.inSw = false })
		s := "for j := 0; j < 3 && fuel() > 0; j, x = j+1, x+1 {\nif j == 1 {\n" + h(d) + "\n}\n" + d.t() + "\n}\n"
		c.n, c.lbl, c.condI = d.n, d.lbl, d.condI
		return s + c.t()
	}},
	{"for-switch-inside", func(c *genCtx, h func(*genCtx) string) string {
		d := sub(c, func(d *genCtx) { d.inLoop = true; d.inSw = true })
		s := "for k := 0; k < 2; k++ {\nswitch {\ncase " + c.cond() + ":\n" + h(d) + "\n" + d.t() + "\ndefault:\n" + d.t() + "\n}\n" + d.t() + "\n}\n"
		c.n, c.lbl, c.condI = d.n, d.lbl, d.condI
		return s + c.t()
	}},
	{"for-infinite-fuel", func(c *genCtx, h func(*genCtx) string) string {
		d := sub(c, func(d *genCtx) { d.inLoop = true; d.inSw = false })
		s := "for {\nif fuel() <= 0 {\nbreak\n}\n" + h(d) + "\n" + d.t() + "\n}\n"
		c.n, c.lbl, c.condI = d.n, d.lbl, d.condI
		return s + c.t()
	}},
	{"range-array", func(c *genCtx, h func(*genCtx) string) string {
		d := sub(c, func(d *genCtx) { d.inLoop = true; d.inSw = false })
		s := "for idx, v := range [3]Int{5, 6, 7} {\nx += v + Int(idx)\n" + h(d) + "\n" + d.t() + "\n}\n"
		c.n, c.lbl, c.condI = d.n, d.lbl, d.condI
		return s + c.t()
	}},
	{"shadow-block", func(c *genCtx, h func(*genCtx) string) string {
		return "{\nx := x + 10\n" + h(c) + "\ntrv(x)\n}\ntrv(x)"
	}},
	{"closure", func(c *genCtx, h func(*genCtx) string) string {
		d := sub(c, func(d *genCtx) { d.inLoop = false; d.inSw = false; d.loops = nil; d.closed = true })
		s := "func() {\n" + h(d) + "\n" + d.t() + "\n}()\n"
		c.n, c.lbl, c.condI = d.n, d.lbl, d.condI
		return s + c.t()
	}},
	{"select-default", func(c *genCtx, h func(*genCtx) string) string {
		d := sub(c, func(d *genCtx) { d.inSw = true })
		s := "select {\ndefault:\n" + h(d) + "\n" + d.t() + "\n}\n"
		c.n, c.lbl, c.condI = d.n, d.lbl, d.condI
		return s + c.t()
	}},
	{"defer-recover", func(c *genCtx, h func(*genCtx) string) string {
		d := sub(c, func(d *genCtx) { d.inLoop = false; d.inSw = false; d.loops = nil; d.closed = true })
		s := "func() {\ndefer func() {\nif e := recover(); e != nil {\ntr(-1)\n}\n}()\n" + h(d) + "\nif " + c.cond() + " {\npanic(\"p\")\n}\n" + d.t() + "\n}()\n"
		c.n, c.lbl, c.condI = d.n, d.lbl, d.condI
		return s + c.t()
	}},
}

// leaves that may appear in a hole, given the context
func leaves(c *genCtx) []func(c *genCtx) string {
	ls := []func(c *genCtx) string{
		func(c *genCtx) string { return c.t() },
		func(c *genCtx) string { return "if " + c.cond() + " {\nreturn\n}\n" + c.t() },
		func(c *genCtx) string { return "x++\ntrv(x)" },
	}
	if !c.closed {
		ls = append(ls, func(c *genCtx) string { return "if " + c.cond() + " {\ngoto End\n}\n" + c.t() })
	}
	if c.inLoop || c.inSw {
		ls = append(ls, func(c *genCtx) string { return "if " + c.cond() + " {\nbreak\n}\n" + c.t() })
	}
	if c.inLoop {
		ls = append(ls, func(c *genCtx) string { return "if " + c.cond() + " {\ncontinue\n}\n" + c.t() })
	}
	for _, l := range c.loops {
		l := l
		ls = append(ls, func(c *genCtx) string { return "if " + c.cond() + " {\nbreak " + l + "\n}\n" + c.t() })
		ls = append(ls, func(c *genCtx) string { return "if " + c.cond() + " {\ncontinue " + l + "\n}\n" + c.t() })
	}
	return ls
}

// skeletons enumerates all nestings of the given depth; returns function bodies with ids.
// mask selects the nesting levels whose trace statements suspend (0 = an ordinary function).
func skeletons(depth, mask int) (ids []string, bodies []string) {
	var rec func(level int, path []int, names []string)
	rec = func(level int, path []int, names []string) {
		if level == depth {
			// enumerate leaves for this construct path: the number of leaves depends on the context,
			// which depends on the path; probe with a dry run first
			nLeaves := 0
			{
				c := &genCtx{}
				var build func(i int, c *genCtx) string
				build = func(i int, c *genCtx) string {
					if i == len(path) {
						nLeaves = len(leaves(c))
						return c.t()
					}
					return constructs[path[i]].gen(c, func(c2 *genCtx) string { return build(i+1, c2) })
				}
				build(0, c)
			}
			for li := 0; li < nLeaves; li++ {
				for rot := 0; rot < 2; rot++ {
					c := &genCtx{condI: rot * 2, mask: mask}
					var build func(i int, c *genCtx) string
					build = func(i int, c *genCtx) string {
						if i == len(path) {
							return leaves(c)[li](c)
						}
						return constructs[path[i]].gen(c, func(c2 *genCtx) string {
							old := c2.level
							c2.level = i + 1
							s := build(i+1, c2)
							c2.level = old
							return s
						})
					}
					body := build(0, c)
					id := fmt.Sprintf("%s/leaf=%d/rot=%d", strings.Join(names, "+"), li, rot)
					if mask != 0 {
						id += fmt.Sprintf("/blocking-levels=%d", mask)
					}
					ids = append(ids, id)
					bodies = append(bodies, body)
				}
			}
			return
		}
		for i, k := range constructs {
			rec(level+1, append(append([]int{}, path...), i), append(append([]string{}, names...), k.name))
		}
	}
	rec(0, nil, nil)
	return
}

const prelude = `package main

var trace string
var fuelLeft int

func tr(n int)   { trace += itoa(int64(n)) + "," }
func trb(n int) {
	trace += itoa(int64(n)) + "b,"
	c := make(chan bool)
	go func() { c <- true }()
	<-c
}
func trv(v Int)  { trace += "v" + itoa(int64(v)) + "," }
func fuel() int  { fuelLeft--; return fuelLeft }
func b2i(b bool) int {
	if b {
		return 1
	}
	return 0
}
`

// Programs returns the G1 programs (depth = nesting of constructs above the leaf).
func Programs(depth int, perProgram int) []diffrun.Program { return ProgramsMask(depth, perProgram, 0) }

// ProgramsMask: the same skeletons with the trace statements of the nesting levels in mask suspending the
// goroutine, so that the enclosing constructs are compiled into their resumable form while the others stay native.
func ProgramsMask(depth int, perProgram int, mask int) []diffrun.Program {
	ids, bodies := skeletons(depth, mask)
	var ps []diffrun.Program
	for start := 0; start < len(ids); start += perProgram {
		end := start + perProgram
		if end > len(ids) {
			end = len(ids)
		}
		var b strings.Builder
		b.WriteString(prelude)
		for i := start; i < end; i++ {
			fmt.Fprintf(&b, "\nfunc sk%d(in0, in1 bool) {\n\tx := Int(1)\n\t_ = x\n%s\n\tgoto End\nEnd:\n\ttr(0)\n}\n", i, bodies[i])
		}
		b.WriteString("\nvar table = []struct {\n\tid string\n\tf  func(bool, bool)\n}{\n")
		for i := start; i < end; i++ {
			fmt.Fprintf(&b, "\t{%q, sk%d},\n", ids[i], i)
		}
		b.WriteString("}\n\nfunc main() {\n\tfor _, e := range table {\n\t\ts := \"\"\n\t\tfor v := 0; v < 4; v++ {\n\t\t\ttrace = \"\"\n\t\t\tfuelLeft = 4\n\t\t\te.f(v&1 != 0, v&2 != 0)\n\t\t\ts += trace + \"|\"\n\t\t}\n\t\tprintln(\"C01/ctl/\"+e.id, s)\n\t}\n}\n")
		name := fmt.Sprintf("c01_ctl_d%d_%03d", depth, len(ps))
		if mask != 0 {
			name = fmt.Sprintf("c01_ctl_d%d_b%d_%03d", depth, mask, len(ps))
		}
		ps = append(ps, diffrun.Program{Name: name, Files: map[string]string{"main.go": b.String()}})
	}
	return ps
}
