// Package susp generates the C02 programs: (call kind x context) cases whose
// every call site leads to verif.Y, a function that is statically blocking and
// suspends dynamically when the harness says so.
package susp

import (
	"fmt"
	"strings"

	"verif/mc/diffrun"
)

// verif package: Y, trace, case selection. Three variants of the tagged file.
const verifCommon = `package verif

var Trace string
var Occ int

func Tr(s string) { Trace += s + ";" }

func Itoa(n int64) string {
	if n == 0 {
		return "0"
	}
	neg := n < 0
	if neg {
		n = -n
	}
	s := ""
	for n > 0 {
		s = string(rune('0'+n%10)) + s
		n /= 10
	}
	if neg {
		s = "-" + s
	}
	return s
}

func TrI(tag string, v Int) Int { Tr(tag + Itoa(int64(v))); return v }
`

const verifJS = `//go:build js && !direct

package verif

import "github.com/gopherjs/gopherjs/js"

type Int = int

// Y is statically blocking (it contains a receive) and really suspends the
// goroutine iff the harness asks for it at this dynamic occurrence.
func Y(id int) Int {
	Tr("y" + Itoa(int64(id)))
	occ := Occ
	Occ++
	if js.Global.Call("verifSuspend", occ).Bool() {
		c := make(chan struct{})
		go func() { close(c) }()
		<-c
	}
	return Int(id)
}

func Case() int { return js.Global.Get("verifCase").Int() }
func Done(id string) { js.Global.Call("verifCaseDone", id, Trace, Occ) }
`

const verifDirect = `//go:build js && direct

package verif

import "github.com/gopherjs/gopherjs/js"

type Int = int

// Y in the direct-form build: statically NOT blocking, so no caller is flattened.
func Y(id int) Int {
	Tr("y" + Itoa(int64(id)))
	Occ++
	return Int(id)
}

func Case() int { return js.Global.Get("verifCase").Int() }
func Done(id string) { js.Global.Call("verifCaseDone", id, Trace, Occ) }
`

const verifRef = `//go:build !js

package verif

type Int = int32

func Y(id int) Int {
	Tr("y" + Itoa(int64(id)))
	Occ++
	return Int(id)
}

func Case() int { return -1 }
func Done(id string) { println(id, Trace) }
`

const otherPkg = `package other

import "MOD/verif"

func Y2(id int) verif.Int { return verif.Y(id) }

type OT struct{ K verif.Int }

func (o OT) M(id int) verif.Int { return verif.Y(id) + o.K }
`

type kind struct {
	Name string
	Decl string // package-level declarations
	Call string // expression template with %s for the id argument
}

var kinds = []kind{
	{"direct", "", "verif.Y(%s)"},
	{"method", "type RV struct{ k Int }\nfunc (r RV) M(id int) Int { return verif.Y(id) + r.k }\nvar rv = RV{0}", "rv.M(%s)"},
	{"ptrmethod", "type RP struct{ k Int }\nfunc (r *RP) M(id int) Int { r.k++; return verif.Y(id) }\nvar rp = &RP{0}", "rp.M(%s)"},
	{"methodvalue", "type RV struct{ k Int }\nfunc (r RV) M(id int) Int { return verif.Y(id) + r.k }\nvar mv = RV{0}.M", "mv(%s)"},
	{"methodexpr", "type RV struct{ k Int }\nfunc (r RV) M(id int) Int { return verif.Y(id) + r.k }\nvar rv = RV{0}", "RV.M(rv, %s)"},
	{"iface", "type RV struct{ k Int }\nfunc (r RV) M(id int) Int { return verif.Y(id) + r.k }\ntype IF interface{ M(int) Int }\nvar ri IF = RV{0}", "ri.M(%s)"},
	{"funcvar", "var fv = func(id int) Int { return verif.Y(id) }", "fv(%s)"},
	{"funcfield", "type FS struct{ f func(int) Int }\nvar fst = FS{func(id int) Int { return verif.Y(id) }}", "fst.f(%s)"},
	{"funcmap", "var fm = map[string]func(int) Int{\"k\": func(id int) Int { return verif.Y(id) }}", "fm[\"k\"](%s)"},
	{"funcret", "func getf() func(int) Int { return func(id int) Int { return verif.Y(id) } }", "getf()(%s)"},
	{"generic", "func G[T any](id int) Int { var z T; _ = z; return verif.Y(id) }", "G[string](%s)"},
	{"genericmethod", "type GT[T any] struct{ v T }\nfunc (g GT[T]) M(id int) Int { _ = g.v; return verif.Y(id) }\nvar gv = GT[Int]{1}", "gv.M(%s)"},
	{"otherpkg", "", "other.Y2(%s)"},
	{"otherpkgmethod", "var ot = other.OT{}", "ot.M(%s)"},
	{"iife", "", "func(n int) Int { return verif.Y(n) }(%s)"},
	{"embedded", "type RV struct{ k Int }\nfunc (r RV) M(id int) Int { return verif.Y(id) + r.k }\ntype EM struct{ RV }\nvar em = &EM{}", "em.M(%s)"},
	{"deep", "func d1(id int) Int { return d2(id) + 0 }\nfunc d2(id int) Int { x := d3(id); return x }\nfunc d3(id int) Int { return verif.Y(id) }", "d1(%s)"},
}

type ctx struct {
	Name string
	Decl string // extra declarations; CALL(x) is expanded
	Body string // statements; CALL(x) is expanded
}

// Every context leaves a trace through verif.Tr / verif.TrI; Y traces its own id.
var ctxs = []ctx{
	{"stmt", "", `CALL(1); verif.Tr("after"); CALL(2)`},
	{"result", "", `x := CALL(1); verif.TrI("x", x); var y Int; y = CALL(2); verif.TrI("y", y)`},
	{"binop", "", `x := CALL(1) + 10*CALL(2) - CALL(3); verif.TrI("x", x); a := Int(5); b := a*CALL(2) + a; verif.TrI("b", b)`},
	{"args", "func use3CTX(a, b, c Int) Int { verif.Tr(\"use3\"); return a*100 + b*10 + c }", `x := use3CTX(CALL(1), CALL(2), CALL(3)); verif.TrI("x", x); y := use3CTX(7, CALL(2), 9); verif.TrI("y", y)`},
	{"nestedargs", "func use2CTX(a, b Int) Int { verif.TrI(\"u\", a*10+b); return a + b }", `x := use2CTX(CALL(1), use2CTX(CALL(2), CALL(3))); verif.TrI("x", x); y := use2CTX(use2CTX(CALL(1), 2), CALL(3)); verif.TrI("y", y)`},
	{"logical", "", `if CALL(1) == 1 && CALL(2) == 2 { verif.Tr("t1") }; if CALL(1) == 0 && CALL(2) == 2 { verif.Tr("t2") }; if CALL(1) == 1 || CALL(2) == 2 { verif.Tr("t3") }; if CALL(1) == 0 || CALL(2) == 0 { verif.Tr("t4") } else { verif.Tr("e4") }; b := CALL(0) == 0 && (CALL(1) == 5 || CALL(2) == 2); if b { verif.Tr("t5") }`},
	{"ifchain", "", `for _, k := range []Int{0, 1, 2} { if CALL(0) == k { verif.Tr("a") } else if CALL(1) == k { verif.Tr("b") } else if x := CALL(2); x == k { verif.TrI("c", x) } else { verif.Tr("d") } }`},
	{"switchtag", "", `for _, k := range []Int{1, 2, 3, 9} { switch CALL(int(k)) { case CALL(1): verif.Tr("one"); case CALL(2): verif.Tr("two"); fallthrough; case 7: verif.Tr("seven"); case 3: verif.Tr("three"); CALL(3); break; default: verif.Tr("def"); CALL(4) }; verif.Tr("end") }`},
	{"switchtagless", "", `for _, k := range []Int{1, 2, 3} { switch x := CALL(int(k)); { case x == CALL(1): verif.Tr("one"); case x == 2: verif.Tr("two"); CALL(2); default: verif.TrI("def", x) } }`},
	{"typeswitch", "func boxCTX(k Int) interface{} { if k == 1 { return k }; if k == 2 { return \"s\" }; return nil }", `for _, k := range []Int{1, 2, 3} { switch v := boxCTX(CALL(int(k))).(type) { case Int: verif.TrI("int", v); CALL(1); case string: verif.Tr("str" + v); CALL(2); default: verif.Tr("nil"); CALL(3) } }`},
	{"forclauses", "", `for i := CALL(0); i < CALL(3); i += CALL(1) { if i == 1 { verif.Tr("cont"); continue }; verif.TrI("i", i) }; n := 0; for CALL(n) < 2 { n++; verif.TrI("n", Int(n)) }`},
	{"forbody", "", `sum := Int(0); for i := 0; i < 3; i++ { sum += CALL(i); if i == 1 { CALL(5); continue }; verif.TrI("s", sum) }; verif.TrI("sum", sum)`},
	{"rangeslice", "func mkCTX(n Int) []Int { return []Int{n, n + 1} }", `for i, v := range []Int{5, 6, 7} { x := CALL(i); verif.TrI("v", v+x) }; for _, v := range mkCTX(CALL(2)) { verif.TrI("m", v); CALL(1) }`},
	{"rangeothers", "", `arr := [2]Int{3, 4}; for i, v := range arr { CALL(i); verif.TrI("a", v) }; pa := &arr; for i := range pa { pa[i] += CALL(1) }; verif.TrI("pa", arr[0]+arr[1]); for i, r := range "aé" { CALL(i); verif.TrI("r", Int(r)) }; m := map[Int]Int{1: 10}; for k, v := range m { CALL(int(k)); verif.TrI("mv", v) }; c := make(chan Int, 2); c <- 1; c <- 2; close(c); for v := range c { CALL(int(v)); verif.TrI("c", v) }`},
	{"labels", "", `outer: for i := 0; i < 3; i++ { for j := 0; j < 3; j++ { if CALL(j) == 1 { verif.Tr("co"); continue outer }; if i == 2 { verif.Tr("bo"); break outer }; verif.TrI("ij", Int(i*10+j)) } }; k := 0; loop: CALL(k); k++; if k < 3 { goto loop }; verif.TrI("k", Int(k)); sw: switch CALL(1) { case 1: for { CALL(2); break sw } }; verif.Tr("done")`},
	{"select", "func chCTX(n Int) chan Int { c := make(chan Int, 1); c <- n; return c }", `select { case v := <-chCTX(CALL(1)): verif.TrI("v", v); CALL(2); default: verif.Tr("def") }; c := make(chan Int, 1); select { case c <- CALL(3): verif.Tr("sent"); CALL(4) }; verif.TrI("got", <-c); var nc chan Int; select { case <-nc: verif.Tr("never"); default: CALL(5); verif.Tr("def2") }`},
	{"receiver", "type RCTX struct{ k Int }\nfunc (r RCTX) Add(n Int) Int { verif.TrI(\"add\", r.k); return r.k + n }\nfunc mkRCTX(k Int) RCTX { return RCTX{k} }\nfunc mkPCTX(k Int) *RCTX { return &RCTX{k} }", `x := mkRCTX(CALL(1)).Add(CALL(2)); verif.TrI("x", x); y := mkPCTX(CALL(3)).Add(CALL(4)); verif.TrI("y", y)`},
	{"complit", "type SCTX struct{ a, b Int }", `s := []Int{CALL(1), CALL(2)}; verif.TrI("s", s[0]*10+s[1]); st := SCTX{a: CALL(1), b: CALL(2)}; verif.TrI("st", st.a*10+st.b); m := map[Int]Int{CALL(1): CALL(2)}; verif.TrI("m", m[1]); arr := [2]Int{CALL(3), CALL(4)}; verif.TrI("arr", arr[0]*10+arr[1]); p := &SCTX{CALL(5), CALL(6)}; verif.TrI("p", p.a*10+p.b); n := [][]Int{{CALL(1)}, {CALL(2), CALL(3)}}; verif.TrI("n", n[1][1])`},
	{"indexslice", "", `arr := [3]Int{10, 20, 30}; sl := []Int{1, 2, 3, 4}; x := arr[CALL(1)] + sl[CALL(2)]; verif.TrI("x", x); s2 := sl[CALL(1):CALL(3)]; verif.TrI("len", Int(len(s2))); s3 := sl[CALL(0):CALL(2):CALL(3)]; verif.TrI("cap", Int(cap(s3))); str := "hello"[CALL(1):CALL(3)]; verif.Tr(str)`},
	{"lhs", "var gCTX Int\nfunc pfCTX(n Int) *Int { verif.TrI(\"pf\", n); return &gCTX }", `m := map[Int]Int{1: 5}; m[CALL(1)] += CALL(2); verif.TrI("m", m[1]); a := []Int{0, 0, 0}; a[CALL(1)]++; a[CALL(2)] += CALL(3); verif.TrI("a", a[1]*10+a[2]); pp := pfCTX(CALL(1)); *pp = CALL(2); verif.TrI("g", gCTX); m[3] = CALL(4); verif.TrI("m3", m[3]); a[0], a[1] = CALL(7), CALL(8); verif.TrI("a01", a[0]*10+a[1])`},
	{"tuple", "func twoCTX(n Int) (Int, Int) { return n, n + CALL(1) }", `a, b := CALL(1), CALL(2); a, b = b, a+CALL(3); verif.TrI("ab", a*10+b); x, y := twoCTX(CALL(4)); verif.TrI("xy", x*10+y); var i interface{} = CALL(5); v, ok := i.(Int); if ok { verif.TrI("v", v) }`},
	{"returns", "func r2CTX() (Int, Int) { return CALL(1), CALL(2) }\nfunc r1CTX(k Int) Int { if k == 0 { return CALL(3) }; for i := 0; i < 2; i++ { if Int(i) == k-1 { return CALL(4) + Int(i) } }; return -1 }\nfunc rcCTX() interface{} { return CALL(5) }", `a, b := r2CTX(); verif.TrI("ab", a*10+b); verif.TrI("r0", r1CTX(0)); verif.TrI("r1", r1CTX(1)); verif.TrI("r2", r1CTX(2)); verif.TrI("r5", r1CTX(5)); verif.TrI("rc", rcCTX().(Int))`},
	{"namedresult", "func nrCTX() (r Int, s string) { defer func() { r += CALL(5); s += \"d\" }(); r = CALL(1); s = \"b\"; return r + CALL(2), s + \"r\" }\nfunc nr2CTX() (r Int) { defer func() { if e := recover(); e != nil { r = CALL(9) } }(); r = CALL(1); panic(\"p\") }", `r, s := nrCTX(); verif.TrI("r"+s, r); verif.TrI("nr2", nr2CTX())`},
	{"returnlocal", "func rl1CTX() Int { x := Int(42); defer func() { x = -1; CALL(1); x = -2 }(); return x }\nfunc rl2CTX(p Int) (Int, string) { s := \"a\"; defer func() { p += 100; s += \"d\"; CALL(2); p += 1000 }(); defer func() { CALL(3); p++ }(); return p, s }\nfunc rl3CTX() Int { defer func() { CALL(4) }(); return 7 }\nfunc rl4CTX() [2]Int { a := [2]Int{1, 2}; defer func() { a[0] = 9; CALL(5); a[1] = 8 }(); return a }\nfunc rl5CTX() *Int { x := Int(5); p := &x; defer func() { p = nil; CALL(6) }(); return p }\ntype rlSCTX struct{ v Int }\nfunc rl6CTX() rlSCTX { s := rlSCTX{1}; defer func() { s.v = 2; CALL(7); s.v = 3 }(); return s }\nfunc rl7CTX(k Int) Int { for i := Int(0); i < 3; i++ { if i == k { defer func() { i = 50; CALL(8) }(); return i } }; return -1 }\nfunc rl8CTX() (Int, Int) { x, y := Int(1), Int(2); defer func() { x, y = y, x; CALL(9) }(); return x, y }", `verif.TrI("rl1", rl1CTX()); p, s := rl2CTX(5); verif.TrI("rl2"+s, p); verif.TrI("rl3", rl3CTX()); a := rl4CTX(); verif.TrI("rl4", a[0]*10+a[1]); verif.TrI("rl5", *rl5CTX()); verif.TrI("rl6", rl6CTX().v); verif.TrI("rl7", rl7CTX(1)); x, y := rl8CTX(); verif.TrI("rl8", x*10+y)`},
	// a non-blocking call with an effect written BEFORE a blocking one inside the same expression / statement
	{"mixedbinop", "", `x := verif.TrI("a", 1) + CALL(2); verif.TrI("x", x); y := verif.TrI("a", 1) * CALL(2) - verif.TrI("c", 3); verif.TrI("y", y)`},
	{"mixedcompare", "", `if verif.TrI("a", 1) < CALL(2) { verif.Tr("lt") }; b := verif.TrI("a", 3) == CALL(3); if b { verif.Tr("eq") }`},
	{"mixedindexassign", "", `arr := []Int{0, 0}; arr[verif.TrI("i", 1)] = CALL(2); verif.TrI("arr", arr[1]); var fa [2]Int; fa[verif.TrI("i", 0)] = CALL(3); verif.TrI("fa", fa[0])`},
	{"mixedmapassign", "", `m := map[Int]Int{}; m[verif.TrI("k", 1)] = CALL(2); verif.TrI("m", m[1])`},
	{"mixedindexread", "", `arr := []Int{5, 6}; x := arr[verif.TrI("i", 1)] + CALL(2); verif.TrI("x", x); m := map[Int]Int{1: 7}; y := m[verif.TrI("k", 1)] + CALL(3); verif.TrI("y", y)`},
	{"mixedmethodarg", "type MRCTX struct{}\nfunc mkMRCTX() MRCTX { verif.Tr(\"recv\"); return MRCTX{} }\nfunc (MRCTX) m(x Int) Int { return verif.TrI(\"m\", x) }", `verif.TrI("r", mkMRCTX().m(CALL(1)))`},
	{"mixedfuncindex", "", `fs := []func(Int) Int{func(x Int) Int { return verif.TrI("f", x) }}; verif.TrI("r", fs[verif.TrI("i", 0)](CALL(1)))`},
	{"mixedsliceliteral", "", `s := []Int{verif.TrI("e", 1), CALL(2), verif.TrI("e", 3)}; verif.TrI("s", s[0]*100+s[1]*10+s[2]); a := [2]Int{verif.TrI("e", 4), CALL(5)}; verif.TrI("a", a[0]*10+a[1])`},
	{"mixedstructliteral", "type MSCTX struct{ a, b Int }", `st := MSCTX{verif.TrI("e", 1), CALL(2)}; verif.TrI("st", st.a*10+st.b); kv := MSCTX{b: verif.TrI("e", 3), a: CALL(4)}; verif.TrI("kv", kv.a*10+kv.b); mm := map[Int]Int{verif.TrI("k", 5): CALL(6)}; verif.TrI("mm", mm[5])`},
	{"mixedargs", "func mgCTX(p, q, r Int) Int { return p*100 + q*10 + r }", `verif.TrI("g", mgCTX(verif.TrI("a", 1), CALL(2), verif.TrI("c", 3)))`},
	{"mixedargsmany", "func mg5CTX(p, q, r, s, t Int) Int { return verif.TrI(\"mg5=\", p*10000+q*1000+r*100+s*10+t) }\ntype MGCTX struct{}\nfunc (MGCTX) m(p, q, r, s Int) Int { return verif.TrI(\"m=\", p*1000+q*100+r*10+s) }", `verif.TrI("g", mg5CTX(verif.TrI("a", 1), CALL(2), verif.TrI("c", 3), CALL(4), verif.TrI("e", 5))); verif.TrI("h", MGCTX{}.m(CALL(1), verif.TrI("b", 2), CALL(3), verif.TrI("d", 4))); func() { defer mg5CTX(verif.TrI("a", 1), CALL(2), verif.TrI("c", 3), CALL(4), 5); verif.Tr("body") }(); done := make(chan Int); go func(p, q, r, s Int) { done <- p*1000 + q*100 + r*10 + s }(verif.TrI("a", 1), CALL(2), verif.TrI("c", 3), CALL(4)); verif.TrI("go", <-done)`},
	{"tuplelhs", "func pairCTX() (Int, Int) { return verif.TrI(\"p\", 3), 30 }\ntype bxCTX struct{ f Int }\nvar gbxCTX bxCTX\nfunc boxCTX(n Int) *bxCTX { return &gbxCTX }", `arr := []Int{0, 0, 0, 0}; var a Int; a, arr[CALL(3)] = pairCTX(); verif.TrI("a", a*100+arr[3]); arr[CALL(1)], arr[CALL(2)] = pairCTX(); verif.TrI("arr", arr[1]*100+arr[2]); a, boxCTX(CALL(1)).f = pairCTX(); verif.TrI("box", a*100+gbxCTX.f); m := map[string]Int{"k": 7}; oks := []bool{false, false}; var v Int; v, oks[CALL(1)] = m["k"]; if oks[1] { verif.TrI("v", v) }; var i interface{} = Int(9); v, oks[CALL(0)] = i.(Int); if oks[0] { verif.TrI("as", v) }; c := make(chan Int, 1); c <- 4; oks[1] = false; v, oks[CALL(1)] = <-c; if oks[1] { verif.TrI("rc", v) }; x, y := CALL(1), arr[CALL(2)]; verif.TrI("xy", x*100+y)`},
	{"tuplefwd", "func pairfCTX() (Int, Int) { return verif.TrI(\"p\", 3), 30 }\nfunc getfCTX(n Int) func(Int, Int) Int { return func(a, b Int) Int { return a*100 + b + n } }\ntype fwCTX struct{ k Int }\nfunc (f fwCTX) sum(a, b Int) Int { return a + b + f.k }\nfunc mkfwCTX(k Int) fwCTX { return fwCTX{k} }", `verif.TrI("f", getfCTX(CALL(1))(pairfCTX())); verif.TrI("m", mkfwCTX(CALL(2)).sum(pairfCTX())); func() { defer getfCTX(CALL(3))(pairfCTX()); verif.Tr("body") }(); verif.TrI("plain", getfCTX(4)(pairfCTX()))`},
	{"mixedtuple", "func mtCTX() (Int, Int) { return verif.TrI(\"a\", 1), CALL(2) }", `a, b := verif.TrI("a", 1), CALL(2); verif.TrI("ab", a*10+b); c, d := mtCTX(); verif.TrI("cd", c*10+d)`},
	{"mixedsendappend", "", `c := make(chan Int, 2); var sl []Int; sl = append(sl, verif.TrI("e", 1), CALL(2)); verif.TrI("sl", sl[0]*10+sl[1]); s2 := "a" + string(rune(64+verif.TrI("r", 1))) + string(rune(64+CALL(2))); verif.Tr(s2); c <- verif.TrI("v", 1) + CALL(2); verif.TrI("c", <-c)`},
	{"defers", "", `func() { defer func() { verif.Tr("d1"); CALL(1); verif.Tr("d1e") }(); defer func() { verif.Tr("d2"); CALL(2); verif.Tr("d2e") }(); defer verif.TrI("arg", CALL(3)); verif.Tr("body"); CALL(4) }(); verif.Tr("after")`},
	{"deferpanic", "", `func() { defer func() { verif.Tr("outer"); r := recover(); if r != nil { verif.Tr("rec:" + r.(string)) }; CALL(3) }(); func() { defer func() { verif.Tr("d1"); CALL(1); verif.Tr("d1e") }(); defer func() { CALL(2); verif.Tr("d2e") }(); verif.Tr("body"); panic("p") }(); verif.Tr("notreached") }(); verif.Tr("after")`},
	{"deferrecover", "", `x := func() (r Int) { defer func() { CALL(1); e := recover(); CALL(2); if e != nil { r = 7 }; CALL(3) }(); CALL(4); var m map[Int]Int; m[1] = 1; return 1 }(); verif.TrI("x", x); y := func() (r Int) { defer func() { recover() }(); defer func() { CALL(5); panic("second") }(); panic("first") }(); verif.TrI("y", y)`},
	{"loopclosure", "", `var fs []func() Int; for i := 0; i < 3; i++ { j := Int(i); CALL(i); fs = append(fs, func() Int { j += 10; return j + CALL(1) }) }; CALL(2); for _, f := range fs { verif.TrI("f", f()) }; verif.TrI("f0", fs[0]())`},
	{"forclausecapture", "", `var fs []func() Int; var ps []*Int; for i := Int(0); i < 3; i++ { fs = append(fs, func() Int { return i * 10 }); ps = append(ps, &i); CALL(int(i)) }; CALL(5); for k, f := range fs { verif.TrI("f", f()+*ps[k]) }; cnt := 0; for i, n := Int(0), CALL(4); i < n; i++ { dec := func() { n-- }; CALL(int(i)); dec(); cnt++ }; verif.TrI("cnt", Int(cnt)); for i := Int(0); i < 2; i++ { for j := Int(0); j < 2; j++ { fs = append(fs, func() Int { return i*10 + j }); CALL(int(j)) } }; verif.TrI("last", fs[len(fs)-1]()+fs[3]())`},
	{"nestedlit", "", `x := Int(1); func() { y := x + CALL(1); func() { x += y + CALL(2); verif.TrI("in", x) }(); CALL(3); verif.TrI("mid", x+y) }(); verif.TrI("out", x)`},
	{"recursion", "func recCTX(n int) Int { if n == 0 { return CALL(0) }; x := CALL(n); y := recCTX(n - 1); return x*100 + y + CALL(n) }", `verif.TrI("rec", recCTX(3))`},
	{"gostmt", "", `done := make(chan Int); go func(v Int) { verif.TrI("g", v); done <- v + CALL(2) }(CALL(1)); verif.TrI("got", <-done)`},
	{"locals", "func locCTX(p1 Int, p2 string, p3 [2]Int) Int { a := p1 + 1; b := p2 + \"x\"; c := p3; c[0] += CALL(1); p1 += CALL(2); d := int64(1)<<40 + int64(CALL(3)); e := []Int{a, p1}; f := struct{ u, v Int }{a, c[0]}; g := 1.5 + float64(CALL(4)); p3[1] = 9; h := &a; *h += CALL(5); verif.Tr(b); verif.TrI(\"c\", c[0]*10+c[1]); verif.TrI(\"d\", Int(d>>38)+Int(d&0xff)); verif.TrI(\"e\", e[0]*10+e[1]); verif.TrI(\"f\", f.u*10+f.v); verif.TrI(\"g\", Int(g*2)); verif.TrI(\"p3\", p3[0]*10+p3[1]); return a + p1 }", `verif.TrI("loc", locCTX(1, "s", [2]Int{3, 4}))`},
	{"escaping", "", `x := Int(1); p := &x; CALL(1); *p += 1; f := func() { x += CALL(2) }; f(); verif.TrI("x", x); arr := [2]Int{1, 2}; q := &arr[1]; CALL(3); *q += 5; verif.TrI("arr", arr[1]); s := struct{ a Int }{1}; ps := &s; CALL(4); ps.a++; verif.TrI("s", s.a)`},
	{"switchinfor", "", `for i := 0; i < 4; i++ { switch { case i == 0: CALL(0); continue; case i == 1: CALL(1); break; case i == 2: if CALL(2) == 2 { break }; verif.Tr("nb"); default: verif.Tr("def") }; verif.TrI("after", Int(i)) }`},
	{"conv", "type NCTX Int\nfunc (n NCTX) Get() Int { return Int(n) }", `x := NCTX(CALL(1)).Get() + Int(int8(CALL(2))) + Int(float64(CALL(3))); verif.TrI("x", x); var i interface{} = CALL(4); verif.TrI("i", i.(Int)); s := string(rune(65 + CALL(1))); verif.Tr(s); u := uint64(CALL(2)) << 33; verif.TrI("u", Int(u>>32))`},
	{"chanops", "", `c := make(chan Int, 3); c <- CALL(1); c <- CALL(2) + CALL(3); x := <-c + CALL(4); verif.TrI("x", x); v, ok := <-c; verif.TrI("v", v); if ok { CALL(5) }; close(c); _, ok = <-c; if !ok { verif.Tr("closed") }`},
	{"structops", "type PCTX struct{ a Int; in struct{ b Int } }", `var p PCTX; p.a = CALL(1); p.in.b = CALL(2); q := p; q.a += CALL(3); verif.TrI("pq", p.a*100+q.a*10+q.in.b); pp := &p; pp.in.b += CALL(4); verif.TrI("pb", p.in.b); arr := [2]PCTX{}; ix := CALL(1); arr[ix].a = CALL(5); brr := arr; brr[1].a += CALL(1); verif.TrI("ab", arr[1].a*10+brr[1].a)`},
}

func expandCalls(src, call string) string {
	// replace CALL(expr) by the call expression with expr as id argument; handle nested parens
	var b strings.Builder
	for {
		i := strings.Index(src, "CALL(")
		if i < 0 {
			b.WriteString(src)
			break
		}
		b.WriteString(src[:i])
		j := i + len("CALL(")
		depth := 1
		k := j
		for depth > 0 {
			switch src[k] {
			case '(':
				depth++
			case ')':
				depth--
			}
			k++
		}
		arg := src[j : k-1]
		b.WriteString(fmt.Sprintf(call, arg))
		src = src[k:]
	}
	return b.String()
}

// Program builds the program for one call kind.
func Program(k kind) diffrun.Program {
	name := "c02_" + k.Name
	mod := diffrun.ModName(name)
	var b strings.Builder
	b.WriteString("package main\n\nimport (\n\t\"" + mod + "/verif\"\n")
	usesOther := strings.Contains(k.Call, "other.") || strings.Contains(k.Decl, "other.")
	if usesOther {
		b.WriteString("\t\"" + mod + "/other\"\n")
	}
	b.WriteString(")\n\ntype Int = verif.Int\n\n")
	b.WriteString(k.Decl + "\n\n")
	var names []string
	for _, c := range ctxs {
		r := strings.NewReplacer("CTX", "_"+c.Name)
		if c.Decl != "" {
			b.WriteString(expandCalls(r.Replace(c.Decl), k.Call) + "\n\n")
		}
		body := expandCalls(r.Replace(c.Body), k.Call)
		fmt.Fprintf(&b, "func ctx_%s() {\n\t%s\n}\n\n", c.Name, strings.ReplaceAll(body, "; ", "\n\t"))
		names = append(names, c.Name)
	}
	b.WriteString("var cases = []struct {\n\tid string\n\tf  func()\n}{\n")
	for _, n := range names {
		fmt.Fprintf(&b, "\t{\"C02/%s/%s\", ctx_%s},\n", k.Name, n, n)
	}
	b.WriteString("}\n\nfunc runCase(i int) {\n\tverif.Trace = \"\"\n\tverif.Occ = 0\n\tcases[i].f()\n\tverif.Done(cases[i].id)\n}\n\n")
	b.WriteString("func main() {\n\tif c := verif.Case(); c >= 0 {\n\t\tif c < len(cases) {\n\t\t\trunCase(c)\n\t\t}\n\t\treturn\n\t}\n\tfor i := range cases {\n\t\trunCase(i)\n\t}\n}\n")
	files := map[string]string{
		"main.go":            b.String(),
		"verif/common.go":    verifCommon,
		"verif/y_js.go":      verifJS,
		"verif/y_direct.go":  verifDirect,
		"verif/y_ref.go":     verifRef,
		"other/other.go":     strings.ReplaceAll(otherPkg, "MOD", mod),
	}
	return diffrun.Program{Name: name, Files: files, NoHelpers: true}
}

// NCases is the number of contexts (cases per program).
func NCases() int { return len(ctxs) }

// Programs returns one program per call kind.
func Programs() []diffrun.Program {
	var ps []diffrun.Program
	for _, k := range kinds {
		ps = append(ps, Program(k))
	}
	return ps
}

// VerifFiles returns the files of the yield-helper package (three tagged variants).
func VerifFiles() map[string]string {
	return map[string]string{"verif/common.go": verifCommon, "verif/y_js.go": verifJS, "verif/y_direct.go": verifDirect, "verif/y_ref.go": verifRef}
}
