// Package mathx generates the C13(a) explorer programs: math, math/bits, unicode, sync/atomic.
package mathx

import (
	"fmt"
	"strings"

	"verif/mc/diffrun"
)

const mathSrc = `package main

import "math"

func fb(f float64) string {
	if f != f {
		return "NaN"
	}
	return hex(math.Float64bits(f))
}

// class of a result for functions whose exact bits are not claimed (transcendental)
func cls(f float64) string {
	switch {
	case f != f:
		return "NaN"
	case f == 0 && math.Signbit(f):
		return "-0"
	case f == 0:
		return "+0"
	case math.IsInf(f, 1):
		return "+Inf"
	case math.IsInf(f, -1):
		return "-Inf"
	case f == 1:
		return "1"
	case f == -1:
		return "-1"
	case f > 0:
		return "pos"
	}
	return "neg"
}

var grid []float64

func mkgrid() {
	nz := math.Copysign(0, -1)
	base := []float64{0, nz, 1, -1, 0.5, -0.5, 1.5, -1.5, 2.5, -2.5, 3.5, 0.49999999999999994, 0.5000000000000001, 2, -2, 3, 10, 0.1, -0.1, 1e-10,
		math.Inf(1), math.Inf(-1), math.NaN(), math.MaxFloat64, -math.MaxFloat64, math.SmallestNonzeroFloat64, -math.SmallestNonzeroFloat64,
		2.2250738585072014e-308, 2.225073858507201e-308, 1 << 31, 1<<31 - 0.5, 1<<31 + 0.5, -(1 << 31), -(1 << 31) - 0.5, 1 << 32, 1<<32 + 0.5, 1e10, -1e10,
		1 << 52, 1<<52 + 0.5, 1<<52 - 0.5, 1 << 53, 1<<53 - 1, -(1 << 53), 1 << 62, 1 << 63, 1 << 64, 1e100, -1e100, 1e300, 1e-300, 4503599627370497.5, 0.9999999999999999, 1.0000000000000002, -0.9999999999999999,
		1023, 1024, -1074, 7, 1e15 + 0.5, 123456.789, -123456.789, 2147483647.5, 4294967295.5, -4294967296.5}
	grid = base
}

func one(name string, f func(float64) float64, exact bool) {
	for i, x := range grid {
		r := f(x)
		s := cls(r)
		if exact {
			s = fb(r)
		}
		println("C13/math/"+name+"/i="+itoa(int64(i)), s)
	}
}

func two(name string, f func(x, y float64) float64, exact bool) {
	for i, x := range grid {
		d := newDigest()
		for _, y := range grid {
			r := f(x, y)
			if exact {
				d.str(fb(r))
			} else {
				// only the documented special cases are claimed: classify, and only when an
				// operand is special (0, Inf, NaN, 1, -1)
				if x == 0 || y == 0 || x != x || y != y || math.IsInf(x, 0) || math.IsInf(y, 0) || x == 1 || x == -1 || y == 1 || y == -1 {
					d.str(cls(r))
				}
			}
			if detailCase == "C13/math/"+name+"/i="+itoa(int64(i)) {
				println(detailCase+"/y="+fb(y), fb(r), cls(r))
			}
		}
		println("C13/math/"+name+"/i="+itoa(int64(i)), d.String())
	}
}

func main() {
	mkgrid()
	one("Ceil", math.Ceil, true)
	one("Floor", math.Floor, true)
	one("Trunc", math.Trunc, true)
	one("Round", math.Round, true)
	one("RoundToEven", math.RoundToEven, true)
	one("Abs", math.Abs, true)
	one("Sqrt", math.Sqrt, true)
	one("Cbrt", math.Cbrt, false)
	one("Exp", math.Exp, false)
	one("Exp2", math.Exp2, false)
	one("Expm1", math.Expm1, false)
	one("Log", math.Log, false)
	one("Log2", math.Log2, false)
	one("Log10", math.Log10, false)
	one("Log1p", math.Log1p, false)
	one("Sin", math.Sin, false)
	one("Cos", math.Cos, false)
	one("Tan", math.Tan, false)
	one("Asin", math.Asin, false)
	one("Acos", math.Acos, false)
	one("Atan", math.Atan, false)
	one("Sinh", math.Sinh, false)
	one("Cosh", math.Cosh, false)
	one("Tanh", math.Tanh, false)
	one("Asinh", math.Asinh, false)
	one("Acosh", math.Acosh, false)
	one("Atanh", math.Atanh, false)
	one("Erf", math.Erf, false)
	one("Erfc", math.Erfc, false)
	one("Gamma", math.Gamma, false)
	two("Copysign", math.Copysign, true)
	two("Mod", math.Mod, true)
	two("Remainder", math.Remainder, true)
	two("Max", math.Max, true)
	two("Min", math.Min, true)
	two("Dim", math.Dim, true)
	two("Nextafter", math.Nextafter, true)
	two("Pow", math.Pow, false)
	two("Atan2", math.Atan2, false)
	two("Hypot", math.Hypot, false)
	for i, x := range grid {
		ip, fr := math.Modf(x)
		f, e := math.Frexp(x)
		println("C13/math/Modf/i="+itoa(int64(i)), fb(ip), fb(fr))
		println("C13/math/Frexp/i="+itoa(int64(i)), fb(f), itoa(int64(e)))
		println("C13/math/class/i="+itoa(int64(i)), btoa(math.Signbit(x)), btoa(math.IsNaN(x)), btoa(math.IsInf(x, 0)), btoa(math.IsInf(x, 1)), btoa(math.IsInf(x, -1)))
		if x == x {
			println("C13/math/bits/i="+itoa(int64(i)), hex(math.Float64bits(x)), fb(math.Float64frombits(math.Float64bits(x))), hex(uint64(math.Float32bits(float32(x)))), fb(float64(math.Float32frombits(math.Float32bits(float32(x))))))
		} else {
			// NaN payloads are not compared; the exponent and quiet bits are
			println("C13/math/bits/i="+itoa(int64(i)), hex(math.Float64bits(x)>>51), hex(uint64(math.Float32bits(float32(x))>>22)), btoa(math.IsNaN(math.Float64frombits(math.Float64bits(x)))))
		}
		s, c := math.Sincos(x)
		println("C13/math/Sincos/i="+itoa(int64(i)), cls(s), cls(c))
		d := newDigest()
		for _, e := range []int{-1100, -1075, -1074, -1073, -1023, -1022, -1021, -54, -53, -52, -1, 0, 1, 2, 52, 53, 54, 1022, 1023, 1024, 1025, 1100, 2100} {
			r := math.Ldexp(x, e)
			d.str(fb(r))
			if detailCase == "C13/math/Ldexp/i="+itoa(int64(i)) {
				println(detailCase+"/e="+itoa(int64(e)), fb(r))
			}
		}
		println("C13/math/Ldexp/i="+itoa(int64(i)), d.String())
		println("C13/math/Ilogb-Logb/i="+itoa(int64(i)), fb(math.Logb(x)), func() string { if x != x || x == 0 || math.IsInf(x, 0) { return "special" }; return itoa(int64(math.Ilogb(x))) }())
	}
	// bit-pattern functions over raw patterns
	for _, b := range []uint64{0, 1, 1 << 63, 0x7ff0000000000000, 0xfff0000000000000, 0x7ff8000000000001, 0x000fffffffffffff, 0x0010000000000000, 0x3ff0000000000000, 0xbff0000000000000, 0x7fefffffffffffff, 0x4330000000000001, 0x123456789abcdef0} {
		f := math.Float64frombits(b)
		println("C13/math/frombits/b="+hex(b), fb(f), hex(uint64(math.Float32bits(math.Float32frombits(uint32(b>>32))))), hex(uint64(math.Float32bits(math.Float32frombits(uint32(b))))))
	}
	println("C13/math/Inf-NaN", fb(math.Inf(1)), fb(math.Inf(0)), fb(math.Inf(-1)), fb(math.NaN()))
}
`

const bitsSrc = `package main

import "math/bits"

func pr(f func() string) (res string) {
	defer func() {
		if r := recover(); r != nil {
			res = "PANIC:" + errClass(r)
		}
	}()
	return f()
}

var g32 = []uint32{0, 1, 2, 3, 0x7f, 0x80, 0xff, 0x100, 0xffff, 0x10000, 0x7fffffff, 0x80000000, 0xffffffff, 0xfffffffe, 0x55555555, 0xaaaaaaaa, 0x12345678, 0xdeadbeef, 0x0000ffff, 0xffff0000, 0x00010001}
var g64 = []uint64{0, 1, 2, 0xff, 0xffff, 0xffffffff, 0x100000000, 0x100000001, 0x7fffffffffffffff, 0x8000000000000000, 0xffffffffffffffff, 0xfffffffffffffffe, 0x5555555555555555, 0xaaaaaaaaaaaaaaaa, 0x123456789abcdef0, 0xdeadbeefcafebabe, 0x00000000ffffffff, 0xffffffff00000000, 0x0000000100000000, 0x00000001ffffffff}

func main() {
	// 8-bit and 16-bit variants exhaustively
	{
		d := newDigest()
		for i := 0; i < 256; i++ {
			x := uint8(i)
			d.w(uint32(bits.LeadingZeros8(x)))
			d.w(uint32(bits.TrailingZeros8(x)))
			d.w(uint32(bits.OnesCount8(x)))
			d.w(uint32(bits.Reverse8(x)))
			d.w(uint32(bits.Len8(x)))
			for k := -9; k <= 9; k++ {
				d.w(uint32(bits.RotateLeft8(x, k)))
			}
		}
		println("C13/bits/8", d.String())
		d = newDigest()
		for i := 0; i < 65536; i++ {
			x := uint16(i)
			d.w(uint32(bits.LeadingZeros16(x)))
			d.w(uint32(bits.TrailingZeros16(x)))
			d.w(uint32(bits.OnesCount16(x)))
			d.w(uint32(bits.Reverse16(x)))
			d.w(uint32(bits.ReverseBytes16(x)))
			d.w(uint32(bits.Len16(x)))
			d.w(uint32(bits.RotateLeft16(x, i%37-18)))
		}
		println("C13/bits/16", d.String())
	}
	for _, x := range g32 {
		xs := hex(uint64(x))
		println("C13/bits/32/unary/x="+xs, itoa(int64(bits.LeadingZeros32(x))), itoa(int64(bits.TrailingZeros32(x))), itoa(int64(bits.OnesCount32(x))), hex(uint64(bits.Reverse32(x))), hex(uint64(bits.ReverseBytes32(x))), itoa(int64(bits.Len32(x))),
			uintUnary(x))
		d := newDigest()
		for k := -70; k <= 70; k++ {
			d.w(bits.RotateLeft32(x, k))
			d.w(uintRot(x, k))
		}
		println("C13/bits/32/rot/x="+xs, d.String())
		for _, y := range g32 {
			ys := "/y=" + hex(uint64(y))
			hi, lo := bits.Mul32(x, y)
			s0, c0 := bits.Add32(x, y, 0)
			s1, c1 := bits.Add32(x, y, 1)
			d0, b0 := bits.Sub32(x, y, 0)
			d1, b1 := bits.Sub32(x, y, 1)
			println("C13/bits/32/arith/x="+xs+ys, hex(uint64(hi)), hex(uint64(lo)), hex(uint64(s0)), itoa(int64(c0)), hex(uint64(s1)), itoa(int64(c1)), hex(uint64(d0)), itoa(int64(b0)), hex(uint64(d1)), itoa(int64(b1)))
			for _, z := range []uint32{0, 1, 3, 0x80000000, 0xffffffff, 0x10001} {
				println("C13/bits/32/div/x="+xs+ys+"/z="+hex(uint64(z)), pr(func() string { q, r := bits.Div32(x, y, z); return hex(uint64(q)) + "," + hex(uint64(r)) }), pr(func() string { return hex(uint64(bits.Rem32(x, y, z))) }))
			}
		}
	}
	for _, x := range g64 {
		xs := hex(x)
		println("C13/bits/64/unary/x="+xs, itoa(int64(bits.LeadingZeros64(x))), itoa(int64(bits.TrailingZeros64(x))), itoa(int64(bits.OnesCount64(x))), hex(bits.Reverse64(x)), hex(bits.ReverseBytes64(x)), itoa(int64(bits.Len64(x))))
		d := newDigest()
		for k := -130; k <= 130; k++ {
			d.u64(bits.RotateLeft64(x, k))
		}
		println("C13/bits/64/rot/x="+xs, d.String())
		for _, y := range g64 {
			ys := "/y=" + hex(y)
			hi, lo := bits.Mul64(x, y)
			s0, c0 := bits.Add64(x, y, 0)
			s1, c1 := bits.Add64(x, y, 1)
			d0, b0 := bits.Sub64(x, y, 0)
			d1, b1 := bits.Sub64(x, y, 1)
			println("C13/bits/64/arith/x="+xs+ys, hex(hi), hex(lo), hex(s0), utoa(c0), hex(s1), utoa(c1), hex(d0), utoa(b0), hex(d1), utoa(b1))
			for _, z := range []uint64{0, 1, 3, 1 << 63, 1<<64 - 1, 0x100000001} {
				println("C13/bits/64/div/x="+xs+ys+"/z="+hex(z), pr(func() string { q, r := bits.Div64(x, y, z); return hex(q) + "," + hex(r) }), pr(func() string { return hex(bits.Rem64(x, y, z)) }))
			}
		}
	}
	// uint-sized variants: uint is 32 bits wide under GopherJS (documented), so they are compared
	// with the 32-bit functions on the JS side and are trivially consistent natively
	for _, x := range g32 {
		for _, y := range g32 {
			println("C13/bits/uint/x="+hex(uint64(x))+"/y="+hex(uint64(y)), uintBinary(x, y))
		}
	}
}
`

const bitsJS = `//go:build js

package main

import "math/bits"

func uintUnary(x uint32) string {
	if bits.UintSize != 32 || bits.LeadingZeros(uint(x)) != bits.LeadingZeros32(x) || bits.TrailingZeros(uint(x)) != bits.TrailingZeros32(x) || bits.OnesCount(uint(x)) != bits.OnesCount32(x) || bits.Len(uint(x)) != bits.Len32(x) || uint32(bits.Reverse(uint(x))) != bits.Reverse32(x) || uint32(bits.ReverseBytes(uint(x))) != bits.ReverseBytes32(x) {
		return "uint variants differ from 32-bit variants"
	}
	return "consistent"
}

func uintRot(x uint32, k int) uint32 {
	if uint32(bits.RotateLeft(uint(x), k)) != bits.RotateLeft32(x, k) {
		return 0xbad
	}
	return 1
}

func uintBinary(x, y uint32) string {
	hi, lo := bits.Mul(uint(x), uint(y))
	hi2, lo2 := bits.Mul32(x, y)
	s, c := bits.Add(uint(x), uint(y), 1)
	s2, c2 := bits.Add32(x, y, 1)
	d, b := bits.Sub(uint(x), uint(y), 1)
	d2, b2 := bits.Sub32(x, y, 1)
	if uint32(hi) != hi2 || uint32(lo) != lo2 || uint32(s) != s2 || uint32(c) != c2 || uint32(d) != d2 || uint32(b) != b2 {
		return "uint variants differ from 32-bit variants"
	}
	if y > x {
		q, r := bits.Div(uint(x), uint(y), uint(y))
		q2, r2 := bits.Div32(x, y, y)
		if uint32(q) != q2 || uint32(r) != r2 || uint32(bits.Rem(uint(x), uint(y), uint(y))) != bits.Rem32(x, y, y) {
			return "uint Div differs from Div32"
		}
	}
	return "consistent"
}
`

const bitsRef = `//go:build !js

package main

func uintUnary(x uint32) string       { return "consistent" }
func uintRot(x uint32, k int) uint32  { return 1 }
func uintBinary(x, y uint32) string   { return "consistent" }
`

const unicodeSrc = `package main

import "unicode"

func bu(b bool) uint32 {
	if b {
		return 1
	}
	return 0
}

func main() {
	for blk := lo; blk < hi; blk += 4096 {
		d := newDigest()
		e := newDigest()
		for r := rune(blk); r < rune(blk)+4096; r++ {
			d.w(uint32(unicode.ToUpper(r)))
			d.w(uint32(unicode.ToLower(r)))
			d.w(uint32(unicode.ToTitle(r)))
			d.w(uint32(unicode.SimpleFold(r)))
			d.w(uint32(unicode.To(unicode.UpperCase, r)))
			d.w(uint32(unicode.To(unicode.LowerCase, r)))
			d.w(uint32(unicode.To(unicode.TitleCase, r)))
			d.w(uint32(unicode.TurkishCase.ToUpper(r)))
			d.w(uint32(unicode.TurkishCase.ToLower(r)))
			e.w(bu(unicode.IsUpper(r)) | bu(unicode.IsLower(r))<<1 | bu(unicode.IsTitle(r))<<2 | bu(unicode.IsLetter(r))<<3 | bu(unicode.IsDigit(r))<<4 | bu(unicode.IsNumber(r))<<5 | bu(unicode.IsSpace(r))<<6 | bu(unicode.IsPunct(r))<<7 | bu(unicode.IsControl(r))<<8 | bu(unicode.IsGraphic(r))<<9 | bu(unicode.IsPrint(r))<<10 | bu(unicode.IsMark(r))<<11 | bu(unicode.IsSymbol(r))<<12)
			if detailCase == "C13/unicode/blk="+itoa(int64(blk)) {
				println(detailCase+"/r="+itoa(int64(r)), itoa(int64(unicode.ToUpper(r))), itoa(int64(unicode.ToLower(r))), itoa(int64(unicode.ToTitle(r))), itoa(int64(unicode.SimpleFold(r))))
			}
		}
		println("C13/unicode/blk="+itoa(int64(blk)), d.String(), e.String())
	}
}
`

const atomicSrc = `package main

import (
	"sync/atomic"
	"unsafe"
)

var vals32 = []int32{0, 1, -1, 2147483647, -2147483648}
var vals64 = []int64{0, 1, -1, 9223372036854775807, -9223372036854775808, 1 << 32}

// explores all histories up to depth over {Load, Store v, Add d, Swap v, CAS(o,n)} and digests every returned value
func explore32(id string, depth int) {
	nv := len(vals32)
	nops := 1 + nv + nv + nv + nv*nv
	hist := make([]int, depth)
	for first := 0; first < nops; first++ {
		d := newDigest()
		var rec func(l int)
		run := func(l int) {
			var x int32
			var u uint32
			var t atomic.Int32
			var tu atomic.Uint32
			var up uintptr
			for i := 0; i < l; i++ {
				op := hist[i]
				switch {
				case op == 0:
					d.w(uint32(atomic.LoadInt32(&x)))
					d.w(atomic.LoadUint32(&u))
					d.w(uint32(t.Load()))
					d.w(tu.Load())
					d.w(uint32(atomic.LoadUintptr(&up)))
				case op < 1+nv:
					v := vals32[op-1]
					atomic.StoreInt32(&x, v)
					atomic.StoreUint32(&u, uint32(v))
					t.Store(v)
					tu.Store(uint32(v))
					atomic.StoreUintptr(&up, uintptr(uint32(v)))
				case op < 1+2*nv:
					v := vals32[op-1-nv]
					d.w(uint32(atomic.AddInt32(&x, v)))
					d.w(atomic.AddUint32(&u, uint32(v)))
					d.w(uint32(t.Add(v)))
					d.w(tu.Add(uint32(v)))
					d.w(uint32(atomic.AddUintptr(&up, uintptr(uint32(v)))))
				case op < 1+3*nv:
					v := vals32[op-1-2*nv]
					d.w(uint32(atomic.SwapInt32(&x, v)))
					d.w(atomic.SwapUint32(&u, uint32(v)))
					d.w(uint32(t.Swap(v)))
					d.w(tu.Swap(uint32(v)))
					d.w(uint32(atomic.SwapUintptr(&up, uintptr(uint32(v)))))
				default:
					k := op - 1 - 3*nv
					o, n := vals32[k/nv], vals32[k%nv]
					d.w(bu(atomic.CompareAndSwapInt32(&x, o, n)))
					d.w(bu(atomic.CompareAndSwapUint32(&u, uint32(o), uint32(n))))
					d.w(bu(t.CompareAndSwap(o, n)))
					d.w(bu(tu.CompareAndSwap(uint32(o), uint32(n))))
					d.w(bu(atomic.CompareAndSwapUintptr(&up, uintptr(uint32(o)), uintptr(uint32(n)))))
				}
				// uintptr is 32 bits wide in GopherJS (documented): keep the reference value in that range
				atomic.StoreUintptr(&up, uintptr(uint32(atomic.LoadUintptr(&up))))
			}
			d.w(uint32(x))
			d.w(u)
		}
		rec = func(l int) {
			run(l)
			if l == depth {
				return
			}
			for o := 0; o < nops; o++ {
				hist[l] = o
				rec(l + 1)
			}
		}
		hist[0] = first
		rec(1)
		println(id+"/first="+itoa(int64(first)), d.String())
	}
}

func explore64(id string, depth int) {
	nv := len(vals64)
	nops := 1 + nv + nv + nv + nv*nv
	hist := make([]int, depth)
	for first := 0; first < nops; first++ {
		d := newDigest()
		var rec func(l int)
		run := func(l int) {
			var x int64
			var u uint64
			var t atomic.Int64
			var tu atomic.Uint64
			for i := 0; i < l; i++ {
				op := hist[i]
				switch {
				case op == 0:
					d.u64(uint64(atomic.LoadInt64(&x)))
					d.u64(atomic.LoadUint64(&u))
					d.u64(uint64(t.Load()))
					d.u64(tu.Load())
				case op < 1+nv:
					v := vals64[op-1]
					atomic.StoreInt64(&x, v)
					atomic.StoreUint64(&u, uint64(v))
					t.Store(v)
					tu.Store(uint64(v))
				case op < 1+2*nv:
					v := vals64[op-1-nv]
					d.u64(uint64(atomic.AddInt64(&x, v)))
					d.u64(atomic.AddUint64(&u, uint64(v)))
					d.u64(uint64(t.Add(v)))
					d.u64(tu.Add(uint64(v)))
				case op < 1+3*nv:
					v := vals64[op-1-2*nv]
					d.u64(uint64(atomic.SwapInt64(&x, v)))
					d.u64(atomic.SwapUint64(&u, uint64(v)))
					d.u64(uint64(t.Swap(v)))
					d.u64(tu.Swap(uint64(v)))
				default:
					k := op - 1 - 3*nv
					o, n := vals64[k/nv], vals64[k%nv]
					d.w(bu(atomic.CompareAndSwapInt64(&x, o, n)))
					d.w(bu(atomic.CompareAndSwapUint64(&u, uint64(o), uint64(n))))
					d.w(bu(t.CompareAndSwap(o, n)))
					d.w(bu(tu.CompareAndSwap(uint64(o), uint64(n))))
				}
			}
			d.u64(uint64(x))
			d.u64(u)
		}
		rec = func(l int) {
			run(l)
			if l == depth {
				return
			}
			for o := 0; o < nops; o++ {
				hist[l] = o
				rec(l + 1)
			}
		}
		hist[0] = first
		rec(1)
		println(id+"/first="+itoa(int64(first)), d.String())
	}
}

func bu(b bool) uint32 {
	if b {
		return 1
	}
	return 0
}

type node struct{ v Int }

func pointers() {
	a, b := &node{1}, &node{2}
	var p unsafe.Pointer
	var tp atomic.Pointer[node]
	var tb atomic.Bool
	var val atomic.Value
	s := ""
	s += btoa(atomic.LoadPointer(&p) == nil)
	atomic.StorePointer(&p, unsafe.Pointer(a))
	s += btoa((*node)(atomic.LoadPointer(&p)) == a)
	s += btoa(atomic.CompareAndSwapPointer(&p, unsafe.Pointer(b), unsafe.Pointer(b)))
	s += btoa(atomic.CompareAndSwapPointer(&p, unsafe.Pointer(a), unsafe.Pointer(b)))
	s += btoa((*node)(atomic.SwapPointer(&p, nil)) == b)
	s += btoa(tp.Load() == nil)
	tp.Store(a)
	s += btoa(tp.Load() == a) + btoa(tp.CompareAndSwap(b, a)) + btoa(tp.CompareAndSwap(a, b)) + btoa(tp.Swap(a) == b) + itoa(int64(tp.Load().v))
	s += btoa(tb.Load())
	tb.Store(true)
	s += btoa(tb.Load()) + btoa(tb.Swap(false)) + btoa(tb.CompareAndSwap(true, true)) + btoa(tb.CompareAndSwap(false, true)) + btoa(tb.Load())
	println("C13/atomic/pointers", s)
	v := ""
	v += btoa(val.Load() == nil)
	val.Store(Int(5))
	v += itoa(int64(val.Load().(Int)))
	v += btoa(val.CompareAndSwap(Int(4), Int(6))) + btoa(val.CompareAndSwap(Int(5), Int(6))) + itoa(int64(val.Swap(Int(7)).(Int))) + itoa(int64(val.Load().(Int)))
	v += func() (r string) {
		defer func() {
			if recover() != nil {
				r = "P"
			}
		}()
		val.Store("different type")
		return "N"
	}()
	v += func() (r string) {
		defer func() {
			if recover() != nil {
				r = "P"
			}
		}()
		var v2 atomic.Value
		v2.Store(nil)
		return "N"
	}()
	println("C13/atomic/value", v)
}

func main() {
	explore32("C13/atomic/32", depth)
	explore64("C13/atomic/64", depth)
	pointers()
}
`

// Programs returns the C13(a) programs.
func Programs(thorough bool, detail string) []diffrun.Program {
	det := fmt.Sprintf("package main\n\nvar detailCase = %q\n", detail)
	var ps []diffrun.Program
	ps = append(ps, diffrun.Program{Name: "c13_math", Files: map[string]string{"main.go": mathSrc, "detail.go": det}})
	ps = append(ps, diffrun.Program{Name: "c13_bits", Files: map[string]string{"main.go": bitsSrc, "uint_js.go": bitsJS, "uint_ref.go": bitsRef}})
	nsh := 10
	total := 0x110000 + 8192
	per := (total/4096 + nsh - 1) / nsh * 4096
	for i := 0; i < nsh; i++ {
		lo := -4096 + i*per
		hi := lo + per
		cfg := fmt.Sprintf("package main\n\nconst lo = %d\nconst hi = %d\n\nvar detailCase = %q\n", lo, hi, detail)
		ps = append(ps, diffrun.Program{Name: fmt.Sprintf("c13_unicode_%02d", i), Files: map[string]string{"main.go": unicodeSrc, "cfg.go": cfg}})
	}
	depth := 2
	if thorough {
		depth = 3
	}
	ps = append(ps, diffrun.Program{Name: "c13_atomic", Files: map[string]string{"main.go": atomicSrc, "cfg.go": fmt.Sprintf("package main\n\nconst depth = %d\n", depth)}})
	if detail == "" {
		for i := range ps {
			idx := i
			if strings.HasPrefix(ps[i].Name, "c13_math") || strings.HasPrefix(ps[i].Name, "c13_unicode") {
				ps[i].Detail = func(c string) *diffrun.Program { d := Programs(thorough, c)[idx]; return &d }
			}
		}
	}
	return ps
}
