// Package minx generates the C16 targeted family: identifier pressure (more names than one,
// two or three letters can provide), reserved words and JS globals as Go identifiers,
// shadowing chains, nested closures, adjacent sign tokens, labels.
package minx

import (
	"fmt"
	"strings"

	"verif/mc/diffrun"
)

var jsWords = []string{"await", "class", "debugger", "delete", "do", "enum", "export", "extends", "finally", "function", "in", "instanceof", "let", "new", "null", "static", "super", "this", "throw", "try", "typeof", "void", "while", "with", "yield", "arguments", "eval", "undefined", "NaN", "Infinity", "Object", "Array", "String", "Number", "Math", "Date", "JSON", "Map", "Set", "Error", "name", "length", "prototype", "constructor", "toString", "valueOf", "hasOwnProperty", "call", "apply", "bind", "$", "_x", "a", "b", "A", "B", "aa", "Z", "z", "implements", "interface_", "private", "public", "protected", "catch", "true_", "of", "get", "set", "async", "global", "window", "self", "process", "require", "module", "exports", "console", "setTimeout", "$pkg", "$init", "$r", "$s", "$c", "$f", "$blk"}

func goIdent(w string) string {
	if strings.Contains(w, "$") {
		return "" // not a legal Go identifier
	}
	switch w {
	case "func", "var", "const", "type", "import", "package", "return", "if", "else", "for", "switch", "case", "default", "go", "defer", "select", "chan", "map", "struct", "interface", "range", "break", "continue", "goto", "fallthrough":
		return ""
	}
	return w
}

// ManyLocals: n locals in one function (+ closures adding more), all live at the end.
func manyLocals(n int, name string) string {
	var b strings.Builder
	fmt.Fprintf(&b, "func %s() Int {\n", name)
	for i := 0; i < n; i++ {
		fmt.Fprintf(&b, "\tv%d := Int(%d)\n", i, i%97)
	}
	b.WriteString("\tf := func() Int {\n")
	for i := 0; i < 40; i++ {
		fmt.Fprintf(&b, "\t\tw%d := v%d + %d\n", i, i%n, i)
	}
	b.WriteString("\t\tg := func() Int {\n\t\t\tq0, q1, q2 := w0, w1, v0\n\t\t\treturn q0 + q1*3 + q2\n\t\t}\n\t\treturn g()")
	for i := 0; i < 40; i++ {
		fmt.Fprintf(&b, " + w%d*%d", i, i+1)
	}
	b.WriteString("\n\t}\n\ts := f()\n")
	for i := 0; i < n; i++ {
		fmt.Fprintf(&b, "\ts = s*31 + v%d\n", i)
	}
	b.WriteString("\treturn s\n}\n\n")
	return b.String()
}

func Program(thorough bool) diffrun.Program {
	var b strings.Builder
	b.WriteString("package main\n\n")
	b.WriteString(manyLocals(30, "locals30"))
	b.WriteString(manyLocals(710, "locals710"))
	if thorough {
		b.WriteString(manyLocals(18300, "locals18300"))
	}
	// many package-level names
	npkg := 760
	for i := 0; i < npkg; i++ {
		fmt.Fprintf(&b, "var pv%d = Int(%d)\n", i, i)
		if i%3 == 0 {
			fmt.Fprintf(&b, "func pf%d(x Int) Int { return x + pv%d }\n", i, i)
		}
		if i%7 == 0 {
			fmt.Fprintf(&b, "type pt%d struct{ f Int }\nfunc (t pt%d) m() Int { return t.f + %d }\n", i, i, i)
		}
	}
	b.WriteString("\nfunc pkgSum() Int {\n\ts := Int(0)\n")
	for i := 0; i < npkg; i++ {
		fmt.Fprintf(&b, "\ts = s*7 + pv%d\n", i)
		if i%3 == 0 {
			fmt.Fprintf(&b, "\ts += pf%d(1)\n", i)
		}
		if i%7 == 0 {
			fmt.Fprintf(&b, "\ts += pt%d{2}.m()\n", i)
		}
	}
	b.WriteString("\treturn s\n}\n\n")
	// reserved words in every identifier position
	var words []string
	for _, w := range jsWords {
		if g := goIdent(w); g != "" {
			words = append(words, g)
		}
	}
	b.WriteString("type wordStruct struct {\n")
	for _, w := range words {
		fmt.Fprintf(&b, "\t%s Int\n", w)
	}
	b.WriteString("}\n\n")
	for i, w := range words {
		fmt.Fprintf(&b, "func (s *wordStruct) M%s(%s Int) (r%d Int) { s.%s += %s; r%d = s.%s * 2; return }\n", w, w, i, w, w, i, w)
	}
	b.WriteString("\nfunc words() Int {\n\ttotal := Int(0)\n\tvar ws wordStruct\n")
	for i, w := range words {
		fmt.Fprintf(&b, "\t{\n\t\t%s := Int(%d)\n\t\tfn := func(%s Int) Int { return %s + 1 }\n\t\ttotal += fn(%s) + ws.M%s(%s)\n\t}\n", w, i+1, w, w, w, w, w)
	}
	// labels named like reserved words
	b.WriteString("\tn := 0\n")
	for _, w := range []string{"class", "delete", "do", "in", "new", "this", "with", "let", "a", "b", "été", "größe", "_under", "_", "λ", "名前", "x1", "$"[:0] + "dollar"} {
		if w == "_" {
			continue
		}
		fmt.Fprintf(&b, "%s:\n\tfor i := 0; i < 3; i++ {\n\t\tfor {\n\t\t\tn++\n\t\t\tif i == 1 {\n\t\t\t\tcontinue %s\n\t\t\t}\n\t\t\tbreak %s\n\t\t}\n\t}\n", w, w, w)
	}
	b.WriteString("\treturn total + Int(n)\n}\n\n")
	// package-level names that are reserved words
	for i, w := range words {
		if w == "main" || w == "init" {
			continue
		}
		fmt.Fprintf(&b, "var g_%s, %s_g = Int(%d), Int(%d)\n", w, w, i, i+1)
	}
	pkgWords := []string{"delete", "do", "in", "new", "this", "let", "arguments", "eval", "undefined", "Object", "Array", "Math", "name", "length", "toString", "constructor", "console", "process", "global", "a", "b", "A", "Z"}
	for i, w := range pkgWords {
		fmt.Fprintf(&b, "var %s = Int(%d)\n", w, 1000+i)
	}
	b.WriteString("type class struct{ static Int }\nfunc (class) function() Int { return 5 }\nfunc typeof(void Int) Int { return void + 1 }\n")
	b.WriteString("\nfunc pkgWords() Int {\n\ts := Int(0)\n")
	for _, w := range pkgWords {
		fmt.Fprintf(&b, "\ts = s*3 + %s\n", w)
	}
	b.WriteString("\treturn s + class{1}.function() + typeof(2)\n}\n\n")
	// shadowing chains with closures capturing each level
	b.WriteString(`func shadow() Int {
	x := Int(1)
	f0 := func() Int { return x }
	r := Int(0)
	{
		x := x + 10
		f1 := func() Int { return x }
		{
			x := x + 100
			f2 := func() Int { return x }
			for x := Int(0); x < 2; x++ {
				x := x * 1000
				f3 := func() Int { return x }
				r += f3()
			}
			if x := f2(); x > 0 {
				r += x
			}
			r += f2()
		}
		r += f1()
	}
	return r + f0() + x
}

func signs(a, b Int, f, g float64) string {
	x1 := a - -b
	x2 := - -a
	x3 := a - (-b)
	x4 := a - -(-b)
	x5 := -a - -b - -1
	x6 := a + +b
	x7 := ^(^a)
	y1 := f - -g
	y2 := - -f
	y3 := -(-(-f))
	y4 := f - -g - -1.5
	t := a
	t--
	u := a - t - -t
	nb := !(!(a > b))
	return itoa(int64(x1)) + "," + itoa(int64(x2)) + "," + itoa(int64(x3)) + "," + itoa(int64(x4)) + "," + itoa(int64(x5)) + "," + itoa(int64(x6)) + "," + itoa(int64(x7)) + "," + ftoa(y1) + ftoa(y2) + ftoa(y3) + ftoa(y4) + itoa(int64(u)) + btoa(nb) + itoa(int64(a)) + ftoa(f)
}

func strs() string {
	return "a /* not a comment */ b" + "// nor this" + "quote\" back\\slash" + "tab\there" + "nl\nx" + " lead" + "trail " + "  two  spaces  " + "/*" + "*/" + "\"" + "\\" + "\b" + "- -" + "+ +"
}

func main() {
	println("C16/locals30", itoa(int64(locals30())))
	println("C16/locals710", itoa(int64(locals710())))
`)
	if thorough {
		b.WriteString("\tprintln(\"C16/locals18300\", itoa(int64(locals18300())))\n")
	}
	b.WriteString(`	println("C16/pkgnames", itoa(int64(pkgSum())))
	println("C16/words", itoa(int64(words())))
	println("C16/pkgwords", itoa(int64(pkgWords())))
	println("C16/shadow", itoa(int64(shadow())))
	println("C16/signs", signs(5, 3, 1.5, 2.25), signs(-2147483648, -1, -0.0, 1e300))
	println("C16/strings", quote(strs()))
}
`)
	return diffrun.Program{Name: "c16_names", Files: map[string]string{"main.go": b.String()}}
}
