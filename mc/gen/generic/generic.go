// Package generic generates the C04 programs: generic definition shapes x type
// argument tuples x reach paths x probes, across three packages.
package generic

import (
	"fmt"
	"strings"

	"verif/mc/diffrun"
)

type targ struct {
	Name, Type, A, B string
	Comparable      bool
}

var targs = []targ{
	{"int8", "int8", "int8(127)", "int8(-128)", true},
	{"Int", "Int", "Int(2147483647)", "Int(-5)", true},
	{"int64", "int64", "int64(1)<<62", "int64(-3)", true},
	{"uint64", "uint64", "uint64(1)<<63", "uint64(7)", true},
	{"uint8", "uint8", "uint8(255)", "uint8(1)", true},
	{"float32", "float32", "float32(16777216)", "float32(1.5)", true},
	{"float64", "float64", "float64(1e300)", "float64(-0.5)", true},
	{"complex128", "complex128", "complex(1, 2)", "complex(3, 4)", true},
	{"string", "string", `"a"`, `"bc"`, true},
	{"bool", "bool", "true", "false", true},
	{"S", "S", `S{1, "x"}`, `S{2, "y"}`, true},
	{"pS", "*S", "s1", "s2", true},
	{"slice", "[]Int", "[]Int{1}", "[]Int{2, 3}", false},
	{"arr", "[2]Int", "[2]Int{1, 2}", "[2]Int{3, 4}", true},
	{"map", "map[string]Int", `map[string]Int{"a": 1}`, `map[string]Int{}`, false},
	{"BoxInt", "Box[Int]", "Box[Int]{1}", "Box[Int]{2}", true},
	{"BoxBox", "Box[Box[string]]", `Box[Box[string]]{Box[string]{"p"}}`, `Box[Box[string]]{}`, true},
	{"MyInt", "MyInt", "MyInt(7)", "MyInt(8)", true},
	{"any", "interface{}", "interface{}(int8(1))", `interface{}("s")`, true},
	{"libT", "lib2.L2", "lib2.L2{N: 5}", "lib2.L2{N: 6}", true},
	{"libBox", "lib.Box[lib2.L2]", "lib.MkBoxL2(9)", "lib.MkBoxL2(10)", true},
	{"chan", "chan Int", "ch1", "ch2", true},
	{"fn", "func() Int", "fn1", "fn2", false},
	{"anon", "struct{ X Int }", "struct{ X Int }{1}", "struct{ X Int }{2}", true},
}

const defs = `package main

import (
	"MOD/lib"
	"MOD/lib2"
)

func o(id, s string) { println("C04/"+id, s) }

type S struct {
	n Int
	s string
}
type MyInt Int

func (m MyInt) Name() string { return "MyInt" + itoa(int64(m)) }

var s1, s2 = &S{1, "p1"}, &S{2, "p2"}
var ch1, ch2 = make(chan Int, 1), make(chan Int, 1)
var fn1, fn2 = func() Int { return 1 }, func() Int { return 2 }

// ---- generic definitions ----
type Box[T any] struct{ v T }

func (b Box[T]) Get() T                 { return b.v }
func (b *Box[T]) Set(v T)               { b.v = v }
func (b Box[T]) Map(f func(T) T) Box[T] { return Box[T]{f(b.v)} }

type Pair[A, B any] struct {
	a A
	b B
}

func (p Pair[A, B]) Swap() Pair[B, A] { return Pair[B, A]{p.b, p.a} }
func (p Pair[A, B]) First() A         { return p.a }

func WrapBox[T any](b Box[T]) Box[Box[T]] { return Box[Box[T]]{b} }
func Id[T any](x T) T         { return x }
func Twice[T any](x T) [2]T   { return [2]T{Id(x), Id[T](x)} }
func Zero[T any]() T          { var z T; return z }
func Ptr[T any](x T) *T       { return &x }
func Even[T any](n int, x T) (bool, T) {
	if n == 0 {
		return true, x
	}
	return Odd[T](n-1, x)
}
func Odd[T any](n int, x T) (bool, T) {
	if n == 0 {
		return false, x
	}
	return Even(n-1, x)
}

func Local[T any](x T) interface{} {
	type L struct{ v T }
	return L{x}
}

func LocalPos[T any](x, y T) (T, T) {
	type rng struct{ lo, hi T }
	r := rng{x, y}
	k := rng{lo: y, hi: x}
	return r.hi, k.hi
}

func Local2[A, B any](a A, b B) interface{} {
	type L struct {
		a A
		b B
	}
	return L{a, b}
}

func Closure[T any](x T) func() T {
	saved := x
	return func() T { return saved }
}

func Deferred[T any](x, y T) (r T) {
	defer func(v T) { r = v }(y)
	return x
}

func ViaChan[T any](x T) T {
	c := make(chan T, 1)
	c <- x
	return <-c
}

func Collect[T any](xs ...T) []T { return append([]T{}, xs...) }

func MapKeys[K comparable, V any](m map[K]V, probe K) (int, bool) {
	_, ok := m[probe]
	return len(m), ok
}

func Eq[T comparable](a, b T) bool { return a == b }

func Describe[T any](x T) string {
	switch any(x).(type) {
	case int8:
		return "int8"
	case Int:
		return "Int"
	case int64:
		return "int64"
	case uint64:
		return "uint64"
	case uint8:
		return "uint8"
	case float32:
		return "float32"
	case float64:
		return "float64"
	case complex128:
		return "complex128"
	case string:
		return "string"
	case bool:
		return "bool"
	case S:
		return "S"
	case *S:
		return "*S"
	case []Int:
		return "[]Int"
	case [2]Int:
		return "[2]Int"
	case map[string]Int:
		return "map"
	case Box[Int]:
		return "Box[Int]"
	case Box[int8]:
		return "Box[int8]"
	case Box[Box[string]]:
		return "Box[Box[string]]"
	case MyInt:
		return "MyInt"
	case lib2.L2:
		return "lib2.L2"
	case lib.Box[lib2.L2]:
		return "lib.Box[lib2.L2]"
	case lib.Box[Int]:
		return "lib.Box[Int]"
	case chan Int:
		return "chan"
	case func() Int:
		return "func"
	case struct{ X Int }:
		return "anon"
	case nil:
		return "nil"
	}
	return "other"
}

type any = interface{}

// ---- numeric constraints ----
type Integer interface {
	~int8 | ~uint8 | ~int32 | ~int64 | ~uint64 | ~int | ~uint32
}
type Number interface {
	Integer | ~float32 | ~float64
}

func Add[T Number](a, b T) T        { return a + b }
func Mul[T Number](a, b T) T        { return a * b }
func Neg[T Number](a T) T           { return -a }
func Div[T Number](a, b T) T        { return a / b }
func Shl[T Integer](a T, n uint) T  { return a << n }
func Shr[T Integer](a T, n uint) T  { return a >> n }
func Less[T Number](a, b T) bool    { return a < b }
func Conv[T Number](f float64) T    { return T(f) }
func ConvI[T Number](i int64) T     { return T(i) }
func ToF[T Number](x T) float64     { return float64(x) }
func Sum[T Number](xs []T) (s T)    { for _, x := range xs { s += x }; return }

// ---- core types ----
func Len[Sl ~[]E, E any](s Sl) int                  { return len(s) + cap(s[:0]) - cap(s[:0]) }
func Last[Sl ~[]E, E any](s Sl) E                   { return s[len(s)-1] }
func Put[M ~map[K]V, K comparable, V any](m M, k K, v V) { m[k] = v }
func Recv[C ~chan E, E any](c C) E                  { return <-c }
func Call[F ~func() R, R any](f F) R                { return f() }

type IntSlice []Int

// ---- methods through constraints; instance-specific blocking ----
type Namer interface{ Name() string }

func CallName[T Namer](x T) string { return x.Name() }

type pn struct{ k Int }

func (p *pn) Name() string { p.k++; return "pn" + itoa(int64(p.k)) }

type Source interface{ Next() Int }
type constSrc struct{ v Int }

func (c constSrc) Next() Int { return c.v }

type chanSrc struct{ c chan Int }

func (c chanSrc) Next() Int { return <-c.c }

func Pull[T Source](s T) Int { return s.Next() * 2 }
func Zip[A, B Source](a A, b B) Int { return a.Next()*100 + b.Next() }

func feed(v Int) chanSrc {
	c := make(chan Int)
	go func() { c <- v }()
	return chanSrc{c}
}
`

const libSrc = `package lib

import "MOD/lib2"

type Int = lib2.Int

type Box[T any] struct{ V T }

func (b Box[T]) Get() T { return b.V }

func Apply[T any](x T, f func(T) T) T { return f(x) }

func MkBoxL2(n Int) Box[lib2.L2] { return Box[lib2.L2]{lib2.L2{N: n}} }
func MkBoxInt(n Int) interface{}  { return Box[Int]{n} }

func Local[T any](x T) interface{} {
	type L struct{ v T }
	return L{x}
}

func UseLib2() Int { return lib2.Double(Int(21)) + lib2.Keep[Box[Int]](Box[Int]{1}).V }
`

const lib2Src = `package lib2

type L2 struct{ N Int }

func (l L2) Name() string { return "L2" }

func Double[T ~int | ~int32](x T) T { return x * 2 }
func Keep[T any](x T) T            { return x }
`

// Program builds the C04 program.
func Program() diffrun.Program {
	name := "c04_generics"
	mod := diffrun.ModName(name)
	var b strings.Builder
	b.WriteString(strings.ReplaceAll(defs, "MOD", mod))
	w := func(f string, a ...any) { fmt.Fprintf(&b, f, a...) }
	// generic probe for every type argument
	w("\nfunc probeAny[T any](name string, a, b T, show func(T) string) {\n")
	w("\tid := \"any/\" + name + \"/\"\n")
	w("\to(id+\"zero\", show(Zero[T]())+show(*new(T))+show(make([]T, 2)[1])+show(map[string]T{}[\"k\"])+show([2]T{}[1])+show(struct{ v T }{}.v))\n")
	w("\to(id+\"describe\", Describe(a)+\",\"+Describe(Zero[T]())+\",\"+Describe(Box[T]{a}.Get())+\",\"+Describe(any(Ptr(a)))+\",\"+Describe(Twice(a)[1]))\n")
	w("\tbx := Box[T]{a}\n\tpb := &bx\n\tpb.Set(b)\n\tf := bx.Get\n\tpb.Set(a)\n")
	w("\to(id+\"box\", show(bx.Get())+show(f())+show(bx.Map(func(T) T { return b }).Get())+show(WrapBox(bx).Get().Get())+show(Pair[T, string]{a, \"s\"}.Swap().Swap().First())+Pair[T, string]{a, \"s\"}.Swap().First())\n")
	w("\tev, ex := Even(3, a)\n\tod, _ := Odd[T](3, b)\n")
	w("\to(id+\"calls\", show(Id(a))+show(Twice(b)[0])+btoa(ev)+btoa(od)+show(ex)+show(Closure(a)())+show(Deferred(a, b))+show(ViaChan(a))+show(Collect(a, b, a)[1])+show(*Ptr(b))+show(lib.Apply(a, func(T) T { return b }))+show(lib.Box[T]{V: a}.Get()))\n")
	w("\tlo, hi := LocalPos(a, b)\n\to(id+\"localpos\", show(lo)+show(hi))\n")
	w("}\n\nfunc probeCmp[T comparable](name string, a, b T) {\n\tid := \"cmp/\" + name + \"/\"\n")
	w("\to(id+\"eq\", btoa(Eq(a, a))+btoa(Eq(a, b))+btoa(any(Box[T]{a}) == any(Box[T]{a}))+btoa(any(Box[T]{a}) == any(Box[T]{b}))+btoa(any(Pair[T, Int]{a, 1}) == any(Pair[T, Int]{a, 1}))+btoa(Local(a) == Local(a))+btoa(Local(a) == Local(b))+btoa(Local(a) == lib.Local(a))+btoa(Local2(a, 1) == Local2(a, 1))+btoa(Local2(a, a) == Local2(a, a)))\n")
	w("\tm := map[T]Int{a: 1}\n\tm[b] = 2\n\tn, ok := MapKeys(m, a)\n\tmk := map[interface{}]Int{Box[T]{a}: 1, Local(a): 2, lib.Box[T]{V: a}: 3, Pair[T, T]{a, a}: 4}\n")
	w("\to(id+\"keys\", itoa(int64(n))+btoa(ok)+itoa(int64(len(mk)))+itoa(int64(mk[Box[T]{a}]+mk[Local(a)]*10+mk[lib.Box[T]{V: a}]*100)))\n}\n")
	// numeric probes
	w("\nfunc probeNum[T Number](name string, a, b T, show func(T) string) {\n\tid := \"num/\" + name + \"/\"\n")
	w("\to(id+\"arith\", show(Add(a, a))+show(Add(a, b))+show(Mul(a, a))+show(Neg(a))+show(Neg(b))+show(Div(a, b))+btoa(Less(a, b))+btoa(Less(b, a))+show(Sum([]T{a, a, b})))\n")
	w("\to(id+\"conv\", show(Conv[T](100.9))+show(Conv[T](-1.5))+show(ConvI[T](300))+show(ConvI[T](-129))+show(ConvI[T](1<<40+5))+ftoa(ToF(a))+ftoa(ToF(b)))\n}\n")
	w("\nfunc probeInt[T Integer](name string, a, b T, show func(T) string) {\n\tid := \"int/\" + name + \"/\"\n")
	w("\to(id+\"shift\", show(Shl(a, 1))+show(Shl(b, 7))+show(Shl(a, 40))+show(Shr(a, 3))+show(Shr(b, 1))+show(Shr(b, 70))+show(Div(b, a)))\n}\n")
	// show functions per type and main
	w("\nfunc main() {\n")
	showFor := func(t targ) string {
		switch t.Name {
		case "int8", "Int", "int64", "uint8", "MyInt":
			return "func(x " + t.Type + ") string { return itoa(int64(x)) + \";\" }"
		case "uint64":
			return "func(x uint64) string { return utoa(x) + \";\" }"
		case "float32":
			return "func(x float32) string { return f32toa(x) + \";\" }"
		case "float64":
			return "func(x float64) string { return ftoa(x) + \";\" }"
		case "complex128":
			return "func(x complex128) string { return ftoa(real(x)) + ftoa(imag(x)) + \";\" }"
		case "string":
			return "func(x string) string { return x + \";\" }"
		case "bool":
			return "func(x bool) string { return btoa(x) + \";\" }"
		case "S":
			return "func(x S) string { return itoa(int64(x.n)) + x.s + \";\" }"
		case "pS":
			return "func(x *S) string { if x == nil { return \"nil;\" }; return \"&\" + x.s + \";\" }"
		case "slice":
			return "func(x []Int) string { if x == nil { return \"nil;\" }; return itoa(int64(len(x))) + \";\" }"
		case "arr":
			return "func(x [2]Int) string { return itoa(int64(x[0]*10+x[1])) + \";\" }"
		case "map":
			return "func(x map[string]Int) string { if x == nil { return \"nil;\" }; return itoa(int64(len(x))) + \";\" }"
		case "BoxInt":
			return "func(x Box[Int]) string { return \"B\" + itoa(int64(x.v)) + \";\" }"
		case "BoxBox":
			return "func(x Box[Box[string]]) string { return \"BB\" + x.v.v + \";\" }"
		case "any":
			return "func(x interface{}) string { return Describe(x) + \";\" }"
		case "libT":
			return "func(x lib2.L2) string { return \"L\" + itoa(int64(x.N)) + \";\" }"
		case "libBox":
			return "func(x lib.Box[lib2.L2]) string { return \"LB\" + itoa(int64(x.V.N)) + \";\" }"
		case "chan":
			return "func(x chan Int) string { if x == nil { return \"nil;\" }; return \"ch\" + itoa(int64(cap(x))) + \";\" }"
		case "fn":
			return "func(x func() Int) string { if x == nil { return \"nil;\" }; return \"fn\" + itoa(int64(x())) + \";\" }"
		case "anon":
			return "func(x struct{ X Int }) string { return \"an\" + itoa(int64(x.X)) + \";\" }"
		}
		panic(t.Name)
	}
	for _, t := range targs {
		w("\tprobeAny[%s](%q, %s, %s, %s)\n", t.Type, t.Name, t.A, t.B, showFor(t))
		if t.Comparable {
			w("\tprobeCmp[%s](%q, %s, %s)\n", t.Type, t.Name, t.A, t.B)
		}
		switch t.Name {
		case "int8", "Int", "int64", "uint64", "uint8", "MyInt":
			w("\tprobeNum[%s](%q, %s, %s, %s)\n", t.Type, t.Name, t.A, t.B, showFor(t))
			w("\tprobeInt[%s](%q, %s, %s, %s)\n", t.Type, t.Name, t.A, t.B, showFor(t))
		case "float32", "float64":
			w("\tprobeNum[%s](%q, %s, %s, %s)\n", t.Type, t.Name, t.A, t.B, showFor(t))
		}
	}
	// cross-type identity: instances with different arguments are different types
	w("\tvals := []interface{}{")
	for _, t := range targs {
		w("Box[%s]{}, ", t.Type)
	}
	w("lib.Box[Int]{}, lib.MkBoxInt(0), lib.MkBoxL2(0), Pair[Int, string]{}, Pair[string, Int]{}, Pair[Int, Int]{}, Pair[bool, bool]{}, Local(Int(0)), Local(int8(0)), Local(\"\"), lib.Local(Int(0)), Local2(Int(0), \"\"), Local2(\"\", Int(0)), Local2(Int(0), Int(0)), Local2(false, false)}\n")
	w("\tfor i, x := range vals {\n\t\ts := \"\"\n\t\tfor _, y := range vals {\n\t\t\tfunc() {\n\t\t\t\tdefer func() {\n\t\t\t\t\tif recover() != nil {\n\t\t\t\t\t\ts += \"p\"\n\t\t\t\t\t}\n\t\t\t\t}()\n\t\t\t\ts += btoa(x == y)\n\t\t\t}()\n\t\t}\n\t\to(\"identity/\"+itoa(int64(i)), s)\n\t}\n")
	w("\tmk := map[interface{}]Int{}\n\tfor i, x := range vals {\n\t\tfunc() {\n\t\t\tdefer func() { recover() }()\n\t\t\tmk[x] = Int(i)\n\t\t}()\n\t}\n\to(\"identity/mapkeys\", itoa(int64(len(mk))))\n")
	// core types, constraint methods, blocking per instance
	w("\tis := IntSlice{1, 2, 3}\n\tmm := map[string]Int{}\n\tPut(mm, \"k\", Int(4))\n\tch1 <- 5\n")
	w("\to(\"core\", itoa(int64(Len(is)))+itoa(int64(Last(is)))+itoa(int64(Last([]string{\"a\", \"b\"})[0]))+itoa(int64(mm[\"k\"]))+itoa(int64(Recv(ch1)))+itoa(int64(Call(fn2)))+itoa(int64(Call(func() Int { return 9 }))))\n")
	w("\tp := &pn{}\n\to(\"namer\", CallName(MyInt(3))+CallName(p)+CallName[*pn](p)+CallName(lib2.L2{})+CallName[Namer](MyInt(4))+itoa(int64(p.k)))\n")
	w("\to(\"blocking\", itoa(int64(Pull(constSrc{1})))+\",\"+itoa(int64(Pull(feed(2))))+\",\"+itoa(int64(Zip(constSrc{3}, feed(4))))+\",\"+itoa(int64(Zip(feed(5), constSrc{6})))+\",\"+itoa(int64(Zip(feed(7), feed(8))))+\",\"+itoa(int64(Zip(constSrc{9}, constSrc{1})))+\",\"+itoa(int64(Pull[Source](feed(6)))))\n")
	w("\to(\"lib\", itoa(int64(lib.UseLib2()))+itoa(int64(lib2.Double(MyInt(4))))+Describe(lib.MkBoxInt(1))+Describe(lib.Box[Int]{})+btoa(lib.MkBoxInt(1) == any(lib.Box[Int]{V: 1})))\n")
	w("}\n")
	return diffrun.Program{Name: name, Files: map[string]string{
		"main.go":           b.String(),
		"lib/lib.go":        strings.ReplaceAll(libSrc, "MOD", mod),
		"lib2/lib2.go":      lib2Src,
		"lib2/int_js.go":    "//go:build js\n\npackage lib2\n\ntype Int = int\n",
		"lib2/int_ref.go":   "//go:build !js\n\npackage lib2\n\ntype Int = int32\n",
	}}
}

// Small separate programs (each its own build, so that one failing shape cannot mask the others).
func SmallPrograms() []diffrun.Program {
	mk := func(name, body, main string) diffrun.Program {
		return diffrun.Program{Name: "c04_" + name, Files: map[string]string{"main.go": "package main\n\n" + body + "\nfunc main() {\n" + main + "}\n"}}
	}
	return append(smallPrograms(mk), xpkgExplicit())
}

// xpkgExplicit: generic functions of another package instantiated explicitly (pkg.F[...]) inside a generic body,
// with type arguments built from the enclosing type parameter; as call, as function value, with several arguments.
func xpkgExplicit() diffrun.Program {
	name := "c04_xpkgexplicit"
	mod := diffrun.ModName(name)
	return diffrun.Program{Name: name, Files: map[string]string{
		"lib/lib.go": `package lib

type Box[T any] struct{ V T }

func Wrap[T any](v T) Box[T] { return Box[T]{v} }

type Two[A, B any] struct {
	A A
	B B
}

func Pair[A, B any](a A, b B) Two[A, B] { return Two[A, B]{a, b} }

func Count[T any](xs ...T) int { return len(xs) }
`,
		"main.go": `package main

import "` + mod + `/lib"

type pair[A, B any] struct {
	a A
	b B
}

func Twice[T any](x T) int {
	b := lib.Wrap[[]T]([]T{x, x})
	c := lib.Wrap[pair[T, int]](pair[T, int]{x, 1})
	f := lib.Wrap[map[string]T]
	p := lib.Pair[T, []T](x, []T{x, x, x})
	q := lib.Pair[*T, func() T](&x, func() T { return x })
	_ = q.B()
	return len(b.V) + c.V.b*10 + len(f(map[string]T{"k": x}).V)*100 + len(p.B)*1000 + lib.Count[T](x, x)*10000 + lib.Count[[]T]()
}

func Nested[T any](x T) int { return Twice[[]T]([]T{x}) + Twice[lib.Box[T]](lib.Wrap[T](x)) }

func main() {
	println("C04/xpkgexplicit", itoa(int64(Twice(Int(1)))), itoa(int64(Twice("a"))), itoa(int64(Nested(2.5))), itoa(int64(lib.Wrap[Int](3).V)))
}
`}}
}

func smallPrograms(mk func(name, body, main string) diffrun.Program) []diffrun.Program {
	return []diffrun.Program{
		mk("localcomposite", `func LocalSlice[T any](x, y T) (int, T) {
	type cell struct{ v T }
	cs := []cell{{x}}
	cs = append(cs, cell{y})
	var arr [2]cell
	arr[1] = cs[1]
	p := &cell{x}
	m := map[string]cell{"k": *p}
	var i interface{} = cs
	if _, ok := i.([]cell); !ok {
		return -1, x
	}
	return len(cs) + len(m), arr[1].v
}
`, "\tn, v := LocalSlice(Int(1), Int(2))\n\tm, w := LocalSlice(\"a\", \"b\")\n\tprintln(\"C04/localcomposite\", itoa(int64(n)), itoa(int64(v)), itoa(int64(m)), w)\n"),
		mk("addrclosure", `func AddrInClosure[T any](x, y T) T {
	c := x
	n := 0
	f := func() *T { n++; return &c }
	*f() = y
	g := func() *int { return &n }
	*g() += 10
	if n != 11 {
		return x
	}
	return c
}
`, "\tprintln(\"C04/addrclosure\", itoa(int64(AddrInClosure(Int(1), Int(2)))), AddrInClosure(\"a\", \"b\"), ftoa(AddrInClosure(1.5, 2.5)))\n"),
		mk("addrlocal", `type Num interface{ ~int | ~int32 | ~int64 | ~uint8 }

func bump[T Num](p *T) { *p += 5 }

// the address of a local is taken several times; the temporaries differ between instantiations
func AddrLocal[T Num](v T, n T) T {
	x := n
	bump(&x)
	y := x * 2 / 3
	z := y + 1
	bump(&x)
	bump(&z)
	p, q := &x, &x
	if p != q {
		return 0
	}
	w := v % 7
	bump(&w)
	bump(&y)
	return x + y + z + w
}

func AddrLocalF[T ~float64 | ~float32](n T) T {
	x := n
	bump2(&x)
	y := x * 2
	bump2(&x)
	bump2(&y)
	return x + y
}

func bump2[T ~float64 | ~float32](p *T) { *p += 0.5 }
`, "\tprintln(\"C04/addrlocal\", itoa(int64(AddrLocal(Int(1), Int(1)))), itoa(int64(AddrLocal(int64(2), int64(1<<40)))), itoa(int64(AddrLocal(uint8(3), uint8(250)))), itoa(int64(AddrLocal(int32(4), int32(-9)))), ftoa(AddrLocalF(1.5)), ftoa(float64(AddrLocalF(float32(2.5)))))\n"),
		mk("chandir", `func Ends[T any](c chan T) (interface{}, interface{}, interface{}) {
	var r <-chan T = c
	var s chan<- T = c
	return r, s, c
}

func kind(x interface{}) string {
	switch x.(type) {
	case <-chan Int:
		return "<-chan Int"
	case chan<- Int:
		return "chan<- Int"
	case chan Int:
		return "chan Int"
	case <-chan string:
		return "<-chan string"
	case chan<- string:
		return "chan<- string"
	case chan string:
		return "chan string"
	}
	return "other"
}

type Pipe[T any] struct {
	In  chan<- T
	Out <-chan T
}

func NewPipe[T any]() Pipe[T] { c := make(chan T, 1); return Pipe[T]{c, c} }

func Funcs[T any]() (interface{}, interface{}) {
	return func(<-chan T) {}, func(chan<- T) {}
}
`, "\ta, b, c := Ends(make(chan Int))\n\td, e, f := Ends(make(chan string))\n\tp := NewPipe[Int]()\n\tp.In <- 7\n\tvar pi, po interface{} = p.In, p.Out\n\tf1, f2 := Funcs[Int]()\n\t_, ok1 := f1.(func(<-chan Int))\n\t_, ok2 := f2.(func(chan<- Int))\n\t_, ok3 := f1.(func(chan Int))\n\tprintln(\"C04/chandir\", kind(a), kind(b), kind(c), kind(d), kind(e), kind(f), kind(pi), kind(po), itoa(int64(<-p.Out)), btoa(a == b), btoa(ok1), btoa(ok2), btoa(ok3))\n"),
		mk("anonstruct", `// anonymous struct types that mention a type parameter, built inside generic code, observed from non-generic code
func Entry[T any](k string, v T) interface{} {
	return struct {
		Key string
		Val T `+"`json:\"val\"`"+`
	}{k, v}
}

func Row[T any](a, b T) interface{} {
	return struct {
		A T `+"`a`"+`
		B T `+"`b`"+`
	}{a, b}
}

func Triple[K comparable, V any](k K, v V) interface{} {
	return struct {
		K    K
		V    V `+"`v`"+`
		Note string
		N    Int `+"`n`"+`
	}{k, v, "n", 1}
}

func Inner[T any](v T) interface{} {
	type rec struct {
		Name string
		Item T `+"`item`"+`
	}
	return rec{"r", v}
}

func kindOf(x interface{}) string {
	switch x.(type) {
	case struct {
		Key string
		Val Int `+"`json:\"val\"`"+`
	}:
		return "entry[Int]"
	case struct {
		Key string `+"`json:\"val\"`"+`
		Val Int
	}:
		return "shifted-tag"
	case struct {
		Key string
		Val Int
	}:
		return "untagged"
	case struct {
		Key string
		Val string `+"`json:\"val\"`"+`
	}:
		return "entry[string]"
	case struct {
		A Int `+"`a`"+`
		B Int `+"`b`"+`
	}:
		return "row[Int]"
	case struct {
		K    string
		V    Int `+"`v`"+`
		Note string
		N    Int `+"`n`"+`
	}:
		return "triple[string,Int]"
	}
	return "unknown"
}
`, "\tlit := struct {\n\t\tKey string\n\t\tVal Int `json:\"val\"`\n\t}{\"a\", 1}\n\tm := map[interface{}]string{lit: \"literal\"}\n\tm[Entry(\"a\", Int(1))] = \"generic\"\n\t_, isRec := Inner(Int(1)).(struct {\n\t\tName string\n\t\tItem Int `item`\n\t})\n\tprintln(\"C04/anonstruct\", kindOf(Entry(\"a\", Int(1))), kindOf(Entry(\"b\", \"two\")), kindOf(Row(Int(3), Int(4))), kindOf(Triple(\"k\", Int(5))), btoa(Entry(\"a\", Int(1)) == interface{}(lit)), itoa(int64(len(m))), m[lit], btoa(isRec))\n"),
		mk("typeswitchT", `type Celsius float64
type Point struct{ X, Y Int }
type Shape interface{ Area() Int }
type Sq struct{ s Int }

func (q Sq) Area() Int { return q.s * q.s }

// a clause whose type is the bare type parameter: the clause variable has the type argument's representation
func First[T any](xs []interface{}, show func(T) string) string {
	for _, x := range xs {
		switch v := x.(type) {
		case T:
			return "T:" + show(v)
		case []T:
			return "[]T:" + itoa(int64(len(v)))
		case *T:
			return "*T:" + show(*v)
		}
	}
	return "none"
}

func Sum[T ~int | ~int32 | ~float64](xs []interface{}) T {
	var s T
	for _, x := range xs {
		switch v := x.(type) {
		case T:
			s += v
		case nil:
			s -= 1
		default:
			_ = v
		}
	}
	return s
}

func Same[T comparable](a T, x interface{}) string {
	switch v := x.(type) {
	case T:
		if v == a {
			return "same value"
		}
		return "same type"
	case interface{ Area() Int }:
		return "shape"
	}
	return "other"
}
`, "\tp := Point{1, 2}\n\ts := \"hit\"\n\tvals := []interface{}{nil, 2.5, &p, Int(42), s, Celsius(1.5), p, Sq{5}, []Int{1}, &s}\n\tprintln(\"C04/typeswitchT\", First[Int](vals, func(v Int) string { return itoa(int64(v)) }), First[string](vals, func(v string) string { return v }), First[Point](vals, func(v Point) string { return itoa(int64(v.X + v.Y)) }), First[Shape](vals, func(v Shape) string { return itoa(int64(v.Area())) }), First[Celsius](vals, func(v Celsius) string { return ftoa(float64(v)) }), First[int8](vals, func(v int8) string { return \"x\" }), First[float64](vals, func(v float64) string { return ftoa(v) }), itoa(int64(Sum[Int]([]interface{}{Int(40), nil, \"x\", Int(2)}))), ftoa(float64(Sum[Celsius]([]interface{}{Celsius(1.5), 2.5, Celsius(2)}))), Same(Int(1), Int(1)), Same(Int(1), Int(2)), Same(\"a\", \"a\"), Same(p, Point{1, 2}), Same(Int(1), Sq{1}), Same(Sq{1}, Sq{1}))\n"),
		mk("samenamelocals", `type stepper interface{ step(Int) Int }

type remote struct{ c chan Int }

func (r remote) step(x Int) Int { go func() { r.c <- x * 2 }(); return <-r.c }

type local struct{}

func (local) step(x Int) Int { return x + 1 }

// the same generic function, with function literals, instantiated with two different function-local types that have the same name
func Drive[W stepper](w W, log *string) Int {
	total := Int(0)
	each := func(x Int) { total = total*10 + w.step(x) }
	for i := Int(1); i <= 3; i++ {
		each(i)
	}
	func() { *log += "inline;" }()
	defer func() { *log += "deferred;" }()
	return total
}

func useLocal(log *string) Int {
	type worker struct{ local }
	return Drive(worker{}, log)
}

func useRemote(log *string) Int {
	type worker struct{ remote }
	return Drive(worker{remote{make(chan Int)}}, log)
}
`, "\tlog := \"\"\n\ta := useLocal(&log)\n\tb := useRemote(&log)\n\tprintln(\"C04/samenamelocals\", itoa(int64(a)), itoa(int64(b)), log)\n"),
		mk("rangechan", `func RangeChan[C ~chan E, E any](c C) (n int) {
	for range c {
		n++
	}
	return
}
`, "\trc := make(chan string, 3)\n\trc <- \"a\"\n\trc <- \"b\"\n\tclose(rc)\n\tuc := make(chan Int)\n\tgo func() { uc <- 1; uc <- 2; uc <- 3; close(uc) }()\n\tprintln(\"C04/rangechan\", itoa(int64(RangeChan(rc))), itoa(int64(RangeChan(uc))))\n"),
	}
}
