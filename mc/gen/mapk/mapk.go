// Package mapk generates the C15 explorer programs: for every key type of a
// composed type alphabet and an adversarial key set, all operation histories
// up to a depth are replayed on a real map and every observable is digested.
package mapk

import (
	"fmt"
	"strings"

	"verif/mc/diffrun"
)

type keyType struct {
	Name string   // identifier-safe
	Type string   // Go type expression
	Keys []string // key expressions (evaluated at run time inside a function)
}

const preamble = `
import "math"

type MyStr string
type MyInt Int
type MyF float64
type MyArr [2]string
type MyPair struct {
	a string
	b string
}
type N1 Int
type N2 Int
type Im interface{ M() Int }
type ImA Int
type ImB Int

func (x ImA) M() Int { return Int(x) }
func (x ImB) M() Int { return Int(x) }

var nan = math.NaN()
var negz = math.Copysign(0, -1)
var inf = math.Inf(1)
var p0, p1, p2 = new(Int), new(Int), new(Int)
var c0, c1 = make(chan Int), make(chan Int, 1)
var sp0, sp1 = &MyPair{"a", "b"}, &MyPair{"a", "b"}

func local1() interface{} {
	type T Int
	return T(1)
}

func local2() interface{} {
	type T Int
	return T(1)
}

func localS1() interface{} {
	type T struct{ a Int }
	return T{1}
}

func localS2() interface{} {
	type T struct{ a Int }
	return T{1}
}

var f32nan = float32(nan)
`

func baseTypes() []keyType {
	return []keyType{
		{"bool", "bool", []string{"true", "false"}},
		{"int8", "int8", []string{"0", "1", "-1", "-128"}},
		{"uint8", "uint8", []string{"0", "255", "128"}},
		{"int16", "int16", []string{"0", "-32768", "32767"}},
		{"Int", "Int", []string{"0", "1", "-1", "-2147483648"}},
		{"uint32", "uint32", []string{"0", "4294967295", "2147483648", "1"}},
		{"Uintptr", "Uintptr", []string{"0", "4294967295", "7"}},
		{"int64", "int64", []string{"0", "1", "1<<32", "-1", "-1<<63"}},
		{"int64b", "int64", []string{"1<<53", "1<<53 + 1", "-1<<63 + 1", "-1<<63", "1<<63 - 1", "1<<63 - 2"}},
		{"uint64b", "uint64", []string{"1<<53", "1<<53 + 1", "1<<64 - 1", "1<<64 - 2", "1<<63", "1<<63 + 1"}},
		{"anyI64", "interface{}", []string{"int64(1<<53)", "int64(1<<53 + 1)", "uint64(1<<53)", "uint64(1<<53 + 1)", "float64(1<<53)"}},
		{"stI64b", "struct{ a int64 }", []string{"struct{ a int64 }{1 << 60}", "struct{ a int64 }{1<<60 + 1}", "struct{ a int64 }{-1 << 60}"}},
		{"uint64", "uint64", []string{"0", "1<<32", "1<<63", "1<<64 - 1", "1"}},
		{"float32", "float32", []string{"0", "float32(negz)", "1.5", "f32nan", "float32(inf)"}},
		{"float64", "float64", []string{"0", "negz", "1.5", "nan", "-inf", "1e-320"}},
		{"complex128", "complex128", []string{"0", "complex(negz, 0)", "complex(1, 2)", "complex(nan, 0)", "complex(2, 1)"}},
		{"complex64", "complex64", []string{"0", "complex64(complex(negz, negz))", "complex64(complex(1, 2))", "complex64(complex(0, nan))"}},
		{"string", "string", []string{`""`, `"a"`, `"a$b"`, `"$"`, `"\x00"`, `"a\\$b"`}},
		{"ptr", "*Int", []string{"p0", "p1", "nil", "p2"}},
		{"chan", "chan Int", []string{"c0", "c1", "nil"}},
		{"MyStr", "MyStr", []string{`""`, `"$"`, `"\\"`, `"a"`}},
		{"MyInt", "MyInt", []string{"0", "1", "-1"}},
		{"MyF", "MyF", []string{"0", "MyF(negz)", "MyF(nan)", "1"}},
		{"any", "interface{}", []string{"int8(1)", "Int(1)", `"1"`, "[1]Int{1}", "nil", "float64(1)"}},
		{"any2", "interface{}", []string{"N1(1)", "N2(1)", "Int(1)", "MyInt(1)", "uint32(1)"}},
		{"any3", "interface{}", []string{"local1()", "local2()", "localS1()", "localS2()", "struct{ a Int }{1}"}},
		{"any4", "interface{}", []string{"nan", "nan", "negz", "float64(0)", "float32(0)"}},
		{"any5", "interface{}", []string{"p0", "p1", "(*Int)(nil)", "nil", "c0"}},
		{"any6", "interface{}", []string{"true", `"true"`, "MyStr(\"true\")", `[2]string{"a", "b"}`, `MyArr{"a", "b"}`, `MyPair{"a", "b"}`}},
		{"any7", "interface{}", []string{"int64(1)", "uint64(1)", "complex(1, 0)", "complex64(1)", "uint8(1)"}},
		{"any8", "interface{}", []string{"ImA(1)", "ImB(1)", "Im(ImA(1))", "*sp0", "sp0", "sp1"}},
		{"iface", "Im", []string{"ImA(1)", "ImB(1)", "ImA(2)", "nil"}},
		{"arrInt", "[2]Int", []string{"[2]Int{0, 0}", "[2]Int{0, 1}", "[2]Int{1, 0}", "[2]Int{-1, -1}"}},
		{"arrStr", "[2]string", []string{`[2]string{"a$", "b"}`, `[2]string{"a", "$b"}`, `[2]string{"a", "b"}`, `[2]string{"a$b", ""}`, `[2]string{"", "a$b"}`}},
		{"arrStr2", "[2]string", []string{`[2]string{"a\\", "b"}`, `[2]string{"a", "\\b"}`, `[2]string{"a\\$", "b"}`, `[2]string{"a", "$b"}`, `[2]string{"a\\", "$b"}`}},
		{"arrF", "[2]float64", []string{"[2]float64{0, negz}", "[2]float64{negz, 0}", "[2]float64{nan, 0}", "[2]float64{1, 2}"}},
		{"arrAny", "[2]interface{}", []string{`[2]interface{}{int8(1), "a"}`, `[2]interface{}{"1", "a"}`, `[2]interface{}{Int(1), "a"}`, `[2]interface{}{nil, nil}`}},
		{"arr0", "[0]Int", []string{"[0]Int{}"}},
		{"empty", "struct{}", []string{"struct{}{}"}},
		{"MyArr", "MyArr", []string{`MyArr{"a$", "b"}`, `MyArr{"a", "$b"}`, `MyArr{"", ""}`}},
		{"stSS", "struct{ a, b string }", []string{`struct{ a, b string }{"a$b", ""}`, `struct{ a, b string }{"a", "b"}`, `struct{ a, b string }{"a", "$b"}`, `struct{ a, b string }{"a$", "b"}`, `struct{ a, b string }{"", "a$b"}`}},
		{"stSS2", "struct{ a, b string }", []string{`struct{ a, b string }{"a\\", "$b"}`, `struct{ a, b string }{"a$\\", "b"}`, `struct{ a, b string }{"a\\$", "b"}`, `struct{ a, b string }{"a", "\\$b"}`, `struct{ a, b string }{"a\\", "b"}`}},
		{"MyPair2", "MyPair", []string{`MyPair{"a\\", "$b"}`, `MyPair{"a$\\", "b"}`, `MyPair{"\\", "$"}`, `MyPair{"$\\", ""}`, `MyPair{"", "\\$"}`}},
		{"anyPair", "interface{}", []string{`MyPair{"a\\", "$b"}`, `MyPair{"a$\\", "b"}`, `[2]string{"a\\", "$b"}`, `[2]string{"a$\\", "b"}`}},
		{"MyPair", "MyPair", []string{`MyPair{"a$b", ""}`, `MyPair{"a", "b"}`, `MyPair{"a", "$b"}`, `MyPair{"a$", "b"}`}},
		{"stIS", "struct{ a Int; b string }", []string{`struct{ a Int; b string }{1, "2"}`, `struct{ a Int; b string }{12, ""}`, `struct{ a Int; b string }{1, "$2"}`, `struct{ a Int; b string }{-1, "$"}`}},
		{"stFS", "struct{ f float64; s string }", []string{`struct{ f float64; s string }{0, "x"}`, `struct{ f float64; s string }{negz, "x"}`, `struct{ f float64; s string }{nan, "x"}`, `struct{ f float64; s string }{1, ""}`}},
		{"stAI", "struct{ a interface{}; b Int }", []string{`struct{ a interface{}; b Int }{Int(1), 1}`, `struct{ a interface{}; b Int }{int8(1), 1}`, `struct{ a interface{}; b Int }{"1", 1}`, `struct{ a interface{}; b Int }{nil, 1}`}},
		{"stI64", "struct{ a int64; b uint64 }", []string{`struct{ a int64; b uint64 }{1, 0}`, `struct{ a int64; b uint64 }{0, 1}`, `struct{ a int64; b uint64 }{1 << 32, 0}`, `struct{ a int64; b uint64 }{0, 1 << 32}`}},
		{"stP", "struct{ p *Int; c chan Int }", []string{`struct{ p *Int; c chan Int }{p0, c0}`, `struct{ p *Int; c chan Int }{p1, c0}`, `struct{ p *Int; c chan Int }{p0, c1}`, `struct{ p *Int; c chan Int }{nil, nil}`}},
		{"stNest", "struct{ x MyPair; y [2]Int }", []string{`struct{ x MyPair; y [2]Int }{MyPair{"a", "b"}, [2]Int{1, 2}}`, `struct{ x MyPair; y [2]Int }{MyPair{"a", "b$1"}, [2]Int{0, 2}}`, `struct{ x MyPair; y [2]Int }{MyPair{"a$b", ""}, [2]Int{1, 2}}`, `struct{ x MyPair; y [2]Int }{MyPair{"a", "b"}, [2]Int{2, 1}}`}},
		{"arrSt", "[2]MyPair", []string{`[2]MyPair{{"a", "b"}, {"c", "d"}}`, `[2]MyPair{{"a", "b$c"}, {"", "d"}}`, `[2]MyPair{{"a$b", "c"}, {"d", ""}}`, `[2]MyPair{{"a", "b"}, {"c$d", ""}}`}},
		{"arrArr", "[2][2]string", []string{`[2][2]string{{"a", "b"}, {"c", "d"}}`, `[2][2]string{{"a$b", ""}, {"c", "d"}}`, `[2][2]string{{"a", "b$c"}, {"", "d"}}`, `[2][2]string{{"a", "b"}, {"c$d", ""}}`}},
		{"stBlank", "struct{ a Int; _ Int; b Int }", []string{`struct{ a Int; _ Int; b Int }{a: 1, b: 2}`, `struct{ a Int; _ Int; b Int }{a: 2, b: 1}`, `struct{ a Int; _ Int; b Int }{a: 1, b: 2}`}},
		{"bool2", "[2]bool", []string{"[2]bool{true, false}", "[2]bool{false, true}", "[2]bool{true, true}"}},
	}
}

func depthFor(n int, budget int) int {
	ops := 3*n + 2
	d, tot := 0, 1
	for d < 6 && tot*ops <= budget {
		tot *= ops
		d++
	}
	return d
}

const exploreTmpl = `
func keys_NAME() []TYPE {
	return []TYPE{KEYS}
}

func obs_NAME(m map[TYPE]Int, keys []TYPE, d *digest) {
	d.w(uint32(len(m)))
	for _, k := range keys {
		v, ok := m[k]
		d.w(uint32(v))
		if ok {
			d.w(1)
		} else {
			d.w(2)
		}
		d.w(uint32(m[k]))
	}
	var cnt, sum, xor uint32
	for k, v := range m {
		cnt++
		sum += uint32(v)
		xor ^= uint32(v) * 2654435761
		if k == k && m[k] != v {
			d.w(0xbad)
		}
	}
	d.w(cnt)
	d.w(sum)
	d.w(xor)
}

func apply_NAME(m map[TYPE]Int, keys []TYPE, op int, step int, d *digest) {
	n := len(keys)
	switch {
	case op < n:
		m[keys[op]] = Int(step*16 + op + 1)
	case op < 2*n:
		delete(m, keys[op-n])
	case op < 3*n:
		m[keys[op-2*n]] += 1000
	case op == 3*n:
		// range, deleting every other key when the first entry is reached: the loop body
		// must run exactly once. Skipped when a self-unequal (NaN) entry is present (order-dependent).
		for k := range m {
			if k != k {
				d.w(0x5e1f)
				return
			}
		}
		iters := 0
		for k := range m {
			iters++
			for _, k2 := range keys {
				if k2 != k {
					delete(m, k2)
				}
			}
		}
		d.w(uint32(iters))
		// the same with both iteration variables blank, in its three spellings, on copies of the (now one-entry) map
		// refilled with every key: deleting all entries in the first iteration ends the loop
		for form := 0; form < 3; form++ {
			for i, k2 := range keys {
				if k2 == k2 {
					m[k2] = Int(i)
				}
			}
			n := 0
			switch form {
			case 0:
				for range m {
					n++
					for _, k2 := range keys {
						delete(m, k2)
					}
				}
			case 1:
				for _ = range m {
					n++
					for _, k2 := range keys {
						delete(m, k2)
					}
				}
			default:
				for _, _ = range m {
					n++
					for _, k2 := range keys {
						delete(m, k2)
					}
				}
			}
			d.w(uint32(n*100 + len(m)))
		}
		// which entry survived depends on Go's iteration order: clear the map so the state stays deterministic
		for _, k2 := range keys {
			delete(m, k2)
		}
	default:
		// range, inserting an absent key on the first iteration: every pre-existing entry is
		// visited exactly once (the new one may or may not be).
		var newk TYPE
		found := false
		for _, k := range keys {
			if k != k {
				continue
			}
			if _, ok := m[k]; !ok {
				newk = k
				found = true
				break
			}
		}
		first := true
		var visited, sum uint32
		for _, v := range m {
			if first && found {
				first = false
				m[newk] = 999
			}
			if v != 999 {
				visited++
				sum += uint32(v)
			}
		}
		d.w(visited)
		d.w(sum)
	}
}

func explore_NAME() {
	id := "C15/NAME/"
	keys := keys_NAME()
	n := len(keys)
	nops := 3*n + 2
	// key equality matrix
	{
		s := ""
		for _, a := range keys {
			for _, b := range keys {
				if a == b {
					s += "1"
				} else {
					s += "0"
				}
			}
			s += "."
		}
		println(id+"eq", s)
	}
	// literal construction
	{
		lm := map[TYPE]Int{}
		for i, k := range keys {
			lm[k] = Int(i + 1)
		}
		d := newDigest()
		obs_NAME(lm, keys, &d)
		println(id+"fill", d.String())
	}
	depth := DEPTH
	hist := make([]int, depth)
	for a := 0; a < nops; a++ {
		for b := -1; b < nops; b++ {
			cid := id + "h=" + itoa(int64(a)) + "," + itoa(int64(b))
			det := detailCase == cid
			d := newDigest()
			var rec func(l int)
			run := func(l int) {
				var m map[TYPE]Int
				if l%2 == 0 {
					m = make(map[TYPE]Int)
				} else {
					m = map[TYPE]Int{}
				}
				hd := newDigest()
				for i := 0; i < l; i++ {
					apply_NAME(m, keys, hist[i], i+1, &hd)
					obs_NAME(m, keys, &hd)
				}
				d.w(hd.a)
				d.w(hd.b)
				if det {
					s := ""
					for i := 0; i < l; i++ {
						s += itoa(int64(hist[i])) + ","
					}
					println(cid+"/ops="+s, hd.String())
				}
			}
			rec = func(l int) {
				run(l)
				if l == depth {
					return
				}
				for o := 0; o < nops; o++ {
					hist[l] = o
					rec(l + 1)
				}
			}
			hist[0] = a
			if b < 0 {
				run(1)
			} else if depth >= 2 {
				hist[1] = b
				rec(2)
			}
			println(cid, d.String())
		}
	}
	// nil map: reads are empty, writes panic
	{
		var m map[TYPE]Int
		k := keys[0]
		v, ok := m[k]
		cnt := 0
		for range m {
			cnt++
		}
		delete(m, k)
		println(id+"nil/read", itoa(int64(v)), btoa(ok), itoa(int64(len(m))), itoa(int64(cnt)))
		println(id+"nil/write", func() (res string) {
			defer func() { res = errClass(recover()) }()
			m[k] = 1
			return "no panic"
		}())
	}
}
`

// Programs returns the C15 programs (types are distributed over nprog programs).
func Programs(thorough bool, detail string) []diffrun.Program {
	budget := 40000
	if thorough {
		budget = 1200000
	}
	types := baseTypes()
	nprog := 16
	var progs []diffrun.Program
	for pi := 0; pi < nprog; pi++ {
		var b strings.Builder
		fmt.Fprintf(&b, "package main\n%s\nvar detailCase = %q\n", preamble, detail)
		var calls []string
		for ti, t := range types {
			if ti%nprog != pi {
				continue
			}
			src := exploreTmpl
			src = strings.ReplaceAll(src, "NAME", t.Name)
			src = strings.ReplaceAll(src, "TYPE", t.Type)
			src = strings.ReplaceAll(src, "KEYS", strings.Join(t.Keys, ", "))
			src = strings.ReplaceAll(src, "DEPTH", fmt.Sprint(depthFor(len(t.Keys), budget)))
			b.WriteString(src)
			calls = append(calls, "explore_"+t.Name+"()")
		}
		b.WriteString("\nfunc main() {\n")
		for _, c := range calls {
			b.WriteString("\t" + c + "\n")
		}
		if pi == 0 {
			b.WriteString("\tunhashable()\n")
		}
		b.WriteString("}\n")
		if pi == 0 {
			b.WriteString(unhashable)
		}
		name := fmt.Sprintf("c15_%02d", pi)
		p := diffrun.Program{Name: name, Files: map[string]string{"main.go": b.String()}}
		progs = append(progs, p)
	}
	if detail == "" {
		for i := range progs {
			idx := i
			progs[i].Detail = func(c string) *diffrun.Program {
				d := Programs(thorough, c)[idx]
				return &d
			}
		}
	}
	return progs
}

const unhashable = `
func tryKey(m map[interface{}]Int, k interface{}, write bool) (res string) {
	defer func() {
		if r := recover(); r != nil {
			res = "panic"
		}
	}()
	if write {
		m[k] = 1
		return "stored"
	}
	_, ok := m[k]
	return "read:" + btoa(ok)
}

// accessForms: every way a key reaches a map; an unhashable dynamic key type panics in all of them, whatever the map holds
func accessForms(m map[interface{}]Int, k interface{}) string {
	try := func(f func()) (res string) {
		defer func() {
			if recover() != nil {
				res = "P"
			}
		}()
		f()
		return "-"
	}
	return try(func() { _ = m[k] }) + try(func() { _, _ = m[k] }) + try(func() { delete(m, k) }) + try(func() {
		if m != nil {
			m[k] = 1
		} else {
			panic("nil map write")
		}
	}) + try(func() {
		if m != nil {
			m[k]++
		} else {
			panic("nil map write")
		}
	})
}

type arrKey [1]interface{}
type stKey struct {
	n Int
	i interface{}
}

func unhashable() {
	{
		ks := []interface{}{[]Int{1}, map[Int]Int{}, func() {}, [1][]Int{{1}}, struct{ f func() }{nil}, [1]interface{}{[]Int{1}}, struct{ a interface{} }{[]Int(nil)}, Int(1), "ok", nil, [1]interface{}{1}}
		var nilMap map[interface{}]Int
		for i, k := range ks {
			println("C15/unhashable/forms/"+itoa(int64(i)), accessForms(nilMap, k), accessForms(map[interface{}]Int{}, k), accessForms(map[interface{}]Int{1: 1, "a": 2}, k))
		}
		var na map[arrKey]Int
		var ns map[stKey]Int
		res := ""
		for _, f := range []func(){func() { _ = na[arrKey{[]Int{1}}] }, func() { delete(na, arrKey{func() {}}) }, func() { _, _ = ns[stKey{1, []Int{1}}] }, func() { delete(ns, stKey{1, map[Int]Int{}}) }, func() { _ = na[arrKey{1}] }, func() { _ = map[arrKey]Int{}[arrKey{[]Int{1}}] }} {
			res += func() (r string) {
				defer func() {
					if recover() != nil {
						r = "P"
					}
				}()
				f()
				return "-"
			}()
		}
		println("C15/unhashable/composite-nil", res)
	}
	m := map[interface{}]Int{}
	ks := []interface{}{[]Int{1}, map[Int]Int{}, func() {}, [1][]Int{{1}}, struct{ f func() }{nil}, [1]interface{}{[]Int{1}}, struct{ a interface{} }{[]Int(nil)}}
	for i, k := range ks {
		println("C15/unhashable/"+itoa(int64(i)), tryKey(m, k, true), tryKey(m, k, false), itoa(int64(len(m))))
	}
	ma := map[[1]interface{}]Int{}
	println("C15/unhashable/arr", func() (res string) {
		defer func() {
			if recover() != nil {
				res = "panic"
			}
		}()
		ma[[1]interface{}{[]Int{1}}] = 1
		return "stored"
	}())
}
`

// ConstKeyProgram: keys written as constant expressions (which the compiler may fold into the
// generated code) must address the same entries as the same keys held in variables, for every
// operation form: entries made through variables are read / tested / updated / deleted through
// constants and the other way round (assignment and map literal).
func ConstKeyProgram() diffrun.Program {
	fams := []struct{ name, typ string; keys []string }{
		{"string", "string", []string{`""`, `"a"`, `"café"`, `"日本"`, `"naïve"`, `"\xff\xfe"`, `"é"`, `"é"`, `"😀"`, `"a\x00b"`, `"$"`, `"\\"`, `"\""`, `"tab\t"`, `"caf" + "é"`, `"ÿ"`, `"\xc3\xa9"`, `"ÿ"`, `"\x7f"`, `"\u0080"`}},
		{"mystr", "MyStr", []string{`"x"`, `"é"`, `MyStr("日")`, `"\xe9"`, `cstr`, `cstr + "ß"`}},
		{"iface", "interface{}", []string{`1`, `int8(1)`, `"1"`, `1.0`, `'1'`, `MyStr("1")`, `"é"`, `MyStr("é")`, `true`, `2.5`, `float32(2.5)`, `int64(1)`, `uint64(1)`, `int64(1) << 40`, `cstr`, `int64(cnum)`, `nil`, `[1]string{"é"}`, `struct{ s string }{"é"}`, `'é'`, `complex(1, 0)`}},
		{"float", "float64", []string{`0.0`, `1`, `0.1`, `1e100`, `-1.5`, `1 << 60`, `cflt`, `1.0 / 3`}},
		{"int64", "int64", []string{`0`, `-1`, `1 << 40`, `-1 << 63`, `1<<63 - 1`, `cnum`, `'x'`}},
		{"rune", "rune", []string{`'a'`, `'é'`, `'😀'`, `0`, `-1`, `0x10ffff`}},
		{"array", "[2]string", []string{`[2]string{"a", "b"}`, `[2]string{"é", ""}`, `[2]string{"", "é"}`, `[2]string{1: "日"}`, `[...]string{"$", "\\"}`}},
		{"struct", "pk", []string{`pk{"é", 1}`, `pk{"", 0}`, `pk{s: "日本"}`, `pk{"$", 36}`, `pk{n: 2, s: "\\"}`}},
		{"bool", "bool", []string{`true`, `false`, `1 < 2`, `cstr == "x"`}},
		{"complex", "complex128", []string{`0`, `1i`, `1 + 2i`, `complex(1, 2)`, `2.5`}},
	}
	var b strings.Builder
	b.WriteString(`package main

type MyStr string
type pk struct {
	s string
	n Int
}

const cstr = "kéy"
const cnum = 1 << 33
const cflt = 2.5

func o(id, s string) { println("C15/constkey/"+id, s) }

func main() {
`)
	for _, f := range fams {
		fmt.Fprintf(&b, "\t{\n\t\t// %s: entries made through variables, accessed through constants\n\t\tm := map[%s]Int{}\n\t\tvar k %s\n", f.name, f.typ, f.typ)
		for i, k := range f.keys {
			fmt.Fprintf(&b, "\t\tk = %s\n\t\tm[k] += %d\n", k, 1<<uint(i%20))
		}
		fmt.Fprintf(&b, "\t\tn0 := len(m)\n\t\tres := \"\"\n")
		for _, k := range f.keys {
			fmt.Fprintf(&b, "\t\t{\n\t\t\tv := m[%s]\n\t\t\t_, ok := m[%s]\n\t\t\tm[%s] += 1 << 21\n\t\t\tk = %s\n\t\t\tw := m[k]\n\t\t\tdelete(m, %s)\n\t\t\t_, ok2 := m[k]\n\t\t\tres += itoa(int64(v)) + btoa(ok) + itoa(int64(w)) + btoa(ok2) + itoa(int64(len(m))) + \";\"\n\t\t}\n", k, k, k, k, k)
		}
		fmt.Fprintf(&b, "\t\to(%q, itoa(int64(n0))+\":\"+res)\n", f.name+"/var-then-const")
		// entries made through constants (assignment and literal), accessed through variables
		fmt.Fprintf(&b, "\t\tm2 := map[%s]Int{}\n", f.typ)
		for i, k := range f.keys {
			fmt.Fprintf(&b, "\t\tm2[%s] += %d\n", k, 1<<uint(i%20))
		}
		fmt.Fprintf(&b, "\t\tres = itoa(int64(len(m2))) + \":\"\n")
		for _, k := range f.keys {
			fmt.Fprintf(&b, "\t\tk = %s\n\t\tres += itoa(int64(m2[k])) + \";\"\n\t\tdelete(m2, k)\n\t\tres += itoa(int64(len(m2))) + \";\"\n", k)
		}
		fmt.Fprintf(&b, "\t\to(%q, res)\n\t}\n", f.name+"/const-then-var")
	}
	// map literals with constant keys (no duplicates allowed by the compiler for constants of basic types)
	b.WriteString(`	{
		lit := map[string]Int{"a": 1, "café": 2, "日本": 3, "\xff\xfe": 4, "é": 5, "é": 6, "$": 7, "\\": 8, cstr: 9}
		ks := []string{"a", "café", "日本", "\xff\xfe", "é", "é", "$", "\\", "kéy", "missing"}
		res := itoa(int64(len(lit))) + ":"
		for _, k := range ks {
			v, ok := lit[k]
			res += itoa(int64(v)) + btoa(ok)
		}
		il := map[interface{}]Int{1: 1, int8(1): 2, "1": 3, 1.0: 4, '1': 5, MyStr("1"): 6, "é": 7, true: 8, nil: 9}
		var iks = []interface{}{1, int8(1), "1", 1.0, '1', MyStr("1"), "é", true, nil, int16(1), float32(1)}
		res += "|" + itoa(int64(len(il))) + ":"
		for _, k := range iks {
			v, ok := il[k]
			res += itoa(int64(v)) + btoa(ok)
		}
		switch k := "café"; k {
		case "cafe":
			res += "|plain"
		case "caf" + "é":
			res += "|accent"
		}
		o("literals", res)
	}
}
`)
	return diffrun.Program{Name: "c15_constkeys", Files: map[string]string{"main.go": b.String()}}
}
