// Package panics generates the C08 programs.
package panics

import (
	"fmt"

	"verif/mc/diffrun"
)

// unwindSrc: an interpreter of "unwinding trees": every frame has up to two deferred
// actions and a body; ALL trees up to the depth are enumerated inside the program.
const unwindSrc = `package main

import "runtime"

const (
	aTrace = iota
	aRecover
	aRecHelper
	aRecClosure
	aRepanic
	aPanicNew
	aModRes
	aGoexit
	aRecoverSet
	aRecoverTwice
	nActions
)

const (
	bRet = iota
	bPanic
	bRTE
	bCall
	bGoexit
	bPanicErr
	nBodies
)

type frame struct {
	defers []int
	body   int
}

type myErr struct{ code Int }

func (e *myErr) Error() string { return "myErr" + itoa(int64(e.code)) }

var tree []frame
var tr string

func ev(s string) { tr += s + ";" }

func cls(r interface{}) string {
	if r == nil {
		return "nil"
	}
	if e, ok := r.(*myErr); ok {
		return "myErr:" + itoa(int64(e.code))
	}
	return errClass(r)
}

func helperRecover() interface{} { return recover() }

func run(level int) (res Int) {
	f := tree[level]
	res = Int(level * 10)
	ls := itoa(int64(level))
	for idx, a := range f.defers {
		a := a
		is := ls + "." + itoa(int64(idx))
		defer func() {
			ev("d" + is)
			switch a {
			case aTrace:
			case aRecover:
				r := recover()
				ev("rec=" + cls(r))
			case aRecHelper:
				r := helperRecover()
				ev("rech=" + cls(r))
			case aRecClosure:
				func() {
					r := recover()
					ev("recc=" + cls(r))
				}()
			case aRepanic:
				r := recover()
				ev("rp=" + cls(r))
				if r != nil {
					panic(r)
				}
			case aPanicNew:
				panic("new" + is)
			case aModRes:
				res += 100
			case aGoexit:
				ev("gx")
				runtime.Goexit()
			case aRecoverSet:
				if r := recover(); r != nil {
					res = 555
					ev("set")
				}
			case aRecoverTwice:
				r1 := recover()
				r2 := recover()
				ev("r1=" + cls(r1) + ",r2=" + cls(r2))
			}
		}()
	}
	ev("b" + ls)
	switch f.body {
	case bRet:
		return Int(level*10 + 1)
	case bPanic:
		panic("p" + ls)
	case bPanicErr:
		panic(&myErr{Int(level)})
	case bRTE:
		var m map[string]Int
		m["x"] = 1
	case bCall:
		v := run(level + 1)
		ev("ret" + ls + "=" + itoa(int64(v)))
		return v + 1
	case bGoexit:
		ev("gxb")
		runtime.Goexit()
	}
	return
}

func runTree() string {
	tr = ""
	done := make(chan bool)
	go func() {
		defer func() {
			r := recover()
			ev("top=" + cls(r))
			done <- true
		}()
		v := run(0)
		ev("result=" + itoa(int64(v)))
	}()
	<-done
	return tr
}

var deferLists [][]int

func main() {
	deferLists = append(deferLists, nil)
	for a := 0; a < nActions; a++ {
		deferLists = append(deferLists, []int{a})
	}
	for a := 0; a < nActions; a++ {
		for b := 0; b < nActions; b++ {
			deferLists = append(deferLists, []int{a, b})
		}
	}
	nd := len(deferLists)
	// level-0 frame configurations are sharded over programs
	cfg := 0
	for d0 := 0; d0 < nd; d0++ {
		for b0 := 0; b0 < nBodies; b0++ {
			cfg++
			if cfg%nShards != shard {
				continue
			}
			id := "C08/unwind/f0=" + itoa(int64(d0)) + "," + itoa(int64(b0))
			det := detailCase == id
			d := newDigest()
			n := 0
			if b0 != bCall {
				tree = []frame{{deferLists[d0], b0}}
				t := runTree()
				d.str(t)
				n++
				if det {
					println(id+"/t=-", t)
				}
			} else {
				for d1 := 0; d1 < nd; d1++ {
					if len(deferLists[d1]) > maxInnerDefers {
						continue
					}
					for b1 := 0; b1 < nBodies; b1++ {
						if b1 != bCall {
							tree = []frame{{deferLists[d0], b0}, {deferLists[d1], b1}}
							t := runTree()
							d.str(t)
							n++
							if det {
								println(id+"/t="+itoa(int64(d1))+","+itoa(int64(b1)), t)
							}
							continue
						}
						if depth < 3 {
							continue
						}
						for d2 := 0; d2 < nd; d2++ {
							if len(deferLists[d2]) > 1 {
								continue
							}
							for b2 := 0; b2 < nBodies; b2++ {
								if b2 == bCall {
									continue
								}
								tree = []frame{{deferLists[d0], b0}, {deferLists[d1], b1}, {deferLists[d2], b2}}
								t := runTree()
								d.str(t)
								n++
								if det {
									println(id+"/t="+itoa(int64(d1))+","+itoa(int64(b1))+","+itoa(int64(d2))+","+itoa(int64(b2)), t)
								}
							}
						}
					}
				}
			}
			println(id, itoa(int64(n)), d.String())
		}
	}
}
`

// UnwindPrograms shards the unwinding-tree exploration.
func UnwindPrograms(thorough bool, detail string) []diffrun.Program {
	depth, maxInner := 2, 2
	if thorough {
		depth = 3
	}
	n := 16
	var ps []diffrun.Program
	for i := 0; i < n; i++ {
		hdr := fmt.Sprintf("package main\n\nconst nShards = %d\nconst shard = %d\nconst depth = %d\nconst maxInnerDefers = %d\n\nvar detailCase = %q\n", n, i, depth, maxInner, detail)
		p := diffrun.Program{Name: fmt.Sprintf("c08_unwind_%02d", i), Files: map[string]string{"main.go": unwindSrc, "cfg.go": hdr}}
		ps = append(ps, p)
	}
	if detail == "" {
		for i := range ps {
			idx := i
			ps[i].Detail = func(c string) *diffrun.Program { d := UnwindPrograms(thorough, c)[idx]; return &d }
		}
	}
	return ps
}
