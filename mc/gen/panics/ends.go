package panics

import (
	"fmt"

	"verif/mc/diffrun"
)

// whole-program endings: each is its own program (the way the program ends is the observable)
var ends = []struct{ name, body string }{
	{"main-panic-string", `println("C08/end start"); panic("fatal")`},
	{"main-rte", `println("C08/end start"); var m map[string]Int; m["a"] = 1`},
	{"main-custom-error", `println("C08/end start"); panic(myE{})`},
	{"goroutine-panic", `println("C08/end start"); c := make(chan Int); go func() { var p *[2]Int; println("C08/end g"); c <- p[1] }(); <-c; println("C08/end not-reached")`},
	{"goroutine-panic-main-blocked", `println("C08/end start"); c := make(chan Int); go func() { panic("in goroutine") }(); <-c`},
	{"deadlock", `println("C08/end start"); c := make(chan Int); go func() { println("C08/end g") }(); <-c`},
	{"recovered-then-exit", `println("C08/end start"); func() { defer func() { println("C08/end rec", errClass(recover())) }(); panic("x") }(); println("C08/end done")`},
	{"panic-during-defer-uncaught", `println("C08/end start"); defer func() { panic("second") }(); panic("first")`},
	{"defers-run-before-crash", `println("C08/end start"); defer println("C08/end deferred-ran"); var s []Int; _ = s[len(s)+1-1]`},
	{"repanic-uncaught", `println("C08/end start"); defer func() { r := recover(); println("C08/end rec", errClass(r)); panic(r) }(); panic("again")`},
	{"exit-with-goroutines-blocked", `println("C08/end start"); c := make(chan Int); go func() { <-c }(); println("C08/end done")`},
}

// EndPrograms returns one program per ending.
func EndPrograms() []diffrun.Program {
	var ps []diffrun.Program
	for _, e := range ends {
		src := fmt.Sprintf("package main\n\ntype myE struct{}\n\nfunc (myE) Error() string { return \"my error text\" }\n\nfunc main() {\n\t%s\n}\n", e.body)
		ps = append(ps, diffrun.Program{Name: "c08_end_" + e.name, Files: map[string]string{"main.go": src}})
	}
	return ps
}
