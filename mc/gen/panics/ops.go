package panics

import "verif/mc/diffrun"

const opsSrc = `package main

import "runtime"

var tr string

func t(s string) Int { tr += s + ";"; return 1 }

func probe(id string, f func() string) {
	tr = ""
	res := func() (res string) {
		defer func() {
			if r := recover(); r != nil {
				_, isRTE := r.(runtime.Error)
				res = "PANIC(" + errClass(r) + "," + btoa(isRTE) + ")"
			}
		}()
		return "ok:" + f()
	}()
	println("C08/op/"+id, res, "trace="+tr)
}

type S struct {
	a Int
	b [2]Int
}

func (s S) Val() Int   { return s.a }
func (s *S) Ptr() Int  { return s.a }
type I interface{ Val() Int }
type J interface{ Other() }

var sink Int
var sinkS string

func idx(i int) int { return i }

func indexing() {
	s := []Int{1, 2, 3}
	a := [3]Int{1, 2, 3}
	pa := &a
	str := "abc"
	var ss []S = []S{{a: 1}}
	for _, i := range []int{-1, 0, 2, 3, 1 << 30} {
		is := itoa(int64(i))
		probe("index/slice/i="+is, func() string { t("a"); x := s[i]; t("b"); return itoa(int64(x)) })
		probe("index/array/i="+is, func() string { t("a"); x := a[i]; t("b"); return itoa(int64(x)) })
		probe("index/arrptr/i="+is, func() string { t("a"); x := pa[i]; t("b"); return itoa(int64(x)) })
		probe("index/string/i="+is, func() string { t("a"); x := str[i]; t("b"); return itoa(int64(x)) })
		probe("index/slice-store/i="+is, func() string { c := []Int{1, 2, 3}; c[i] = t("rhs"); t("b"); return itoa(int64(c[0])) })
		probe("index/array-store/i="+is, func() string { var c [3]Int; c[i] = t("rhs"); t("b"); return itoa(int64(c[0])) })
		probe("index/arrptr-store/i="+is, func() string { var c [3]Int; pc := &c; pc[i] = t("rhs"); t("b"); return itoa(int64(c[0])) })
		probe("index/slice-opassign/i="+is, func() string { c := []Int{1, 2, 3}; c[i] += t("rhs"); return itoa(int64(c[0])) })
		probe("index/slice-incdec/i="+is, func() string { c := []Int{1, 2, 3}; c[i]++; return itoa(int64(c[0])) })
		probe("index/slice-addr/i="+is, func() string { c := []Int{1, 2, 3}; p := &c[i]; t("b"); return itoa(int64(*p)) })
		probe("index/struct-elem-field/i="+is, func() string { if i > 3 { return "skip" }; x := ss[idx(i)%5].a; return itoa(int64(x)) })
		probe("index/tuple-store/i="+is, func() string { c := []Int{1, 2, 3}; var x Int; x, c[i] = 7, 8; return itoa(int64(x)) })
	}
	// evaluation order in a tuple assignment: the first assignment is carried out before the second panics
	probe("index/tuple-partial", func() string {
		c := []Int{1, 2, 3}
		var x Int
		func() {
			defer func() { recover() }()
			x, c[idx(5)] = 7, 8
		}()
		return itoa(int64(x))
	})
	var ns []Int
	probe("index/nil-slice", func() string { x := ns[idx(0)]; return itoa(int64(x)) })
	var nstr string
	probe("index/empty-string", func() string { x := nstr[idx(0)]; return itoa(int64(x)) })
}

func slicing() {
	s := make([]Int, 3, 5)
	a := [4]Int{}
	pa := &a
	str := "abcd"
	vals := []int{-1, 0, 2, 3, 4, 5, 6}
	for _, i := range vals {
		for _, j := range vals {
			id := "/i=" + itoa(int64(i)) + "/j=" + itoa(int64(j))
			probe("slice/slice"+id, func() string { x := s[i:j]; return itoa(int64(len(x))) + "," + itoa(int64(cap(x))) })
			probe("slice/array"+id, func() string { x := a[i:j]; return itoa(int64(len(x))) + "," + itoa(int64(cap(x))) })
			probe("slice/arrptr"+id, func() string { x := pa[i:j]; return itoa(int64(len(x))) + "," + itoa(int64(cap(x))) })
			probe("slice/string"+id, func() string { x := str[i:j]; return x })
			for _, k := range []int{-1, 2, 5, 6} {
				probe("slice/3idx"+id+"/k="+itoa(int64(k)), func() string { x := s[i:j:k]; return itoa(int64(len(x))) + "," + itoa(int64(cap(x))) })
			}
		}
		is := "/i=" + itoa(int64(i))
		probe("slice/lo-only"+is, func() string { x := s[i:]; return itoa(int64(len(x))) })
		probe("slice/hi-only"+is, func() string { x := s[:i]; return itoa(int64(len(x))) })
		probe("slice/str-lo"+is, func() string { return str[i:] })
		probe("slice/str-hi"+is, func() string { return str[:i] })
	}
	// slices of slices whose offset and capacity differ from those of the backing array: the limits are
	// the slice's own length and capacity, never those of the array behind it
	backing := []Int{0, 1, 2, 3, 4, 5, 6, 7}
	windows := []struct {
		name string
		w    []Int
	}{{"2:4:5", backing[2:4:5]}, {"1:3", backing[1:3]}, {"3:3:6", backing[3:3:6]}, {":0:0", backing[:0:0]}, {"6:", backing[6:]}}
	for _, win := range windows {
		w := win.w
		for i := 0; i <= 2; i++ {
			for j := 0; j <= 8; j++ {
				id := "/w=" + win.name + "/i=" + itoa(int64(i)) + "/j=" + itoa(int64(j))
				probe("slice/window2"+id, func() string { x := w[i:j]; return itoa(int64(len(x))) + "," + itoa(int64(cap(x))) })
				for k := 0; k <= 8; k++ {
					probe("slice/window3"+id+"/k="+itoa(int64(k)), func() string { x := w[i:j:k]; return itoa(int64(len(x))) + "," + itoa(int64(cap(x))) })
				}
			}
		}
	}
	var ns []Int
	probe("slice/nil-0-0", func() string { x := ns[0:0]; return btoa(x == nil) })
	probe("slice/nil-0-1", func() string { x := ns[0:idx(1)]; return btoa(x == nil) })
	var np *[4]Int
	probe("slice/nil-arrptr", func() string { x := np[0:idx(0)]; return itoa(int64(len(x))) })
	probe("slice/nil-arrptr-1", func() string { x := np[0:idx(1)]; return itoa(int64(len(x))) })
}

func nils() {
	var m map[string]Int
	probe("nil/map-store", func() string { m["k"] = t("rhs"); return "stored" })
	probe("nil/map-load", func() string { return itoa(int64(m["k"])) })
	probe("nil/map-delete", func() string { delete(m, "k"); return itoa(int64(len(m))) })
	probe("nil/map-opassign", func() string { m["k"] += t("rhs"); return "stored" })
	probe("nil/map-incdec", func() string { m["k"]++; return "stored" })
	var ms map[string]S
	probe("nil/map-struct-store", func() string { ms["k"] = S{a: t("rhs")}; return "stored" })
	var p *Int
	probe("nil/ptr-load", func() string { t("a"); x := *p; t("b"); return itoa(int64(x)) })
	probe("nil/ptr-store", func() string { *p = t("rhs"); return "stored" })
	probe("nil/ptr-opassign", func() string { *p += t("rhs"); return "stored" })
	var ps *S
	probe("nil/field-load", func() string { t("a"); x := ps.a; t("b"); return itoa(int64(x)) })
	probe("nil/field-store", func() string { ps.a = t("rhs"); return "stored" })
	probe("nil/field-addr", func() string { q := &ps.a; t("b"); return itoa(int64(*q)) })
	probe("nil/field-array-elem", func() string { x := ps.b[idx(1)]; return itoa(int64(x)) })
	probe("nil/struct-deref-copy", func() string { c := *ps; return itoa(int64(c.a)) })
	probe("nil/value-method-via-ptr", func() string { return itoa(int64(ps.Val())) })
	probe("nil/ptr-method-via-ptr", func() string { defer func() { recover(); tr += "rec;" }(); return itoa(int64(ps.Ptr())) })
	probe("nil/method-value-via-ptr", func() string { f := ps.Val; t("bound"); return itoa(int64(f())) })
	var pa *[3]Int
	probe("nil/arrptr-load", func() string { t("a"); x := pa[idx(1)]; t("b"); return itoa(int64(x)) })
	probe("nil/arrptr-store", func() string { pa[idx(1)] = t("rhs"); return "stored" })
	probe("nil/arrptr-len", func() string { return itoa(int64(len(pa))) })
	probe("nil/arrptr-range-index", func() string { n := 0; for range pa { n++ }; return itoa(int64(n)) })
	probe("nil/arrptr-range-value", func() string { n := Int(0); for _, v := range pa { n += v }; return itoa(int64(n)) })
	var f func() Int
	probe("nil/func-call", func() string { t("a"); x := f(); t("b"); return itoa(int64(x)) })
	probe("nil/func-call-args", func() string { var g func(Int) Int; x := g(t("arg")); return itoa(int64(x)) })
	probe("nil/func-go", func() string { defer func() { recover() }(); defer f(); return "deferred" })
	var i I
	probe("nil/iface-call", func() string { t("a"); x := i.Val(); t("b"); return itoa(int64(x)) })
	probe("nil/iface-method-value", func() string { g := i.Val; t("bound"); return itoa(int64(g())) })
	var ip I = ps
	_ = ip
	var sl []Int
	probe("nil/slice-len-range", func() string { n := len(sl); for range sl { n++ }; return itoa(int64(n)) })
	probe("nil/slice-append", func() string { x := append(sl, 1); return itoa(int64(len(x))) })
	var c chan Int
	probe("nil/chan-close", func() string { close(c); return "closed" })
	probe("nil/chan-len", func() string { return itoa(int64(len(c) + cap(c))) })
}

func arith() {
	z := Int(0)
	z8, z64, zu := int8(0), int64(0), uint64(0)
	var zu8 uint8
	var zup Uintptr
	probe("div/Int", func() string { t("a"); x := Int(7) / z; t("b"); return itoa(int64(x)) })
	probe("div/Int-rem", func() string { x := Int(7) % z; return itoa(int64(x)) })
	probe("div/int8", func() string { x := int8(7) / z8; return itoa(int64(x)) })
	probe("div/int64", func() string { x := int64(7) / z64; return itoa(x) })
	probe("div/int64-rem", func() string { x := int64(7) % z64; return itoa(x) })
	probe("div/uint64", func() string { x := uint64(7) / zu; return utoa(x) })
	probe("div/uint8-zero-zero", func() string { x := zu8 / zu8; return itoa(int64(x)) })
	probe("div/Uintptr-zero-zero", func() string { x := zup / zup; return itoa(int64(x)) })
	probe("div/Int-zero-zero", func() string { x := z / z; return itoa(int64(x)) })
	probe("div/opassign", func() string { x := Int(7); x /= z; return itoa(int64(x)) })
	probe("div/rem-opassign", func() string { x := Int(7); x %= z; return itoa(int64(x)) })
	probe("div/float-no-panic", func() string { fz := float64(0); x := 1 / fz; return ftoa(x) })
	probe("div/order", func() string { x := t("l") / (t("r") - 1); return itoa(int64(x)) })
}

type unc struct{ f []Int }

func assertions() {
	var e interface{}
	var s interface{} = "str"
	var n interface{} = Int(3)
	var sv interface{} = S{a: 1}
	var pv interface{} = &S{a: 2}
	probe("assert/nil-to-Int", func() string { t("a"); x := e.(Int); t("b"); return itoa(int64(x)) })
	probe("assert/string-to-Int", func() string { x := s.(Int); return itoa(int64(x)) })
	probe("assert/Int-to-Int", func() string { x := n.(Int); return itoa(int64(x)) })
	probe("assert/commaok-never-panics", func() string { x, ok := s.(Int); y, ok2 := e.(I); return itoa(int64(x)) + btoa(ok) + btoa(y == nil) + btoa(ok2) })
	probe("assert/to-iface-missing", func() string { x := s.(I); return btoa(x == nil) })
	probe("assert/to-iface-nil", func() string { x := e.(I); return btoa(x == nil) })
	probe("assert/struct-to-I", func() string { x := sv.(I); return itoa(int64(x.Val())) })
	probe("assert/ptr-to-I", func() string { x := pv.(I); return itoa(int64(x.Val())) })
	probe("assert/struct-to-J", func() string { x := sv.(J); return btoa(x == nil) })
	probe("assert/I-to-J", func() string { var i I = S{}; x := i.(J); return btoa(x == nil) })
	probe("assert/struct-to-ptr", func() string { x := sv.(*S); return itoa(int64(x.a)) })
	probe("assert/typeswitch-no-panic", func() string {
		switch e.(type) {
		case Int:
			return "Int"
		case nil:
			return "nil"
		}
		return "default"
	})
	// comparing uncomparable dynamic types
	var a1, a2 interface{} = []Int{1}, []Int{1}
	var m1 interface{} = map[string]Int{}
	var f1 interface{} = func() {}
	var u1 interface{} = unc{}
	var arr1 interface{} = [1][]Int{}
	probe("cmp/slice-slice", func() string { t("a"); r := a1 == a2; t("b"); return btoa(r) })
	probe("cmp/map-map", func() string { return btoa(m1 == m1) })
	probe("cmp/func-func", func() string { return btoa(f1 == f1) })
	probe("cmp/struct-with-slice", func() string { return btoa(u1 == u1) })
	probe("cmp/array-of-slice", func() string { return btoa(arr1 == arr1) })
	probe("cmp/slice-vs-int-no-panic", func() string { return btoa(a1 == n) })
	probe("cmp/slice-vs-nil-no-panic", func() string { return btoa(a1 == nil) + btoa(e == nil) })
	probe("cmp/ne-slice", func() string { return btoa(a1 != a2) })
	probe("cmp/iface-in-struct", func() string {
		type w struct{ x interface{} }
		return btoa(w{a1} == w{a2})
	})
	probe("cmp/iface-in-array", func() string { return btoa([1]interface{}{a1} == [1]interface{}{a2}) })
	probe("cmp/comparable-ok", func() string { return btoa(sv == interface{}(S{a: 1})) + btoa(n == interface{}(Int(3))) + btoa(pv == pv) })
	probe("cmp/switch-on-iface", func() string {
		switch a1 {
		case n:
			return "n"
		case a2:
			return "a2"
		}
		return "none"
	})
}

func makes() {
	for _, n := range []int{-1, 0, 3} {
		ns := itoa(int64(n))
		probe("make/slice-len="+ns, func() string { t("a"); x := make([]Int, n); t("b"); return itoa(int64(len(x))) })
		probe("make/slice-cap="+ns, func() string { x := make([]Int, 0, n); return itoa(int64(cap(x))) })
		probe("make/slice-len-gt-cap="+ns, func() string { x := make([]Int, n+1, n); return itoa(int64(len(x))) })
		probe("make/chan="+ns, func() string { x := make(chan Int, n); return itoa(int64(cap(x))) })
		probe("make/map="+ns, func() string { x := make(map[string]Int, n); return itoa(int64(len(x))) })
		probe("make/slice-struct="+ns, func() string { x := make([]S, n); return itoa(int64(len(x))) })
		probe("make/slice-int64="+ns, func() string { x := make([]Int, int64(n)); return itoa(int64(len(x))) })
	}
	probe("make/oversized", func() string { n := int64(1) << 62; x := make([]Int, n); return itoa(int64(len(x))) })
	probe("make/oversized-uint64", func() string { n := uint64(1) << 63; x := make([]uint8, n); return itoa(int64(len(x))) })
	// slice to array conversions
	s := []Int{1, 2, 3}
	probe("conv/arr-exact", func() string { x := [3]Int(s); return itoa(int64(x[2])) })
	probe("conv/arr-shorter", func() string { x := [2]Int(s); return itoa(int64(x[1])) })
	probe("conv/arr-longer", func() string { t("a"); x := [4]Int(s); t("b"); return itoa(int64(x[2])) })
	probe("conv/arrptr-longer", func() string { x := (*[4]Int)(s); return itoa(int64(x[2])) })
	probe("conv/arrptr-exact", func() string { x := (*[3]Int)(s); return itoa(int64(x[2])) })
	probe("conv/arr-zero-from-nil", func() string { var ns []Int; x := [0]Int(ns); p := (*[0]Int)(ns); return itoa(int64(len(x))) + btoa(p == nil) })
	probe("conv/arr-one-from-nil", func() string { var ns []Int; x := [1]Int(ns); return itoa(int64(len(x))) })
	{
		full := []Int{1, 2, 3}
		var nilS []Int
		srcs := []struct {
			name string
			s    []Int
		}{{"nil", nilS}, {"nil-resliced", nilS[:0]}, {"empty", full[:0]}, {"empty-cap0", full[:0:0]}, {"empty-end", full[3:]}, {"len1", full[:1]}, {"len2-off1", full[1:]}, {"len3", full}, {"len2-cap2", full[:2:2]}}
		for _, src := range srcs {
			src := src
			probe("conv/Int/arr0/"+src.name, func() string { t("a"); x := [0]Int(src.s); t("b"); return itoa(int64(len(x))) })
			probe("conv/Int/ptr0/"+src.name, func() string { t("a"); x := (*[0]Int)(src.s); t("b"); if x == nil { return "nilptr" }; return itoa(int64(len(x))) })
			probe("conv/Int/arr1/"+src.name, func() string { t("a"); x := [1]Int(src.s); t("b"); return itoa(int64(len(x))) })
			probe("conv/Int/ptr1/"+src.name, func() string { t("a"); x := (*[1]Int)(src.s); t("b"); if x == nil { return "nilptr" }; return itoa(int64(len(x))) })
			probe("conv/Int/arr2/"+src.name, func() string { t("a"); x := [2]Int(src.s); t("b"); return itoa(int64(len(x))) })
			probe("conv/Int/ptr2/"+src.name, func() string { t("a"); x := (*[2]Int)(src.s); t("b"); if x == nil { return "nilptr" }; return itoa(int64(len(x))) })
			probe("conv/Int/arr3/"+src.name, func() string { t("a"); x := [3]Int(src.s); t("b"); return itoa(int64(len(x))) })
			probe("conv/Int/ptr3/"+src.name, func() string { t("a"); x := (*[3]Int)(src.s); t("b"); if x == nil { return "nilptr" }; return itoa(int64(len(x))) })
			probe("conv/Int/arr4/"+src.name, func() string { t("a"); x := [4]Int(src.s); t("b"); return itoa(int64(len(x))) })
			probe("conv/Int/ptr4/"+src.name, func() string { t("a"); x := (*[4]Int)(src.s); t("b"); if x == nil { return "nilptr" }; return itoa(int64(len(x))) })
		}
	}
	{
		full := []string{"a", "b", "c"}
		var nilS []string
		srcs := []struct {
			name string
			s    []string
		}{{"nil", nilS}, {"nil-resliced", nilS[:0]}, {"empty", full[:0]}, {"empty-cap0", full[:0:0]}, {"empty-end", full[3:]}, {"len1", full[:1]}, {"len2-off1", full[1:]}, {"len3", full}, {"len2-cap2", full[:2:2]}}
		for _, src := range srcs {
			src := src
			probe("conv/string/arr0/"+src.name, func() string { t("a"); x := [0]string(src.s); t("b"); return itoa(int64(len(x))) })
			probe("conv/string/ptr0/"+src.name, func() string { t("a"); x := (*[0]string)(src.s); t("b"); if x == nil { return "nilptr" }; return itoa(int64(len(x))) })
			probe("conv/string/arr1/"+src.name, func() string { t("a"); x := [1]string(src.s); t("b"); return itoa(int64(len(x))) })
			if len(src.s) < 1 || (len(src.s) == 1 && cap(src.s) == 1 && src.name == "len3") { // GopherJS documents that it refuses to convert a non-numeric subslice to an array pointer
				probe("conv/string/ptr1/"+src.name, func() string { t("a"); x := (*[1]string)(src.s); t("b"); if x == nil { return "nilptr" }; return itoa(int64(len(x))) })
			}
			probe("conv/string/arr2/"+src.name, func() string { t("a"); x := [2]string(src.s); t("b"); return itoa(int64(len(x))) })
			if len(src.s) < 2 || (len(src.s) == 2 && cap(src.s) == 2 && src.name == "len3") { // GopherJS documents that it refuses to convert a non-numeric subslice to an array pointer
				probe("conv/string/ptr2/"+src.name, func() string { t("a"); x := (*[2]string)(src.s); t("b"); if x == nil { return "nilptr" }; return itoa(int64(len(x))) })
			}
			probe("conv/string/arr3/"+src.name, func() string { t("a"); x := [3]string(src.s); t("b"); return itoa(int64(len(x))) })
			if len(src.s) < 3 || (len(src.s) == 3 && cap(src.s) == 3 && src.name == "len3") { // GopherJS documents that it refuses to convert a non-numeric subslice to an array pointer
				probe("conv/string/ptr3/"+src.name, func() string { t("a"); x := (*[3]string)(src.s); t("b"); if x == nil { return "nilptr" }; return itoa(int64(len(x))) })
			}
			probe("conv/string/arr4/"+src.name, func() string { t("a"); x := [4]string(src.s); t("b"); return itoa(int64(len(x))) })
			if len(src.s) < 4 || (len(src.s) == 4 && cap(src.s) == 4 && src.name == "len3") { // GopherJS documents that it refuses to convert a non-numeric subslice to an array pointer
				probe("conv/string/ptr4/"+src.name, func() string { t("a"); x := (*[4]string)(src.s); t("b"); if x == nil { return "nilptr" }; return itoa(int64(len(x))) })
			}
		}
	}
	{
		full := []uint8{1, 2, 3}
		var nilS []uint8
		srcs := []struct {
			name string
			s    []uint8
		}{{"nil", nilS}, {"nil-resliced", nilS[:0]}, {"empty", full[:0]}, {"empty-cap0", full[:0:0]}, {"empty-end", full[3:]}, {"len1", full[:1]}, {"len2-off1", full[1:]}, {"len3", full}, {"len2-cap2", full[:2:2]}}
		for _, src := range srcs {
			src := src
			probe("conv/uint8/arr0/"+src.name, func() string { t("a"); x := [0]uint8(src.s); t("b"); return itoa(int64(len(x))) })
			probe("conv/uint8/ptr0/"+src.name, func() string { t("a"); x := (*[0]uint8)(src.s); t("b"); if x == nil { return "nilptr" }; return itoa(int64(len(x))) })
			probe("conv/uint8/arr1/"+src.name, func() string { t("a"); x := [1]uint8(src.s); t("b"); return itoa(int64(len(x))) })
			probe("conv/uint8/ptr1/"+src.name, func() string { t("a"); x := (*[1]uint8)(src.s); t("b"); if x == nil { return "nilptr" }; return itoa(int64(len(x))) })
			probe("conv/uint8/arr2/"+src.name, func() string { t("a"); x := [2]uint8(src.s); t("b"); return itoa(int64(len(x))) })
			probe("conv/uint8/ptr2/"+src.name, func() string { t("a"); x := (*[2]uint8)(src.s); t("b"); if x == nil { return "nilptr" }; return itoa(int64(len(x))) })
			probe("conv/uint8/arr3/"+src.name, func() string { t("a"); x := [3]uint8(src.s); t("b"); return itoa(int64(len(x))) })
			probe("conv/uint8/ptr3/"+src.name, func() string { t("a"); x := (*[3]uint8)(src.s); t("b"); if x == nil { return "nilptr" }; return itoa(int64(len(x))) })
			probe("conv/uint8/arr4/"+src.name, func() string { t("a"); x := [4]uint8(src.s); t("b"); return itoa(int64(len(x))) })
			probe("conv/uint8/ptr4/"+src.name, func() string { t("a"); x := (*[4]uint8)(src.s); t("b"); if x == nil { return "nilptr" }; return itoa(int64(len(x))) })
		}
	}
	str := []string{"a", "b"}
	probe("conv/arr-string-longer", func() string { x := [3]string(str); return x[0] })
}

func channels() {
	probe("chan/close-closed", func() string { c := make(chan Int); close(c); t("a"); close(c); return "closed twice" })
	probe("chan/send-closed", func() string { c := make(chan Int, 1); close(c); t("a"); c <- t("val"); return "sent" })
	probe("chan/select-send-closed", func() string {
		c := make(chan Int, 1)
		close(c)
		select {
		case c <- 1:
			return "sent"
		default:
			return "default"
		}
	})
	probe("chan/recv-closed-ok", func() string { c := make(chan Int, 1); c <- 5; close(c); a, ok1 := <-c; b, ok2 := <-c; return itoa(int64(a)) + btoa(ok1) + itoa(int64(b)) + btoa(ok2) })
	probe("chan/close-recvonly-view", func() string { c := make(chan Int); var s chan<- Int = c; close(s); _, ok := <-c; return btoa(ok) })
}

type errT struct{ msg string }

func (e errT) Error() string { return e.msg }

type strT string

func explicit() {
	probe("panic/int", func() string { panic(42) })
	probe("panic/string", func() string { panic("boom") })
	probe("panic/error", func() string { panic(errT{"custom"}) })
	probe("panic/ptr-error", func() string { panic(&errT{"ptr"}) })
	// the value arrives unchanged (identity / dynamic type)
	p := &S{a: 9}
	got := func() (r interface{}) {
		defer func() { r = recover() }()
		panic(p)
	}()
	println("C08/op/panic/identity", btoa(got == interface{}(p)))
	got = func() (r interface{}) {
		defer func() { r = recover() }()
		panic(strT("named"))
	}()
	_, isStr := got.(string)
	v, isNamed := got.(strT)
	println("C08/op/panic/named-type", btoa(isStr), btoa(isNamed), string(v))
	got = func() (r interface{}) {
		defer func() { r = recover() }()
		panic(S{a: 3, b: [2]Int{4, 5}})
	}()
	sv := got.(S)
	println("C08/op/panic/struct-value", itoa(int64(sv.a+sv.b[1])))
	got = func() (r interface{}) {
		defer func() { r = recover() }()
		var m map[string]Int
		m["a"] = 1
		return nil
	}()
	re, isRE := got.(runtime.Error)
	_, isErr := got.(error)
	println("C08/op/panic/runtime-error-iface", btoa(isRE), btoa(isErr), classOf(re.Error()))
}

func main() {
	indexing()
	slicing()
	nils()
	arith()
	assertions()
	makes()
	channels()
	explicit()
	static()
}
`

const staticSrc = `package main

import "runtime"

type R struct{ n Int }

func (r R) Show(tag string)   { tr += tag + "=" + itoa(int64(r.n)) + ";" }
func (r *R) PShow(tag string) { tr += tag + "=" + itoa(int64(r.n)) + ";" }

func sprobe(id string, f func()) {
	tr = ""
	func() {
		defer func() {
			if r := recover(); r != nil {
				tr += "TOP:" + errClass(r) + ";"
			}
		}()
		f()
	}()
	println("C08/static/"+id, tr)
}

func recoverHere() interface{} { return recover() }

func static() {
	sprobe("lifo-loop", func() {
		for i := 0; i < 4; i++ {
			defer func(n int) { t("d" + itoa(int64(n))) }(i)
		}
	})
	sprobe("args-at-defer-time", func() {
		x := Int(1)
		defer func(v Int) { t("v" + itoa(int64(v)) + "x" + itoa(int64(x))) }(x)
		x = 2
		defer t("direct" + itoa(int64(x)))
		x = 3
	})
	sprobe("method-value-receiver-at-defer-time", func() {
		r := R{1}
		defer r.Show("val")
		defer r.PShow("ptr")
		f := r.Show
		defer f("bound")
		r.n = 2
	})
	sprobe("builtins", func() {
		c := make(chan Int, 1)
		m := map[string]Int{"a": 1, "b": 2}
		func() {
			defer close(c)
			defer delete(m, "a")
			s := []Int{1}
			defer copy(s, []Int{9})
			defer func() { t("s" + itoa(int64(s[0]))) }()
		}()
		_, ok := <-c
		t("closed" + btoa(!ok) + "len" + itoa(int64(len(m))))
	})
	sprobe("defer-recover-directly", func() {
		defer func() { t("outer=" + errClass(recover())) }()
		defer recover()
		panic("x")
	})
	sprobe("defer-helper-that-recovers", func() {
		defer func() { t("outer=" + errClass(recover())) }()
		defer recoverHere()
		panic("x")
	})
	sprobe("recover-in-nested-call", func() {
		defer func() { t("outer=" + errClass(recover())) }()
		defer func() { t("inner=" + errClass(recoverHere())) }()
		panic("x")
	})
	sprobe("recover-outside-panic", func() {
		t("norm=" + errClass(recover()))
		defer func() { t("def=" + errClass(recover())) }()
	})
	sprobe("recover-then-continue-caller", func() {
		f := func() (r Int) {
			defer func() {
				recover()
				r = 7
			}()
			panic("x")
		}
		t("r" + itoa(int64(f())))
		t("after")
	})
	sprobe("named-result-modified", func() {
		f := func() (r Int) {
			defer func() { r *= 2 }()
			return 21
		}
		g := func() (a, b Int) {
			defer func() { a, b = b, a }()
			return 1, 2
		}
		x, y := g()
		t("f" + itoa(int64(f())) + "g" + itoa(int64(x)) + itoa(int64(y)))
	})
	sprobe("unnamed-result-not-modified", func() {
		f := func() Int {
			x := Int(1)
			defer func() { x = 2 }()
			return x
		}
		t("f" + itoa(int64(f())))
	})
	sprobe("nested-panic-replaced", func() {
		defer func() { t("rec=" + errClass(recover())) }()
		defer func() { panic("second") }()
		panic("first")
	})
	sprobe("nested-panic-inner-recovered", func() {
		defer func() { t("outer=" + errClass(recover())) }()
		defer func() {
			defer func() { t("inner=" + errClass(recover())) }()
			panic("second")
		}()
		panic("first")
	})
	sprobe("repanic-same-value", func() {
		defer func() { t("outer=" + errClass(recover())) }()
		defer func() {
			r := recover()
			t("mid=" + errClass(r))
			panic(r)
		}()
		panic("first")
	})
	sprobe("panic-in-defer-during-normal-return", func() {
		f := func() (r Int) {
			defer func() { recover(); r = 5 }()
			defer func() { panic("late") }()
			return 1
		}
		t("r" + itoa(int64(f())))
	})
	sprobe("recover-stops-unwinding-there", func() {
		inner := func() {
			defer t("inner-defer")
			panic("x")
		}
		mid := func() {
			defer func() { t("mid-rec=" + errClass(recover())) }()
			inner()
			t("not-reached")
		}
		mid()
		t("outer-continues")
	})
	sprobe("defers-run-once-after-recover", func() {
		n := 0
		f := func() {
			defer func() { n++ }()
			defer func() { recover() }()
			defer func() { n += 10 }()
			panic("x")
		}
		f()
		t("n" + itoa(int64(n)))
	})
	sprobe("runtime-error-in-defer", func() {
		defer func() { t("rec=" + errClass(recover())) }()
		defer func() {
			var m map[string]Int
			m["a"] = 1
		}()
		t("body")
	})
	sprobe("goexit-runs-defers", func() {
		done := make(chan bool)
		go func() {
			defer func() { t("d1=" + errClass(recover())); done <- true }()
			func() {
				defer t("inner")
				runtime.Goexit()
			}()
			t("not-reached")
		}()
		<-done
	})
	sprobe("goexit-through-frames-with-defers", func() {
		done := make(chan bool)
		f3 := func() { defer t("f3"); runtime.Goexit() }
		f2 := func() { defer t("f2"); f3(); t("f2-not-reached") }
		go func() {
			defer func() { done <- true }()
			defer t("f1")
			f2()
			t("f1-not-reached")
		}()
		<-done
	})
	sprobe("goexit-deferred-calls-functions-with-defers", func() {
		done := make(chan bool)
		helper := func(n Int) { defer t("h" + itoa(int64(n)) + "d"); t("h" + itoa(int64(n))) }
		nested := func() { defer func() { helper(3); t("nested-d") }(); helper(2) }
		recovering := func() { defer func() { t("rec=" + errClass(recover())) }(); panic("inside") }
		go func() {
			defer func() { t("last"); done <- true }()
			defer func() {
				t("A")
				helper(1)
				t("A1")
				nested()
				t("A2")
				recovering()
				t("A3")
				for i := 0; i < 2; i++ {
					func() { defer t("loop"); t("it") }()
				}
				t("A-end")
			}()
			func() {
				defer helper(4)
				defer func() { helper(5); t("B-end") }()
				runtime.Goexit()
			}()
			t("not-reached")
		}()
		<-done
	})
	sprobe("goexit-from-deferred-function", func() {
		done := make(chan bool)
		helper := func() { defer t("hd"); t("h") }
		go func() {
			defer func() { t("outer"); helper(); t("outer-end"); done <- true }()
			func() {
				defer t("after-goexit-frame")
				defer func() { t("calls-goexit"); helper(); runtime.Goexit() }()
				t("body")
			}()
			t("not-reached")
		}()
		<-done
	})
	sprobe("panic-other-goroutine-recovered-there", func() {
		done := make(chan string)
		go func() {
			defer func() { done <- errClass(recover()) }()
			var p *R
			_ = p.n
		}()
		t("got=" + <-done)
	})
	sprobe("recover-value-types", func() {
		for _, v := range []interface{}{1, "s", 2.5, R{3}, &R{4}, []Int{1}, len(tr) >= 0} {
			func() {
				defer func() {
					r := recover()
					switch x := r.(type) {
					case int:
						t("int")
					case string:
						t("string" + x)
					case float64:
						t("float")
					case R:
						t("R" + itoa(int64(x.n)))
					case *R:
						t("pR" + itoa(int64(x.n)))
					case []Int:
						t("slice" + itoa(int64(len(x))))
					case bool:
						t("bool")
					default:
						t("other")
					}
				}()
				panic(v)
			}()
		}
	})
	sprobe("deferred-closure-sees-later-writes", func() {
		x := Int(1)
		defer func() { t("x" + itoa(int64(x))) }()
		x = 2
	})
	sprobe("defer-in-loop-with-recover", func() {
		for i := 0; i < 3; i++ {
			func() {
				defer func() { t("r" + itoa(int64(i)) + "=" + errClass(recover())) }()
				if i == 1 {
					panic("one")
				}
			}()
		}
	})
	sprobe("deferred-nil-func-panics-at-exit", func() {
		defer func() { t("rec=" + errClass(recover())) }()
		var f func()
		defer f()
		t("body-runs")
	})
	sprobe("deferred-method-on-nil-iface", func() {
		defer func() { t("rec=" + errClass(recover())) }()
		func() {
			var e interface{ Show(string) }
			defer func() { t("registered-before") }()
			defer e.Show("x")
			t("not-reached")
		}()
	})
	sprobe("panic-value-modified-after-panic", func() {
		p := &R{1}
		defer func() { r := recover().(*R); t("n" + itoa(int64(r.n))) }()
		defer func() { p.n = 2 }()
		panic(p)
	})
}
`

// OpsProgram: panicking operations and static defer/recover forms.
func OpsProgram() diffrun.Program {
	return diffrun.Program{Name: "c08_ops", Files: map[string]string{"main.go": opsSrc, "static.go": staticSrc}}
}
