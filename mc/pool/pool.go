// Package pool runs gjs builds in worker subprocesses of the same binary
// (`vcheck worker`), one request at a time per worker, so that a compiler
// panic, runaway loop or OOM of an edited tree kills one worker only.
package pool

import (
	"bufio"
	"encoding/json"
	"fmt"
	"io"
	"os"
	"os/exec"
	"runtime"
	"sync"
	"time"

	"verif/mc/gjs"
)

// WorkerMain is the body of `vcheck worker`.
func WorkerMain() {
	in := bufio.NewReaderSize(os.Stdin, 1<<20)
	out := json.NewEncoder(os.Stdout)
	// keep build chatter off the protocol stream
	for {
		line, err := in.ReadBytes('\n')
		if len(line) > 0 {
			var req gjs.Request
			if e := json.Unmarshal(line, &req); e != nil {
				out.Encode(gjs.Result{Class: "error", Err: "bad request: " + e.Error()})
			} else {
				res := gjs.Build(req)
				out.Encode(res)
			}
		}
		if err != nil {
			return
		}
	}
}

type worker struct {
	cmd *exec.Cmd
	in  io.WriteCloser
	out *bufio.Reader
}

// Pool of build workers.
type Pool struct {
	Exe     string   // worker binary ("" = this executable)
	Env     []string // extra environment for workers
	mu      sync.Mutex
	idle    []*worker
	sem     chan struct{}
	Timeout time.Duration
}

// New creates a pool with n workers (0 = NumCPU).
func New(n int) *Pool {
	if n <= 0 {
		n = runtime.NumCPU()
	}
	return &Pool{sem: make(chan struct{}, n), Timeout: 180 * time.Second}
}

func (p *Pool) get() (*worker, error) {
	p.mu.Lock()
	if k := len(p.idle); k > 0 {
		w := p.idle[k-1]
		p.idle = p.idle[:k-1]
		p.mu.Unlock()
		return w, nil
	}
	p.mu.Unlock()
	exe := p.Exe
	if exe == "" {
		var err error
		exe, err = os.Executable()
		if err != nil {
			return nil, err
		}
	}
	cmd := exec.Command(exe, "worker")
	cmd.Stderr = io.Discard
	cmd.Env = append(append(os.Environ(), "GOPHERJS_SKIP_VERSION_CHECK=true"), p.Env...)
	in, _ := cmd.StdinPipe()
	outp, _ := cmd.StdoutPipe()
	if err := cmd.Start(); err != nil {
		return nil, err
	}
	return &worker{cmd: cmd, in: in, out: bufio.NewReaderSize(outp, 1<<20)}, nil
}

func (p *Pool) put(w *worker) {
	p.mu.Lock()
	p.idle = append(p.idle, w)
	p.mu.Unlock()
}

// Build runs one request on some worker.
func (p *Pool) Build(req gjs.Request) gjs.Result {
	p.sem <- struct{}{}
	defer func() { <-p.sem }()
	w, err := p.get()
	if err != nil {
		return gjs.Result{Class: "harness", Err: err.Error()}
	}
	b, _ := json.Marshal(req)
	b = append(b, '\n')
	type rr struct {
		res gjs.Result
		err error
	}
	ch := make(chan rr, 1)
	go func() {
		if _, err := w.in.Write(b); err != nil {
			ch <- rr{err: err}
			return
		}
		line, err := w.out.ReadBytes('\n')
		if err != nil {
			ch <- rr{err: fmt.Errorf("worker died: %v", err)}
			return
		}
		var res gjs.Result
		if err := json.Unmarshal(line, &res); err != nil {
			ch <- rr{err: err}
			return
		}
		ch <- rr{res: res}
	}()
	select {
	case r := <-ch:
		if r.err != nil {
			w.cmd.Process.Kill()
			w.cmd.Wait()
			return gjs.Result{Class: "internal", Err: "compiler worker crashed: " + r.err.Error()}
		}
		p.put(w)
		return r.res
	case <-time.After(p.Timeout):
		w.cmd.Process.Kill()
		w.cmd.Wait()
		return gjs.Result{Class: "timeout", Err: "compiler worker timed out"}
	}
}

// Close kills all idle workers.
func (p *Pool) Close() {
	p.mu.Lock()
	defer p.mu.Unlock()
	for _, w := range p.idle {
		w.in.Close()
		w.cmd.Process.Kill()
		w.cmd.Wait()
	}
	p.idle = nil
}
