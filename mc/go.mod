module verif/mc

go 1.20

require (
	github.com/gopherjs/gopherjs v0.0.0
	github.com/neelance/sourcemap v0.0.0-20200213170602-2833bce08e4c
)

require (
	github.com/evanw/esbuild v0.25.4 // indirect
	github.com/fsnotify/fsnotify v1.5.1 // indirect
	github.com/msvitok77/goembed v0.3.5 // indirect
	github.com/neelance/astrewrite v0.0.0-20160511093645-99348263ae86 // indirect
	github.com/sirupsen/logrus v1.8.3 // indirect
	golang.org/x/sys v0.10.0 // indirect
	golang.org/x/tools v0.16.0 // indirect
)

replace github.com/gopherjs/gopherjs => /repo
